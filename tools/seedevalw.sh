#!/bin/bash
# tools/seedevalw.sh <PID> <LABEL>   evaluate and store the seeded changes of /tmp/seed-<PID>-<LABEL>-out
# The check runs from the evaluation copy $VERIF_HOME (default /var/tmp/veval, a worktree of /verif's HEAD with its own
# .lake) so that builders working in /verif are not disturbed; results are stored under /verif/seeded/<PID>-<LABEL><k>/.
PID=$1; L=$2
export VERIF_HOME=${VERIF_HOME:-/var/tmp/veval}
SRC=/tmp/seed-$PID-$L-out
cd /verif
for k in 1 2 3; do
  [ -f $SRC/change$k.diff ] || continue
  r=$(tools/seedrun.sh $PID $SRC $k)
  /venv/bin/python tools/seedstore.py $PID $k "$r" $SRC "$L"
  echo "$r" | python3 -c "
import sys,json
d=json.loads(sys.stdin.read()); print('   applies',d.get('applies'),'demo',d.get('demo_clean_exit'),d.get('demo_mut_exit'),'tests',d.get('tests','')[:10],'check_exit',d.get('check_exit'),'nofail',d.get('no_failing_input'),'|',d.get('check_summary','')[-90:])"
done
