"""tools/mkbuilder.py PID [template] — print the builder prompt for a property."""
import sys, os
pid = sys.argv[1]
tmpl = sys.argv[2] if len(sys.argv) > 2 else "builder6.txt"
here = os.path.dirname(os.path.abspath(__file__))
print(open(os.path.join(here, "prompts", tmpl)).read().format(PID=pid, LPID=pid.lower()))
