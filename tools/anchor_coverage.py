"""tools/anchor_coverage.py PID [--tier quick|thorough] [--seed N] [--cases N]

Diagnostic (not a registered check): runs the implementation side of a property's check (corpus + generated cases,
implementation run + direct oracle, exactly as harness/common/runner.py does) under line/branch coverage of /repo/delphin
and reports, for the files the property is anchored in, which lines and branch arcs NO case executed, grouped by function.
A line the generators never reach is a place where a behaviour change cannot be seen by the oracle or the
correspondence; the report is the work list for generator dimensions.  Writes coverage/<PID>.json and prints a summary.

Run as:  cd /verif && PYTHONPATH=/repo /venv/bin/python -B tools/anchor_coverage.py C08
"""
import ast
import importlib
import json
import os
import random
import sys

HERE = os.path.dirname(os.path.dirname(os.path.abspath(__file__)))
sys.path.insert(0, HERE)

import coverage  # noqa: E402

from harness.common import paths, runner  # noqa: E402


def functions_of(path):
    with open(path, encoding="utf-8") as f:
        tree = ast.parse(f.read())
    spans = []

    def walk(node, prefix):
        for ch in ast.iter_child_nodes(node):
            if isinstance(ch, (ast.FunctionDef, ast.AsyncFunctionDef, ast.ClassDef)):
                name = prefix + ch.name
                if not isinstance(ch, ast.ClassDef):
                    # skip the docstring lines
                    body0 = ch.body[0]
                    start = ch.lineno
                    if (isinstance(body0, ast.Expr) and isinstance(getattr(body0, "value", None), ast.Constant)
                            and isinstance(body0.value.value, str)):
                        start = body0.end_lineno + 1
                    spans.append((name, start, ch.end_lineno))
                walk(ch, name + ".")
    walk(tree, "")
    return spans


def main():
    args = sys.argv[1:]
    pid = args[0]
    tier = args[args.index("--tier") + 1] if "--tier" in args else "quick"
    seed = int(args[args.index("--seed") + 1]) if "--seed" in args else 0
    paths.ensure_repo_on_path()
    props = {}
    with open(os.path.join(HERE, "properties.jsonl"), encoding="utf-8") as f:
        for l in f:
            d = json.loads(l)
            props[d["id"]] = d
    anchors = [os.path.join(paths.REPO, p) for p in props[pid]["anchors"].get("files", [])]
    cov = coverage.Coverage(branch=True, include=[os.path.join(paths.REPO, "delphin", "*")], data_file=None)
    # import the harness module under coverage so that import-time code of delphin counts as executed
    cov.start()
    try:
        check = importlib.import_module("harness." + pid.lower()).CHECK
        n = int(args[args.index("--cases") + 1]) if "--cases" in args else (
            check.quick_cases if tier == "quick" else check.thorough_cases)
        rng = random.Random(seed)
        check.setup()
        try:
            total = 0
            for _src, case in runner.load_corpus(pid):
                runner.evaluate(check, case)
                total += 1
            for case in check.cases(rng, tier, n):
                runner.evaluate(check, case)
                total += 1
        finally:
            check.teardown()
    finally:
        cov.stop()
    report = {"property": pid, "tier": tier, "seed": seed, "cases": total, "files": {}}
    tot_stmt = tot_miss = 0
    for path in anchors:
        if not os.path.exists(path):
            continue
        try:
            _fn, stmts, _excl, missing, _fmt = cov.analysis2(path)
        except coverage.CoverageException:
            report["files"][os.path.relpath(path, paths.REPO)] = {"never_imported": True}
            continue
        ana = cov._analyze(path)
        arcs_missing = sorted(ana.arcs_missing()) if ana.has_arcs else []
        spans = functions_of(path)
        per_fn = {}
        for ln in missing:
            owner = None
            for name, a, b in spans:
                if a <= ln <= b and (owner is None or a >= owner[1]):
                    owner = (name, a, b)
            per_fn.setdefault(owner[0] if owner else "<module>", []).append(ln)
        arcs_fn = {}
        mset = set(missing)
        for a, b in arcs_missing:
            if a in mset or (b in mset and b > 0):
                continue   # already reported as a missing line
            owner = None
            for name, s, e in spans:
                if s <= abs(a) <= e and (owner is None or s >= owner[1]):
                    owner = (name, s, e)
            arcs_fn.setdefault(owner[0] if owner else "<module>", []).append([a, b])
        rel = os.path.relpath(path, paths.REPO)
        report["files"][rel] = {"statements": len(stmts), "missing": len(missing),
                                "missing_lines_by_function": per_fn, "untaken_branches_by_function": arcs_fn}
        tot_stmt += len(stmts)
        tot_miss += len(missing)
    report["statements"] = tot_stmt
    report["missing"] = tot_miss
    os.makedirs(os.path.join(HERE, "coverage"), exist_ok=True)
    with open(os.path.join(HERE, "coverage", pid + ".json"), "w", encoding="utf-8") as f:
        json.dump(report, f, indent=1, sort_keys=True)
    print("%s tier=%s seed=%d cases=%d: anchored statements %d, never executed %d (%.1f%%)"
          % (pid, tier, seed, total, tot_stmt, tot_miss, 100.0 * tot_miss / max(1, tot_stmt)))
    for rel, d in report["files"].items():
        if d.get("never_imported"):
            print("  %s: never imported" % rel)
            continue
        print("  %s: %d/%d lines not executed; %d functions with untaken branches"
              % (rel, d["missing"], d["statements"], len(d["untaken_branches_by_function"])))
        for fn, lines in sorted(d["missing_lines_by_function"].items()):
            print("      %-45s lines %s" % (fn, ",".join(map(str, lines[:25])) + (" …" if len(lines) > 25 else "")))


if __name__ == "__main__":
    main()
