#!/bin/bash
# tools/seedeval.sh <PID> [label]   evaluate and store the three seeded changes of /tmp/seed<label>-<PID>-out
PID=$1; L=${2:-}
SRC=/tmp/seed$L-$PID-out
for k in 1 2 3; do
  [ -f $SRC/change$k.diff ] || continue
  r=$(tools/seedrun.sh $PID $SRC $k)
  /venv/bin/python tools/seedstore.py $PID $k "$r" $SRC "$L"
  echo "$r" | python3 -c "
import sys,json
d=json.loads(sys.stdin.read()); print('   applies',d.get('applies'),'demo',d.get('demo_clean_exit'),d.get('demo_mut_exit'),'tests',d.get('tests','')[:10],'check_exit',d.get('check_exit'),'nofail',d.get('no_failing_input'),'|',d.get('check_summary','')[-90:])"
done
