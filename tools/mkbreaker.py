"""tools/mkbreaker.py PID [template] — print the breaker prompt for a property (property text only; nothing from /verif's machinery)."""
import json, sys, os
pid = sys.argv[1]
tmpl = sys.argv[2] if len(sys.argv) > 2 else "breakerF.txt"
label = sys.argv[3] if len(sys.argv) > 3 else "F"
here = os.path.dirname(os.path.abspath(__file__))
props = {json.loads(l)["id"]: json.loads(l) for l in open(os.path.join(here, "..", "properties.jsonl"))}
p = props[pid]
a = p["anchors"]
anch = "files " + ", ".join(a.get("files", [])) + "; mechanisms: " + "; ".join(
    (m.get("name", "") + (" (" + m.get("where", "") + ")" if m.get("where") else "")) if isinstance(m, dict) else str(m)
    for m in a.get("mechanism", []))
t = open(os.path.join(here, "prompts", tmpl)).read()
print(t.format(WT="/tmp/brk-%s-%s" % (pid, label), OUT="/tmp/seed-%s-%s-out" % (pid, label), PID=pid, TITLE=p["title"],
               STATEMENT=p["statement"], QUANT=p["quantifier"]["text"], ANCHORS=anch))
