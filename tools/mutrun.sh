#!/bin/bash
# tools/mutrun.sh <PID> <repo-worktree> [check args…]
# Runs ./check <PID> against a MUTATED worktree of /repo from a private copy of /verif (working tree as it is now, its own
# .lake), so that the regenerated tables (Generated/Tables*.lean, Trans*.lean) and the build of the mutated run never
# disturb /verif or other agents.  Evidence and replays go to /var/tmp/mut-<PID>/ev.  Prints the check's output.
PID=$1; WT=$2; shift 2
COPY=/var/tmp/mut-$PID/verif
mkdir -p /var/tmp/mut-$PID/ev
rsync -a --delete --exclude .git --exclude replays --exclude coverage /verif/ $COPY/; rc=$?
[ $rc -eq 0 ] || [ $rc -eq 24 ] || exit 2   # 24 = files vanished while other agents build: harmless
cd $COPY || exit 2
VERIF_REPO=$WT VERIF_EVIDENCE_DIR=/var/tmp/mut-$PID/ev VERIF_REPLAYS_DIR=/var/tmp/mut-$PID/ev ./check $PID "$@"
rc=$?
echo "mutrun: exit $rc (copy $COPY; replays /var/tmp/mut-$PID/ev)"
exit $rc
