#!/bin/bash
# tools/seedrerun.sh <seeded/ID dir name, e.g. C13-B1> [VERIF_SEED] [tier]
# Re-runs a STORED seeded change (seeded/<ID>/patch.diff) against a scratch worktree of /repo's HEAD with the given
# seed; prints one JSON line {"id","seed","check_exit","no_failing_input","summary"}.  Does not touch seeded/<ID>/meta.json.
ID=$1; SEED=${2:-0}; TIER=${3:-quick}
PID=${ID%%-*}
WT=/tmp/seedrerun-$ID; SCR=/var/tmp/seedrerun-$ID
cd "${VERIF_HOME:-/verif}"
git -C /repo worktree remove --force $WT 2>/dev/null; rm -rf $WT $SCR; mkdir -p $SCR
git -C /repo worktree add -q --detach $WT HEAD || exit 2
if ! git -C $WT apply /verif/seeded/$ID/patch.diff 2>$SCR/apply.err; then
  echo "{\"id\":\"$ID\",\"seed\":$SEED,\"applies\":false}"; git -C /repo worktree remove --force $WT; rm -rf $SCR; exit 0; fi
VERIF_SEED=$SEED VERIF_REPO=$WT VERIF_EVIDENCE_DIR=$SCR VERIF_REPLAYS_DIR=$SCR timeout 1800 ./check $PID --tier $TIER > $SCR/check.out 2>&1
rc=$?
nofail=$(grep -c 'no-failing-input-found' $SCR/check.out)
summary=$(tail -1 $SCR/check.out | tr '"' "'" | cut -c1-300)
echo "{\"id\":\"$ID\",\"seed\":$SEED,\"applies\":true,\"check_exit\":$rc,\"no_failing_input\":$nofail,\"summary\":\"$summary\"}"
git -C /repo worktree remove --force $WT; rm -rf $SCR
PYTHONPATH=/repo DELPH_IN_PYDELPHIN_VERIF=1 PYTHONHASHSEED=0 /venv/bin/python -B -m harness.common.tables --pid $PID >/dev/null 2>&1
