#!/bin/bash
# tools/seedrun.sh <PID> <dir-with-changeK.diff/demoK.py/metaK.json> <K> [tier]
# Applies a seeded change in a scratch worktree of /repo's HEAD (never in /repo itself while builders run),
# confirms demo fails / passes, test suite passes, and runs ./check PID against that tree.
PID=$1; SRC=$2; K=$3; TIER=${4:-quick}
WT=/tmp/seedrun-$PID-$K; SCR=/var/tmp/seedrun-$PID-$K
git -C /repo worktree remove --force $WT 2>/dev/null; rm -rf $WT $SCR; mkdir -p $SCR
git -C /repo worktree add -q --detach $WT HEAD || exit 2
cd "${VERIF_HOME:-/verif}"
demo_clean=$(PYTHONPATH=$WT timeout 300 /venv/bin/python -B $SRC/demo$K.py >/dev/null 2>&1; echo $?)
if ! git -C $WT apply $SRC/change$K.diff 2>$SCR/apply.err; then echo "{\"pid\":\"$PID\",\"k\":$K,\"applies\":false}"; git -C /repo worktree remove --force $WT; exit 0; fi
demo_mut=$(PYTHONPATH=$WT timeout 300 /venv/bin/python -B $SRC/demo$K.py >$SCR/demo.out 2>&1; echo $?)
tests=$(cd $WT && PYTHONPATH=$WT timeout 900 /venv/bin/python -m pytest -q -p no:cacheprovider tests 2>&1 | tail -1)
VERIF_REPO=$WT VERIF_EVIDENCE_DIR=$SCR VERIF_REPLAYS_DIR=$SCR timeout 1800 ./check $PID --tier $TIER > $SCR/check.out 2>&1
rc=$?
viol=$(grep -c '^VIOLATION' $SCR/check.out)
nofail=$(grep -c 'no-failing-input-found' $SCR/check.out)
summary=$(tail -1 $SCR/check.out | tr '"' "'")
echo "{\"pid\":\"$PID\",\"k\":$K,\"applies\":true,\"demo_clean_exit\":$demo_clean,\"demo_mut_exit\":$demo_mut,\"tests\":\"$tests\",\"check_exit\":$rc,\"violation_lines\":$viol,\"no_failing_input\":$nofail,\"tier\":\"$TIER\",\"check_summary\":\"$summary\"}"
git -C /repo worktree remove --force $WT
# restore generated tables from /repo (the check may have regenerated them from the mutated tree)
PYTHONPATH=/repo DELPH_IN_PYDELPHIN_VERIF=1 PYTHONHASHSEED=0 /venv/bin/python -B -m harness.common.tables --pid $PID >/dev/null 2>&1
