"""tools/seedstore.py PID K RESULT_JSON [SRC_DIR] [LABEL] — store a confirmed seeded change under seeded/<PID>-<LABEL><K>/"""
import json, os, shutil, sys
pid, k, res = sys.argv[1], sys.argv[2], json.loads(sys.argv[3])
src = sys.argv[4] if len(sys.argv) > 4 else "/tmp/seed-%s-out" % pid
label = sys.argv[5] if len(sys.argv) > 5 else ""
dst = os.path.join(os.path.dirname(os.path.dirname(os.path.abspath(__file__))), "seeded", "%s-%s%s" % (pid, label, k))
os.makedirs(dst, exist_ok=True)
shutil.copy(os.path.join(src, "change%s.diff" % k), os.path.join(dst, "patch.diff"))
shutil.copy(os.path.join(src, "demo%s.py" % k), os.path.join(dst, "demo.py"))
meta = json.load(open(os.path.join(src, "meta%s.json" % k)))
meta["confirmed"] = {
    "how": "tools/seedrun.sh: patch applied in a scratch worktree of /repo HEAD; demo.py run with PYTHONPATH=<worktree> "
           "(exit 0 pristine, exit 1 with the change); full test suite run in the worktree; ./check run with "
           "VERIF_REPO=<worktree>",
    "demo_exit_pristine": res.get("demo_clean_exit"), "demo_exit_with_change": res.get("demo_mut_exit"),
    "test_suite": res.get("tests"), "check_tier": res.get("tier"), "check_exit": res.get("check_exit"),
    "violation_lines": res.get("violation_lines"), "no_failing_input_found": bool(res.get("no_failing_input")),
    "check_summary": res.get("check_summary"),
    "detected": res.get("check_exit") == 1,
}
json.dump(meta, open(os.path.join(dst, "meta.json"), "w"), indent=1)
print(dst, "detected" if meta["confirmed"]["detected"] else "MISSED")
