"""Regenerate the 'as built' appendix of DESIGN.md from claims.py, evidence/, known_findings.json and seeded/.

    /venv/bin/python -B tools/gen_design_appendix.py
"""
import glob
import json
import os
import re
import sys

ROOT = os.path.dirname(os.path.dirname(os.path.abspath(__file__)))
sys.path.insert(0, ROOT)
from harness.common.claims import CLAIMS  # noqa: E402

BEGIN = "<!-- BEGIN GENERATED APPENDIX (tools/gen_design_appendix.py) -->"
END = "<!-- END GENERATED APPENDIX -->"


def esc(s):
    return str(s).replace("|", "\\|").replace("\n", " ")


def main():
    out = [BEGIN, "", "## Appendix A — as built (generated from claims.py, evidence/, known_findings.json, seeded/)", ""]
    out.append("### A.1 Claimed properties")
    out.append("")
    for pid in sorted(CLAIMS):
        c = CLAIMS[pid]
        ev = {}
        fn = os.path.join(ROOT, "evidence", pid + ".json")
        if os.path.exists(fn):
            ev = json.load(open(fn))
        cov = ev.get("coverage", {})
        out.append("**%s** — %s theorems audited (%s discharged); last %s run: %s cases, %s model/implementation "
                   "comparisons, %s disagreements, %.0f s." % (
                       pid, cov.get("obligations", "?"), cov.get("discharged", "?"), ev.get("tier", "?"),
                       cov.get("evaluations", "?"), cov.get("programs", "?"), cov.get("disagreements_checked", "?"),
                       ev.get("wall_s", 0)))
        out.append("")
        out.append("*Proved / decided:* " + c["text"])
        out.append("")
        out.append("*Assumed / only compared:* " + c["note"])
        out.append("")
    out.append("### A.2 Findings (genuine defects of /repo)")
    out.append("")
    out.append("| id | property | status | commit | what |")
    out.append("|---|---|---|---|---|")
    fs = json.load(open(os.path.join(ROOT, "known_findings.json")))["findings"]

    def key(f):
        m = re.match(r"F(\d+)", f["id"])
        return (int(m.group(1)) if m else 999, f["property"])
    for f in sorted(fs, key=key):
        out.append("| %s | %s | %s | %s | %s |" % (f["id"], f["property"], f["status"], f.get("commit", ""), esc(f["what"])))
    out.append("")
    out.append("### A.3 Seeded changes (written by independent sub-agents from the property text only)")
    out.append("")
    out.append("| seed | site | what it needs to manifest | quick check | how it was caught |")
    out.append("|---|---|---|---|---|")
    n = det = 0
    for d in sorted(glob.glob(os.path.join(ROOT, "seeded", "*"))):
        mf = os.path.join(d, "meta.json")
        if not os.path.exists(mf):
            continue
        m = json.load(open(mf))
        c = m.get("confirmed", {})
        n += 1
        det += 1 if c.get("detected") else 0
        summ = c.get("check_summary", "")
        mm = re.search(r"(\d+) disagreements, (\d+) oracle failures \((\d+) known\)", summ or "")
        how = ""
        if mm:
            dis, orf, kn = map(int, mm.groups())
            if c.get("no_failing_input_found"):
                how = "correspondence only (%d disagreements), no failing input found" % dis
            elif orf - kn > 0:
                how = "direct oracle: concrete failing input (%d new oracle failures, %d disagreements)" % (orf - kn, dis)
            else:
                how = "%d disagreements" % dis
        out.append("| %s | %s | %s | %s | %s |" % (
            os.path.basename(d), esc(m.get("site", "")), esc(m.get("needs", ""))[:300],
            "exit %s" % c.get("check_exit"), how))
    out.append("")
    out.append("%d seeded changes stored, %d detected by the quick tier." % (n, det))
    out.append("")
    out.append(END)
    text = "\n".join(out) + "\n"
    p = os.path.join(ROOT, "DESIGN.md")
    s = open(p, encoding="utf-8").read()
    if BEGIN in s:
        s = s[:s.index(BEGIN)] + text + s[s.index(END) + len(END):].lstrip("\n")
    else:
        s = s.rstrip("\n") + "\n\n---------------------------------------------------------------------------\n\n" + text
    open(p, "w", encoding="utf-8").write(s)
    print("appendix: %d claims, %d findings, %d seeds (%d detected)" % (len(CLAIMS), len(fs), n, det))


if __name__ == "__main__":
    main()
