"""C04 — MRS -> DMRS -> MRS: generators, implementation runner, direct oracle (naive
re-statement of every clause of the property on the real code), classifier."""
import copy
import itertools
import warnings

from .common import paths, semgen
from .common.runner import Check, canon

paths.ensure_repo_on_path()
from delphin import dmrs, mrs, scope, variable  # noqa: E402
from delphin.mrs import _operations as mops  # noqa: E402

V = semgen.var_to_json
VS = semgen.var_from_json


# ------------------------------------------------------------------ converters

def mrs_to_json(m):
    """like semgen.mrs_to_json, but VariableFactory stores `[]` (a list) for handles"""
    return {"top": V(m.top), "index": V(m.index),
            "rels": [semgen.ep_to_json(ep) for ep in m.rels],
            "hcons": [[V(hc.hi), hc.relation, V(hc.lo)] for hc in m.hcons],
            "icons": [[V(ic.left), ic.relation, V(ic.right)] for ic in m.icons],
            "vars": sorted([V(v), [[k, val] for k, val in (dict(ps).items() if ps else [])]]
                           for v, ps in m.variables.items())}


def _quiet(f, *a):
    with warnings.catch_warnings():
        warnings.simplefilter("ignore")
        return f(*a)


# ------------------------------------------------------------------ generators

PREDS = ["_dog_n_1", "_bark_v_1", "_big_a_1", "neg", "named", "_and_c", "_dog_n_1", "_big_a_1"]
QPREDS = ["_the_q", "_every_q", "_the_q"]
TENSES = ["past", "PRES", "untensed", "UNTENSED", "", "tensed"]


def _ep(pred, label, iv):
    return {"pred": pred, "label": label, "args": [["ARG0", iv]], "carg": None,
            "lnk": None, "surface": None, "base": None}


def resolve_bodies(rng, rels, hcons, newh, mode=None):
    """RESOLVED quantifier bodies (fully or partly scoped MRSs): the BODY of a quantifier is directly the
    label of a predication (label-scopal, BODY/HEQ link) or a hole with a qeq constraint (qeq-scopal,
    BODY/H link) instead of the unconstrained hole of an ordinary parse.  `full`: the quantifiers form a
    chain q1 > q2 > ... > a non-quantifier scope (a scoped reading); `part`: each quantifier independently
    open / label / qeq, target any other label (restriction, other quantifier, top scope, ...)."""
    qs = [e for e in rels if any(r == "RSTR" for r, _ in e["args"])]
    if not qs:
        return
    mode = mode or rng.choice(["full", "part", "part"])
    labels = []
    for e in rels:
        if e["label"] not in labels:
            labels.append(e["label"])

    def setbody(q, tgt, kind):
        for a in q["args"]:
            if a[0] == "BODY":
                if kind == "heq":
                    a[1] = tgt
                else:
                    hcons.append([a[1], "qeq", tgt])
    if mode == "full":
        order = list(qs)
        rng.shuffle(order)
        qlabels = [q["label"] for q in qs]
        rest = [l for l in labels if l not in qlabels] or labels
        kind = rng.choice(["heq", "h", "mix"])
        for k, q in enumerate(order):
            tgt = order[k + 1]["label"] if k + 1 < len(order) else rng.choice(rest)
            if tgt != q["label"]:
                setbody(q, tgt, rng.choice(["heq", "h"]) if kind == "mix" else kind)
    else:
        for q in qs:
            r = rng.random()
            if r < 0.3:
                continue
            cands = [l for l in labels if l != q["label"]]
            if cands:
                setbody(q, rng.choice(cands), "heq" if r < 0.65 else "h")


def gen_wf(rng, max_eps=7, mutual=0.03, twins=0.5, bodies=0.4):
    """A connected, scope-plausible MRS with the IV property, built as a tree of
    attachments; returns the MRS JSON.  Corners: modifiers sharing labels, label sharing
    without arguments (MOD/EQ), qeq- and label-scopal arguments, quantifiers, constants,
    unexpressed arguments, icons, repeated predicates with identical properties,
    shuffled predication order, random variable numbering."""
    n = rng.choice([1, 1, 2, 2, 3, 3, 4, 4, 5, 6, max_eps])
    nh = [0]

    def newh():
        nh[0] += 1
        return ["h", nh[0]]
    top = ["h", 0]
    rels, hcons, ivs, nargs = [], [], [], []
    same_pred = rng.random() < twins
    pred0 = rng.choice(PREDS)

    def addarg(k, v, role=None):
        nargs[k] += 1
        rels[k]["args"].append([role or "ARG%d" % nargs[k], v])
    quantified = []
    for i in range(n):
        sort = rng.choice(["x", "x", "e", "e", "e", "i", "p", "u"])
        iv = [sort, 100 + i]
        ivs.append(iv)
        me = _ep(pred0 if same_pred and rng.random() < 0.7 else rng.choice(PREDS), None, iv)
        nargs.append(0)
        if i == 0:
            me["label"] = newh()
            hcons.append([top, "qeq", me["label"]])
            rels.append(me)
            continue
        j = rng.randrange(i)
        r = rng.random()
        rels.append(me)
        if r < 0.22:                       # modifier: same scope, I take j
            me["label"] = rels[j]["label"]
            addarg(i, ivs[j])
        elif r < 0.34:                     # same scope, j takes me
            me["label"] = rels[j]["label"]
            addarg(j, iv)
        elif r < 0.42:                     # same scope, no argument between us (MOD/EQ)
            me["label"] = rels[j]["label"]
        elif r < 0.62:                     # qeq-scopal argument of j
            me["label"] = newh()
            hole = newh()
            hcons.append([hole, "qeq", me["label"]])
            addarg(j, hole)
        elif r < 0.72:                     # label-scopal argument of j
            me["label"] = newh()
            addarg(j, me["label"])
        elif r < 0.86:                     # own scope, I take j
            me["label"] = newh()
            addarg(i, ivs[j])
        else:                              # own scope, j takes me
            me["label"] = newh()
            addarg(j, iv)
    # a second argument between already connected predications now and then
    for _ in range(rng.choice([0, 0, 1, 2])):
        if n >= 2:
            a, b = rng.sample(range(n), 2)
            if rels[a]["label"] != rels[b]["label"] or a > b:
                addarg(a, ivs[b])
    # quantifiers
    heads = None
    for i in range(n):
        if ivs[i][0] == "x" and rng.random() < 0.6:
            if heads is None:
                # DMRS identifies the bound variable with the head (first representative) of the restriction
                tmp = semgen.mrs_from_json({"top": top, "index": None, "rels": copy.deepcopy(rels), "hcons": hcons,
                                            "icons": [], "vars": []})
                heads = {a["reps"][0] for a in scope_analysis(tmp).values() if a["reps"]}
            if i not in heads and rng.random() < 0.9:
                continue
            hole = newh()
            hcons.append([hole, "qeq", rels[i]["label"]])
            q = _ep(rng.choice(QPREDS), newh(), ivs[i])
            q["args"] += [["RSTR", hole], ["BODY", newh()]]
            rels.append(q)
            nargs.append(0)
            quantified.append(i)
    # resolved quantifier bodies (fully / partly scoped MRS)
    if quantified and rng.random() < bodies:
        resolve_bodies(rng, rels, hcons, newh)
    # mutual arguments inside one scope (finding F08)
    if n >= 2 and rng.random() < mutual:
        a = rng.randrange(n)
        b = rng.choice([k for k in range(n) if k != a])
        old = rels[b]["label"]
        for e in rels[:n]:
            if e["label"] == old:
                e["label"] = rels[a]["label"]
        for hc in hcons:
            if hc[2] == old:
                hc[2] = rels[a]["label"]
        for e in rels[n:]:                 # a resolved BODY selecting the merged scope directly
            e["args"] = [[r_, rels[a]["label"] if v == old else v] for r_, v in e["args"]]
        for (s, t) in ((a, b), (b, a)):
            if not any(v == ivs[t] for r_, v in rels[s]["args"] if r_ != "ARG0"):
                addarg(s, ivs[t])
    # what DMRS cannot express: unexpressed arguments, icons
    nx = [0]
    for k in range(len(rels)):
        if rng.random() < 0.25:
            nx[0] += 1
            addarg(k, [rng.choice(["i", "u", "x", "p", "h"]), 200 + nx[0]])
    icons = []
    if n >= 2 and rng.random() < 0.25:
        a, b = rng.sample(range(n), 2)
        icons.append([ivs[a], "topic", ivs[b]])
    # constants, properties, surface information
    for k in range(n):
        if rng.random() < 0.15:
            rels[k]["carg"] = rng.choice(["Kim", "Kim", "Lee"])
    variables = []
    same_props = rng.random() < 0.6
    for iv in ivs:
        if iv[0] == "e" and rng.random() < 0.7:
            variables.append([iv, [["TENSE", "past" if same_props else rng.choice(TENSES)]]])
        elif iv[0] == "x" and rng.random() < 0.6:
            variables.append([iv, [["PERS", "3"], ["NUM", "sg" if same_props else rng.choice(["sg", "pl"])]]])
    for e in rels:
        if rng.random() < 0.3:
            a = rng.randrange(0, 20)
            e["lnk"] = [a, a + rng.randrange(0, 6)]
        if rng.random() < 0.1:
            e["surface"] = rng.choice(["dogs", ""])
        if rng.random() < 0.1:
            e["base"] = "dog"
    index = ivs[0] if rng.random() < 0.85 else (rng.choice(ivs) if rng.random() < 0.7 else None)
    m = {"top": top, "index": index, "rels": rels, "hcons": hcons, "icons": icons, "vars": variables}
    if rng.random() < 0.7:
        rng.shuffle(m["rels"])
    if rng.random() < 0.3:
        rng.shuffle(m["hcons"])
    if rng.random() < 0.7:
        m = renumber(rng, m)
    return m


def map_vars(m, f):
    """apply f to every variable of an MRS JSON"""
    m = copy.deepcopy(m)
    m["top"] = f(m["top"]) if m["top"] is not None else None
    m["index"] = f(m["index"]) if m["index"] is not None else None
    for e in m["rels"]:
        e["label"] = f(e["label"])
        e["args"] = [[r, f(v)] for r, v in e["args"]]
    m["hcons"] = [[f(a), r, f(b)] for a, r, b in m["hcons"]]
    m["icons"] = [[f(a), r, f(b)] for a, r, b in m["icons"]]
    m["vars"] = [[f(v), ps] for v, ps in m["vars"]]
    return m


def all_vars(m):
    out = []

    def add(v):
        if v is not None and v not in out:
            out.append(v)
    add(m["top"])
    add(m["index"])
    for e in m["rels"]:
        add(e["label"])
        for _, v in e["args"]:
            add(v)
    for a, _, b in m["hcons"]:
        add(a)
        add(b)
    for a, _, b in m["icons"]:
        add(a)
        add(b)
    for v, _ in m["vars"]:
        add(v)
    return out


def renumber(rng, m):
    """an injective renaming of the variables (sorts kept; ids from a small or a wide range,
    so that ids of different sorts collide and the order of ids is unrelated to position)"""
    vs = all_vars(m)
    pool = list(range(0, len(vs) + 3)) if rng.random() < 0.6 else rng.sample(range(0, 100000), len(vs) + 3)
    rng.shuffle(pool)
    if rng.random() < 0.4:
        # ids unique per sort only: x3 and e3 and h3 may coexist
        by_sort = {}
        ren = {}
        for v in vs:
            k = by_sort.setdefault(v[0], list(pool))
            ren[canon(v)] = [v[0], k.pop()]
        # two quantified variables must not get the same number (EP ids q<N>)
    else:
        ren = {canon(v): [v[0], pool[i]] for i, v in enumerate(vs)}
    return map_vars(m, lambda v: ren[canon(v)])


LOOKALIKES = ["ARG0", "ARG1", "RSTR", "BODY", "CARG", "MOD", "EQ", "NEQ", "H", "HEQ", "0", "-1", "10000", "10001",
              "", "_", "_0", "q5", "\"x\"", "h0", "h1", "h2", "x1", "x2", "e1", "e2", "u1", "i1", "p1", "lheq", "qeq"]


def lookalike_pool(m):
    """texts that look like syntax: the MRS's own variable names (intrinsic variables, labels, holes,
    the top), names the VariableFactory of from_dmrs / DMRS.scopes hands out (h/x/e/u + small numbers),
    role / post / relation names, node-id-like numbers, the empty string"""
    own = ["%s%d" % (v[0], v[1]) for v in all_vars(m)]
    return own, LOOKALIKES


def decorate_lookalike(rng, m, p_carg=0.5):
    """constants (CARG), predicates and property values whose TEXT is a valid variable / role / post name.
    Arguments are classified by role, never by the shape of the value: nothing may change."""
    m = copy.deepcopy(m)
    own, other = lookalike_pool(m)

    def pick():
        return rng.choice(own) if own and rng.random() < 0.6 else rng.choice(other)
    for e in m["rels"]:
        if rng.random() < p_carg:
            e["carg"] = pick()
        if rng.random() < 0.15 and not any(r == "RSTR" for r, _ in e["args"]):
            e["pred"] = pick() or "_x_n_1"
    for i, (v, ps) in enumerate(m["vars"]):
        if rng.random() < 0.4:
            m["vars"][i] = [v, [[k, pick()] for k, _ in ps]]
    if rng.random() < 0.3:
        ivs = [a[1] for e in m["rels"] for a in e["args"] if a[0] == "ARG0"]
        have = [canon(v) for v, _ in m["vars"]]
        for iv in ivs:
            if canon(iv) not in have and rng.random() < 0.5:
                m["vars"].append([iv, [[rng.choice(["TENSE", "PERS", "x5", "ARG1"]), pick()]]])
                have.append(canon(iv))
    return m


def lookalike_block():
    """deterministic: on two base structures, every look-alike text as the CARG of every predication
    (one at a time), and the structures' own names as predicate and property value"""
    base = [c for c in curated_base() if c[0] in ("quantified", "coordination", "twins-nontop-first")]
    for name, m in base:
        own, other = lookalike_pool(m)
        for k in range(len(m["rels"])):
            for txt in own + other:
                mm = copy.deepcopy(m)
                mm["rels"][k]["carg"] = txt
                yield mm
        for txt in own + ["ARG1", "RSTR", "MOD", "h1", "x1", "e2"]:
            mm = copy.deepcopy(m)
            for e in mm["rels"]:
                if not any(r == "RSTR" for r, _ in e["args"]):
                    e["pred"] = txt
                    break
            mm["vars"] = [[v, [[k, txt] for k, _ in ps]] for v, ps in mm["vars"]]
            yield mm


def body_bases():
    """quantified structures for the resolved-BODY block"""
    h = lambda k: ["h", k]                      # noqa: E731
    x = lambda k: ["x", k]                      # noqa: E731
    e = lambda k: ["e", k]                      # noqa: E731

    def ep(pred, lbl, iv, *args, carg=None):
        d = _ep(pred, lbl, iv)
        d["args"] += [list(a) for a in args]
        d["carg"] = carg
        return d

    def M(rels, hcons, index=None, vars_=()):
        return {"top": h(0), "index": index, "rels": rels, "hcons": [list(c) for c in hcons],
                "icons": [], "vars": [list(v) for v in vars_]}
    T = [h(0), "qeq", h(1)]
    out = []
    # the dog barks
    out.append(("q1", M([ep("_the_q", h(4), x(3), ("RSTR", h(5)), ("BODY", h(6))), ep("_dog_n_1", h(7), x(3)),
                         ep("_bark_v_1", h(1), e(2), ("ARG1", x(3)))], [T, [h(5), "qeq", h(7)]], e(2),
                        vars_=[[x(3), [["PERS", "3"]]], [e(2), [["TENSE", "past"]]]])))
    # every dog chases the dog (two quantifiers, equal nouns)
    out.append(("q2", M([ep("_every_q", h(4), x(3), ("RSTR", h(5)), ("BODY", h(6))), ep("_dog_n_1", h(7), x(3)),
                         ep("_the_q", h(8), x(9), ("RSTR", h(10)), ("BODY", h(11))), ep("_dog_n_1", h(12), x(9)),
                         ep("_chase_v_1", h(1), e(2), ("ARG1", x(3)), ("ARG2", x(9)))],
                        [T, [h(5), "qeq", h(7)], [h(10), "qeq", h(12)]], e(2))))
    # the big Kim barks (restriction with a modifier), predications not in scope order
    out.append(("q1-mod", dict(curated_base())["quantified"]))
    # every dog doesn't bark: a scopal operator between top and verb
    out.append(("q1-neg", M([ep("neg", h(1), e(13), ("ARG1", h(14))),
                             ep("_every_q", h(4), x(3), ("RSTR", h(5)), ("BODY", h(6))), ep("_dog_n_1", h(7), x(3)),
                             ep("_bark_v_1", h(15), e(2), ("ARG1", x(3)))],
                            [T, [h(5), "qeq", h(7)], [h(14), "qeq", h(15)]], e(2))))
    # the dog barks and it snows: the verb's scope has two representatives tied by MOD/EQ
    out.append(("q1-two-reps", M([ep("_the_q", h(4), x(3), ("RSTR", h(5)), ("BODY", h(6))), ep("_dog_n_1", h(7), x(3)),
                                  ep("_snow_v_1", h(1), e(8)), ep("_bark_v_1", h(1), e(2), ("ARG1", x(3)))],
                                 [T, [h(5), "qeq", h(7)]], e(2), vars_=[[e(2), [["TENSE", "past"]]]])))
    # the dog barks, with two further members of the top scope that take each other (a group without a
    # representative: the input class of finding F08) — a resolved BODY must still make the round trip
    out.append(("q1-starved", M([ep("_the_q", h(4), x(3), ("RSTR", h(5)), ("BODY", h(6))), ep("_dog_n_1", h(7), x(3)),
                                 ep("_bark_v_1", h(1), e(2), ("ARG1", x(3))),
                                 ep("_big_a_1", h(1), e(8), ("ARG1", e(9))), ep("_big_a_1", h(1), e(9), ("ARG1", e(8)))],
                                [T, [h(5), "qeq", h(7)]], e(2))))
    return out


def resolved_body_block(rng):
    """deterministic: on four quantified structures, every quantifier's BODY resolved to every other label
    (the restriction, the other quantifier, the verb's scope, a scopal operator) as a direct label
    (label-scopal, BODY/HEQ) and through a qeq constraint (qeq-scopal, BODY/H); for the two-quantifier
    structure every combination of the two bodies (open / label / qeq x target), which includes both fully
    scoped readings; each also renumbered and with the predications shuffled."""
    for name, m in body_bases():
        labels = []
        for e_ in m["rels"]:
            if e_["label"] not in labels:
                labels.append(e_["label"])
        qpos = [i for i, e_ in enumerate(m["rels"]) if any(r == "RSTR" for r, _ in e_["args"])]
        options = []
        for i in qpos:
            o = [None]
            for tgt in labels:
                if tgt != m["rels"][i]["label"]:
                    o += [("heq", tgt), ("h", tgt)]
            options.append(o)
        for combo in itertools.product(*options):
            if all(c is None for c in combo):
                continue
            mm = copy.deepcopy(m)
            for i, c in zip(qpos, combo):
                if c is None:
                    continue
                for a in mm["rels"][i]["args"]:
                    if a[0] == "BODY":
                        if c[0] == "heq":
                            a[1] = c[1]
                        else:
                            mm["hcons"].append([a[1], "qeq", c[1]])
            yield mm
            m2 = renumber(rng, mm)
            rng.shuffle(m2["rels"])
            yield m2


def offspace_block():
    """deterministic, OUTSIDE the property's space but inside the anchored code (every case is compared
    with the model; totality, link justification and node shape are still judged): predications without
    ARG0 (from_mrs warns, gives type u and no properties; EP id `_0`), intrinsic variables of sorts other
    than x/e/i/p/u — one letter (y, h) and several letters that are / are not substrings of 'xeipu'
    (xe, ip, ex: `node.type not in types` in DMRS.arguments is a substring test) — as targets of EQ and NEQ
    links, and individual constraints naming variables that occur nowhere else."""
    h = lambda k: ["h", k]                      # noqa: E731
    T = [h(0), "qeq", h(1)]

    def M(rels, hcons, index=None, icons=()):
        return {"top": h(0), "index": index, "rels": rels, "hcons": [list(c) for c in hcons],
                "icons": [list(c) for c in icons], "vars": []}

    def ep(pred, lbl, *args):
        return {"pred": pred, "label": lbl, "args": [list(a) for a in args], "carg": None,
                "lnk": None, "surface": None, "base": None}
    # no ARG0
    yield M([ep("_rain_v_1", h(1))], [T])
    yield M([ep("_rain_v_1", h(1), ("ARG1", ["x", 3])), ep("_dog_n_1", h(1), ("ARG0", ["x", 3]))], [T], ["x", 3])
    yield M([ep("_dog_n_1", h(1), ("ARG0", ["x", 3])), ep("_rain_v_1", h(2), ("ARG1", ["x", 3]))], [T], ["x", 3])
    yield M([ep("neg", h(1), ("ARG0", ["e", 2]), ("ARG1", h(3))), ep("_rain_v_1", h(4))], [T, [h(3), "qeq", h(4)]], ["e", 2])
    yield M([ep("_the_q", h(4), ("RSTR", h(5)), ("BODY", h(6))), ep("_dog_n_1", h(7), ("ARG0", ["x", 3])),
             ep("_bark_v_1", h(1), ("ARG0", ["e", 2]), ("ARG1", ["x", 3]))], [T, [h(5), "qeq", h(7)]], ["e", 2])
    # odd sorts as link targets (same scope: EQ; other scope: NEQ), and as the only predication
    for sort in ("y", "h", "xe", "ip", "ex", "eip", "pu", "xeipu", "u", "p", "i"):
        iv = [sort, 3]
        yield M([ep("_dog_n_1", h(1), ("ARG0", iv))], [T], iv)
        yield M([ep("_dog_n_1", h(1), ("ARG0", iv)), ep("_big_a_1", h(1), ("ARG0", ["e", 2]), ("ARG1", iv))], [T], ["e", 2])
        yield M([ep("_bark_v_1", h(1), ("ARG0", ["e", 2]), ("ARG1", iv)), ep("_dog_n_1", h(7), ("ARG0", iv)),
                 ep("_the_q", h(4), ("ARG0", iv), ("RSTR", h(5)), ("BODY", h(6)))], [T, [h(5), "qeq", h(7)]], ["e", 2])
    # individual constraints whose variables occur nowhere else
    yield M([ep("_rain_v_1", h(1), ("ARG0", ["e", 2]))], [T], ["e", 2], icons=[[["e", 2], "topic", ["x", 77]]])
    yield M([ep("_rain_v_1", h(1), ("ARG0", ["e", 2]))], [T], ["e", 2], icons=[[["x", 78], "focus", ["x", 77]]])


def chain_mrs(n, bodies="open"):
    """n quantified nouns in a chain: verb(x1), noun_k sharing its label with a preposition that takes
    x_k and x_(k+1), each noun quantified (RSTR qeq the noun's label).  3n nodes, 2n+1 scopes.
    bodies: open / heq / h (the quantifiers form the chain q1 > q2 > ... > qn > verb) / mix.
    Variables are numbered 1.. in order of first use; renumber with `chain_numberings`."""
    c = itertools.count(1)
    nv = lambda sort: [sort, next(c)]           # noqa: E731
    top, lv, ev = ["h", 0], nv("h"), nv("e")
    xs = [nv("x") for _ in range(n)]
    rels = [{"pred": "_bark_v_1", "label": lv, "args": [["ARG0", ev], ["ARG1", xs[0]]]}]
    hcons = [[top, "qeq", lv]]
    nl = [nv("h") for _ in range(n)]
    ql = [nv("h") for _ in range(n)]
    for k in range(n):
        rels.append({"pred": "_dog_n_1", "label": nl[k], "args": [["ARG0", xs[k]]]})
        if k + 1 < n:
            rels.append({"pred": "_of_p", "label": nl[k], "args": [["ARG0", nv("e")], ["ARG1", xs[k]], ["ARG2", xs[k + 1]]]})
        hole, body = nv("h"), nv("h")
        hcons.append([hole, "qeq", nl[k]])
        kind = {"mix": ("open", "heq", "h")[k % 3]}.get(bodies, bodies)
        tgt = ql[k + 1] if k + 1 < n else lv
        if kind == "heq":
            body = tgt
        elif kind == "h":
            hcons.append([body, "qeq", tgt])
        rels.append({"pred": ("_the_q", "_every_q")[k % 2], "label": ql[k],
                     "args": [["ARG0", xs[k]], ["RSTR", hole], ["BODY", body]]})
    for e_ in rels:
        e_.update(carg=None, lnk=None, surface=None, base=None)
    return {"top": top, "index": ev, "rels": rels, "hcons": hcons, "icons": [], "vars": [[xs[0], [["PERS", "3"]]]]}


def chain_numberings(m):
    """(name, renumbered copy): the numbers from_dmrs / DMRS.scopes hand out are 0,1,2,... in allocation
    order; the source uses numbers that cross 9->10 and 99->100 (digit counts differ, so lexicographic and
    numeric order differ), do not start at 1, leave big gaps, run downwards, or repeat across sorts."""
    vs = all_vars(m)

    def ren(f, per_sort=False):
        if per_sort:
            cnt = {}
            tab = {}
            for v in vs:
                cnt[v[0]] = cnt.get(v[0], 0) + 1
                tab[canon(v)] = [v[0], f(cnt[v[0]] - 1)]
        else:
            tab = {canon(v): [v[0], f(i)] for i, v in enumerate(vs)}
        return map_vars(m, lambda v: tab[canon(v)])
    n = len(vs)
    yield "from-0", m
    yield "from-7", ren(lambda i: i + 7)
    yield "from-95", ren(lambda i: i + 95)
    yield "from-995", ren(lambda i: i + 995)
    yield "downwards", ren(lambda i: n + 3 - i)
    yield "sparse", ren(lambda i: (i * i * 37 + 5) if i % 3 else 10 ** (1 + i % 7) + i)
    yield "even", ren(lambda i: 2 * i)
    yield "per-sort-from-1", ren(lambda i: i + 1, per_sort=True)
    yield "per-sort-from-9", ren(lambda i: i + 9, per_sort=True)
    yield "labels-high", ren(lambda i: i + (1000 if vs[i][0] == "h" else 0))
    yield "labels-low-others-high", ren(lambda i: i if vs[i][0] == "h" else i + 500)


def large_block(rng):
    """deterministic LARGE structures: chains of 10, 12 and 14 quantified nouns (30-42 nodes, 21-29 scopes:
    DMRS.scopes labels h1..h42, so label numbers of one, two digits) under eleven numberings and four BODY
    regimes; the predications in source order and once shuffled."""
    for n in (10, 12, 14):
        for bodies in ("open", "heq", "h", "mix"):
            if n != 12 and bodies in ("heq", "h"):
                continue
            base = chain_mrs(n, bodies)
            for name, m in chain_numberings(base):
                if (n == 14 or bodies in ("heq", "h")) and name not in ("from-0", "from-95", "sparse",
                                                                          "per-sort-from-9", "downwards"):
                    continue
                yield m
            m = copy.deepcopy(base)
            rng.shuffle(m["rels"])
            yield renumber(rng, m)


def body_kinds(mj):
    """per quantifier of an MRS JSON: 'open' / 'heq' (BODY is directly a label) / 'h' (BODY is a hole with a
    handle constraint onto a label) / 'dangling' / 'none'"""
    labels = [e["label"] for e in mj["rels"]]
    los = {canon(a): b for a, _, b in mj["hcons"]}
    his = {canon(a) for a, _, b in mj["hcons"]}
    out = []
    for e in mj["rels"]:
        if any(r == "RSTR" for r, _ in e["args"]):
            b = [v for r, v in e["args"] if r == "BODY"]
            if not b:
                out.append("none")
            elif canon(b[0]) in his:
                out.append("h" if los[canon(b[0])] in labels else "dangling")
            elif b[0] in labels:
                out.append("heq")
            else:
                out.append("open")
    return out


def curated_base():
    """named structures used by the deterministic blocks"""
    h = lambda k: ["h", k]                      # noqa: E731
    x = lambda k: ["x", k]                      # noqa: E731
    e = lambda k: ["e", k]                      # noqa: E731

    def ep(pred, lbl, iv, *args, carg=None):
        d = _ep(pred, lbl, iv)
        d["args"] += [list(a) for a in args]
        d["carg"] = carg
        return d

    def M(rels, hcons, index=None, vars_=(), top=h(0)):
        return {"top": top, "index": index, "rels": rels, "hcons": [list(c) for c in hcons],
                "icons": [], "vars": [list(v) for v in vars_]}
    T = [h(0), "qeq", h(1)]
    out = []
    out.append(("quantified", M(
        [ep("_the_q", h(4), x(3), ("RSTR", h(5)), ("BODY", h(6))), ep("_big_a_1", h(7), e(8), ("ARG1", x(3))),
         ep("named", h(7), x(3), carg="Kim"), ep("_bark_v_1", h(1), e(2), ("ARG1", x(3)), ("ARG2", ["i", 9]))],
        [T, [h(5), "qeq", h(7)]], e(2), vars_=[[x(3), [["PERS", "3"]]], [e(2), [["TENSE", "past"]]]])))
    # ERG-style coordination: _and_c with L-INDEX/R-INDEX and L-HNDL/R-HNDL, sharing its label with a modifier
    out.append(("coordination", M(
        [ep("_and_c", h(1), e(2), ("L-INDEX", e(4)), ("R-INDEX", e(6)), ("L-HNDL", h(3)), ("R-HNDL", h(5))),
         ep("_again_a_1", h(1), e(8), ("ARG1", e(2))),
         ep("_bark_v_1", h(7), e(4), ("ARG1", ["i", 10])), ep("_run_v_1", h(9), e(6), ("ARG1", ["i", 10]))],
        [T, [h(3), "qeq", h(7)], [h(5), "qeq", h(9)]], e(2), vars_=[[e(4), [["TENSE", "past"]]], [e(6), [["TENSE", "past"]]]])))
    # the same with the handles given directly as labels (no handle constraints)
    out.append(("coordination-heq", M(
        [ep("_and_c", h(1), e(2), ("L-INDEX", e(4)), ("R-INDEX", e(6)), ("L-HNDL", h(7)), ("R-HNDL", h(9))),
         ep("_again_a_1", h(1), e(8), ("ARG1", e(2))),
         ep("_bark_v_1", h(7), e(4)), ep("_bark_v_1", h(9), e(6))],
        [T], e(2))))
    # predications equal in predicate/type/properties/carg in different scopes, the non-top copy first
    out.append(("twins-nontop-first", M(
        [ep("neg", h(4), e(2)), ep("neg", h(1), e(5), ("ARG1", h(3)))], [T, [h(3), "qeq", h(4)]], e(5))))
    out.append(("twins-nontop-first-carg", M(
        [ep("named", h(4), x(2), carg="Kim"), ep("_and_c", h(1), x(6), ("L-INDEX", x(2)), ("R-INDEX", x(5))),
         ep("named", h(1), x(5), carg="Kim")], [T], x(6), vars_=[[x(2), [["PERS", "3"]]], [x(5), [["PERS", "3"]]]])))
    return out


def curated():
    """the deterministic small space: every attachment kind on 1-3 predications"""
    h = lambda k: ["h", k]                      # noqa: E731
    x = lambda k: ["x", k]                      # noqa: E731
    e = lambda k: ["e", k]                      # noqa: E731

    def ep(pred, lbl, iv, *args, carg=None):
        d = _ep(pred, lbl, iv)
        d["args"] += [list(a) for a in args]
        d["carg"] = carg
        return d

    def M(rels, hcons, index=None, vars_=(), top=h(0), icons=()):
        return {"top": top, "index": index, "rels": rels, "hcons": [list(c) for c in hcons],
                "icons": [list(c) for c in icons], "vars": [list(v) for v in vars_]}
    T = [h(0), "qeq", h(1)]
    out = []
    out.append(M([ep("_rain_v_1", h(1), e(2))], [T], e(2)))
    out.append(M([ep("_rain_v_1", h(1), e(2))], [T], None))
    out.append(M([], [], None, top=None))
    # modifier sharing the label
    out.append(M([ep("_dog_n_1", h(1), x(3)), ep("_big_a_1", h(1), e(2), ("ARG1", x(3)))], [T], e(2)))
    out.append(M([ep("_big_a_1", h(1), e(2), ("ARG1", x(3))), ep("_dog_n_1", h(1), x(3))], [T], x(3)))
    # two predications sharing a label without arguments; equal predicate and properties
    out.append(M([ep("_dog_n_1", h(1), x(3)), ep("_dog_n_1", h(1), x(4))], [T], x(4)))
    out.append(M([ep("_bark_v_1", h(1), e(3)), ep("_bark_v_1", h(1), e(4))], [T], e(4),
                 vars_=[[e(4), [["TENSE", "past"]]]]))
    out.append(M([ep("_bark_v_1", h(1), e(3)), ep("_bark_v_1", h(1), e(4)), ep("_bark_v_1", h(1), e(5))], [T], e(5),
                 vars_=[[e(3), [["TENSE", "untensed"]]], [e(4), [["TENSE", "past"]]]]))
    # quantifier
    out.append(M([ep("_the_q", h(4), x(3), ("RSTR", h(5)), ("BODY", h(6))), ep("_dog_n_1", h(7), x(3)),
                  ep("_bark_v_1", h(1), e(2), ("ARG1", x(3)))], [T, [h(5), "qeq", h(7)]], e(2),
                 vars_=[[x(3), [["PERS", "3"]]], [e(2), [["TENSE", "past"]]]]))
    # two equal nouns, two equal quantifiers
    out.append(M([ep("_the_q", h(4), x(3), ("RSTR", h(5)), ("BODY", h(6))), ep("_dog_n_1", h(7), x(3)),
                  ep("_the_q", h(8), x(9), ("RSTR", h(10)), ("BODY", h(11))), ep("_dog_n_1", h(12), x(9)),
                  ep("_bark_v_1", h(1), e(2), ("ARG1", x(3)), ("ARG2", x(9)))],
                 [T, [h(5), "qeq", h(7)], [h(10), "qeq", h(12)]], e(2)))
    # qeq-scopal and label-scopal argument
    out.append(M([ep("neg", h(1), e(2), ("ARG1", h(3))), ep("_rain_v_1", h(4), e(5))], [T, [h(3), "qeq", h(4)]], e(5)))
    out.append(M([ep("neg", h(1), e(2), ("ARG1", h(4))), ep("_rain_v_1", h(4), e(5))], [T], e(5)))
    # the same, equal predicates
    out.append(M([ep("neg", h(1), e(2), ("ARG1", h(3))), ep("neg", h(4), e(5))], [T, [h(3), "qeq", h(4)]], e(2)))
    # constants, unexpressed arguments, icons
    out.append(M([ep("named", h(1), x(3), carg="Kim"), ep("_bark_v_1", h(1), e(2), ("ARG1", x(3)), ("ARG2", ["i", 9]))],
                 [T], e(2), icons=[[e(2), "topic", x(3)]]))
    out.append(M([ep("_bark_v_1", h(1), e(2), ("ARG1", ["u", 8]), ("ARG2", ["h", 9]))], [T], e(2)))
    # index that is not an intrinsic variable; index bound by a quantifier only
    out.append(M([ep("_rain_v_1", h(1), e(2))], [T], e(7)))
    # scopal argument whose scope has two representatives
    out.append(M([ep("neg", h(1), e(2), ("ARG1", h(3))), ep("_rain_v_1", h(4), e(5)), ep("_snow_v_1", h(4), e(6))],
                 [T, [h(3), "qeq", h(4)]], e(5)))
    # top scope with two members, top selects the later one by priority (x before e)
    out.append(M([ep("_bark_v_1", h(1), e(2)), ep("_dog_n_1", h(1), x(3))], [T], e(2)))
    return out


# ------------------------------------------------------------------ naive helpers (oracle side)

def out_args(ep):
    return [(r, v) for r, v in ep.args.items() if r not in ("ARG0", "CARG")]


def blocking(m):
    """position -> by the DEFINITION the predication takes another member of its scope, or a
    scopal descendant of another member, as a non-scopal argument (independent of scope.py)"""
    eps = list(m.rels)
    labels = []
    for ep in eps:
        if ep.label not in labels:
            labels.append(ep.label)
    members = {l: [i for i, ep in enumerate(eps) if ep.label == l] for l in labels}
    last = {}
    for hc in m.hcons:
        last[hc.hi] = hc
    succ = {}
    for i, ep in enumerate(eps):
        o = []
        for _, v in out_args(ep):
            if v in members:
                o += members[v]
            elif v in last:
                o += members.get(last[v].lo, [])
        succ[i] = o

    def reach(s):
        seen, todo = [], list(succ[s])
        while todo:
            y = todo.pop()
            if y not in seen:
                seen.append(y)
                todo += succ[y]
        return seen
    blk = {}
    for l in labels:
        for i in members[l]:
            args = {v for _, v in out_args(eps[i]) if variable.type(v) in "xeipu"}
            blk[i] = any(eps[j].id in args or any(eps[k].id in args for k in reach(j))
                         for j in members[l] if j != i)
    return blk, members


def def_rank(m, ep):
    """the documented priority of representatives (quantifier / x, tensed e, untensed e, rest)"""
    if "RSTR" in ep.args or ep.type == "x":
        return 0
    if ep.type == "e":
        t = dict(m.variables.get(ep.iv) or {}).get("TENSE", "").lower()
        return 2 if t in ("", "untensed") else 1
    return 3


def scope_analysis(m):
    """By the DEFINITIONS only (nothing from scope.py): per scope label its members, its
    representatives in priority order (unblocked members; the single member of a singleton), and
    the groups of members that DMRS links can hold together: two members are joined when one takes
    the other's intrinsic variable as an argument (an EQ link), and all representatives are joined
    (MOD/EQ links).  `starved` = groups (of a scope with >= 2 members) without a representative."""
    eps = list(m.rels)
    blk, members = blocking(m)
    out = {}
    for l, mem in members.items():
        reps = list(mem) if len(mem) == 1 else [i for i in mem if not blk[i]]
        reps.sort(key=lambda i: (def_rank(m, eps[i]), i))
        parent = {i: i for i in mem}

        def find(a):
            while parent[a] != a:
                a = parent[a]
            return a
        for a in mem:
            for _, v in out_args(eps[a]):
                for b in mem:
                    if b != a and "RSTR" not in eps[b].args and eps[b].args.get("ARG0") == v:
                        parent[find(a)] = find(b)
        for r in reps[1:]:
            parent[find(r)] = find(reps[0])
        groups = {}
        for i in mem:
            groups.setdefault(find(i), []).append(i)
        starved = [g for g in groups.values() if not any(i in reps for i in g)]
        out[l] = {"members": mem, "reps": reps, "starved": starved}
    return out


def starved_scopes(m):
    """labels of scopes some group of whose members has no representative (input class of F08)"""
    return [l for l, a in scope_analysis(m).items() if a["starved"]]


def empty_scopes(m):
    """labels of scopes with no representative at all"""
    return [l for l, a in scope_analysis(m).items() if not a["reps"]]


def in_space(mj, m):
    """is the MRS in the property's input space?  (connected, scope-plausible, IV property —
    i.e. is_well_formed — with qeq constraints only, one constraint per hole, handles without
    properties, x/e/i/p/u intrinsic variables, every quantifier with RSTR and BODY, the bound
    variable of a quantifier being the intrinsic variable of the first representative of its
    restriction)"""
    if not mops.is_well_formed(m):
        return "not-well-formed"
    if any(hc.relation != "qeq" for hc in m.hcons):
        return "non-qeq-hcons"
    his = [hc.hi for hc in m.hcons]
    if len(set(his)) != len(his):
        return "duplicate-hi"
    # the identifiers EP.__init__ assigns (before _uniquify_ids renames repeated ones) are pairwise
    # distinct: this is the hypothesis `BaseIdsDistinct` of the theorems
    base = [("q" + variable.split(ep.iv)[1] if ep.is_quantifier() else ep.iv) if ep.iv else "_0" for ep in m.rels]
    if len(set(base)) != len(base):
        return "duplicate-base-ids"
    for ep in m.rels:
        if ep.iv is None or variable.type(ep.iv) not in ("x", "e", "i", "p", "u"):
            return "odd-sort"
        if ep.is_quantifier() and "BODY" not in ep.args:
            return "quantifier-without-body"
        if variable.type(ep.label) != "h":
            return "odd-sort"
    for v, ps in m.variables.items():
        if ps and variable.type(v) == "h":
            return "handle-with-properties"
    if any(hc.hi in {ep.label for ep in m.rels} for hc in m.hcons):
        return "constrained-handle-is-a-label"
    # quantifiers: DMRS knows the bound variable of a quantifier only as "the predication its RSTR link
    # points to", i.e. the first representative of the restriction
    an = scope_analysis(m)
    lo = {hc.hi: hc.lo for hc in m.hcons}
    bound = []
    for ep in m.rels:
        if ep.is_quantifier():
            r = ep.args["RSTR"]
            l = lo.get(r, r)
            if l not in an:
                return "quantifier-restriction-selects-no-scope"
            if an[l]["reps"]:
                head = m.rels[an[l]["reps"][0]]
                if head.is_quantifier() or head.iv != ep.iv:
                    return "quantifier-does-not-bind-head-of-restriction"
            if ep.iv in bound:
                return "variable-bound-twice"
            bound.append(ep.iv)
    return None


def strip(m):
    """the source with what DMRS cannot express removed: arguments that are not the intrinsic
    variable of a (non-quantifier) predication and do not select a scope, individual
    constraints, an index that is no intrinsic variable, unused constraints and variables.
    A quantifier keeps its BODY role (an unconstrained hole)."""
    ivs = {ep.iv for ep in m.rels if not ep.is_quantifier()}
    labels = {ep.label for ep in m.rels}
    hcm = {}
    for hc in m.hcons:
        hcm[hc.hi] = hc
    used = []
    rels = []
    fresh = itertools.count(900000)
    for ep in m.rels:
        args = {}
        for r, v in ep.args.items():
            if r in ("ARG0", "CARG"):
                args[r] = v
            elif v in ivs:
                args[r] = v
            elif v in hcm and hcm[v].lo in labels:
                args[r] = v
                used.append(hcm[v])
            elif v in hcm:
                pass
            elif v in labels:
                args[r] = v
            elif r == "BODY" and ep.is_quantifier():
                args[r] = "h%d" % next(fresh)
        rels.append(mrs.EP(ep.predicate, ep.label, args))
    hcons = []
    top = None
    if m.top is not None and m.top in hcm and hcm[m.top].lo in labels:
        top = m.top
        hcons.append(hcm[m.top])
    hcons += [hc for hc in used]
    index = m.index if m.index in ivs else None
    keep = {}
    for ep in rels:
        keep[ep.label] = {}
        for r, v in ep.args.items():
            if r != "CARG":
                keep[v] = dict(m.variables.get(v, {}))
    return mrs.MRS(top=top, index=index, rels=rels, hcons=list(dict.fromkeys(hcons)), icons=[], variables=keep)


def f08_expected(m):
    """What finding F08 predicts for the MRS that comes back, by the DEFINITIONS (scope_analysis) only:
    the stripped source in which (a) every group of scope members without a representative has a label of
    its own (no link ties it to the rest of its scope), (b) every argument selecting a scope that has no
    representative at all is gone — a quantifier's BODY is then an open hole again, and a quantifier whose
    RSTR is gone is no quantifier any more (fresh intrinsic variable of sort u, no BODY unless resolved).
    A failure of the isomorphism clause is the KNOWN finding only if the returned MRS is isomorphic to this."""
    an = scope_analysis(m)
    eps = list(m.rels)
    lo = {}
    for hc in m.hcons:
        lo[hc.hi] = hc.lo
    empty = {l for l, a in an.items() if not a["reps"]}
    fresh = itertools.count(800000)
    relabel = {}
    for a in an.values():
        for g in a["starved"]:
            lbl = "h%d" % next(fresh)
            for i in g:
                relabel[i] = lbl
    rels = []
    variables = {v: dict(ps) for v, ps in m.variables.items()}
    for i, ep in enumerate(eps):
        args = {}
        lost_rstr = ep.is_quantifier() and lo.get(ep.args["RSTR"], ep.args["RSTR"]) in empty
        for r, v in ep.args.items():
            if r in ("ARG0", "CARG"):
                args[r] = v
            elif lo.get(v, v) in empty and variable.type(v) == "h" and v not in {e.iv for e in eps}:
                if r == "BODY" and ep.is_quantifier() and not lost_rstr:
                    args[r] = "h%d" % next(fresh)
            else:
                args[r] = v
        if lost_rstr:
            args["ARG0"] = "u%d" % next(fresh)
            variables[args["ARG0"]] = {}
        rels.append(mrs.EP(ep.predicate, relabel.get(i, ep.label), args))
    return strip(mrs.MRS(top=m.top, index=m.index, rels=rels, hcons=list(m.hcons), icons=[], variables=variables))


def f08_explains_iso(m, m2):
    """is the returned MRS exactly what F08 predicts (and the input in the class of F08)?"""
    if not starved_scopes(m):
        return False
    exp = f08_expected(m)
    b = brute_iso(exp, m2) if len(m.rels) <= 9 else None
    if b is None:
        b = bool(mops.is_isomorphic(exp, m2))
    return b


def props_of(m, v):
    ps = m.variables.get(v)
    return sorted((k.upper(), str(val).lower()) for k, val in dict(ps).items()) if ps else []


def brute_iso(a, b, budget=200000):
    """Independent isomorphism test: search a bijection of predications and a sort- and
    property-preserving bijection of variables mapping labels, arguments (same roles),
    constants, handle constraints, top and index of `a` onto those of `b`.
    Returns True / False / None (budget exhausted)."""
    ea, eb = list(a.rels), list(b.rels)
    if len(ea) != len(eb) or len(a.hcons) != len(b.hcons) or len(a.icons) != len(b.icons):
        return False
    if len(a.variables) != len(b.variables):
        return False

    def sig(m, ep):
        return (ep.predicate, ep.carg, tuple(sorted(r for r in ep.args if r != "CARG")),
                tuple(props_of(m, ep.iv)))
    sa = [sig(a, e) for e in ea]
    sb = [sig(b, e) for e in eb]
    if sorted(map(repr, sa)) != sorted(map(repr, sb)):
        return False
    steps = [0]

    def bind(fw, bw, u, v):
        if (u is None) != (v is None):
            return False
        if u is None:
            return True
        if variable.type(u) != variable.type(v) or props_of(a, u) != props_of(b, v):
            return False
        if fw.get(u, v) != v or bw.get(v, u) != u:
            return False
        fw[u] = v
        bw[v] = u
        return True

    def finish(fw, bw):
        fw, bw = dict(fw), dict(bw)
        if not bind(fw, bw, a.top, b.top) or not bind(fw, bw, a.index, b.index):
            return False
        hb = [(hc.hi, hc.relation, hc.lo) for hc in b.hcons]
        for hc in a.hcons:
            if hc.hi not in fw or hc.lo not in fw:
                return False
            t = (fw[hc.hi], hc.relation, fw[hc.lo])
            if t not in hb:
                return False
            hb.remove(t)
        return set(fw) == set(a.variables) and set(bw) == set(b.variables)

    def go(i, usedb, fw, bw):
        steps[0] += 1
        if steps[0] > budget:
            raise TimeoutError
        if i == len(ea):
            return finish(fw, bw)
        for j in range(len(eb)):
            if j in usedb or sa[i] != sb[j]:
                continue
            f2, b2 = dict(fw), dict(bw)
            ok = bind(f2, b2, ea[i].label, eb[j].label)
            for r, v in ea[i].args.items():
                if not ok:
                    break
                if r != "CARG":
                    ok = bind(f2, b2, v, eb[j].args[r])
            if ok and go(i + 1, usedb | {j}, f2, b2):
                return True
        return False
    try:
        return go(0, frozenset(), {}, {})
    except TimeoutError:
        return None


def positional_failures(m, d1, m2):
    """Position by position (from_dmrs keeps the order of the predications), argument by argument, by the
    DEFINITIONS only: the link inventory of the DMRS is complete (every argument DMRS can express has
    exactly one link with that role from its predication, to the owner of the intrinsic variable with EQ/NEQ
    by label identity, or to a member of the selected scope with H for a handle constraint and HEQ for a
    direct label — BODY/H and BODY/HEQ of resolved quantifier bodies included), and the argument comes back
    in the returned MRS with the same kind (intrinsic variable of the same predication / direct label of the
    same scope / hole with a qeq onto the same scope / the open BODY hole of a quantifier / absent).
    Label sharing is compared too.  Everything here is judged only where finding F08 has no effect:
    arguments selecting a scope with a representative, label sharing inside the group of a scope that holds
    its representatives — so these clauses are NEVER classified as known."""
    fails = []
    eps, e2 = list(m.rels), list(m2.rels)
    an = scope_analysis(m)
    lo = {hc.hi: hc.lo for hc in m.hcons}
    lo2 = {}
    for hc in m2.hcons:
        lo2.setdefault(hc.hi, []).append(hc.lo)
    labels2 = {ep.label for ep in e2}
    ivpos = {ep.iv: i for i, ep in enumerate(eps) if not ep.is_quantifier()}
    uses2 = {}
    for ep in e2:
        for r, v in ep.args.items():
            if r not in ("ARG0", "CARG"):
                uses2[v] = uses2.get(v, 0) + 1
    if m2.top is not None:
        uses2[m2.top] = uses2.get(m2.top, 0) + 1
    links = {}
    for l in d1.links:
        links.setdefault((l.start, l.role), []).append((l.end, l.post))

    def selected(v):
        """(kind, label, members) of the scope an argument value selects, or None"""
        if v in lo:
            return ("qeq", lo[v], an.get(lo[v], {}).get("members"))
        if v in an:
            return ("lheq", v, an[v]["members"])
        return None

    def linked_quantifier(ep):
        if not ep.is_quantifier():
            return False
        s_ = selected(ep.args["RSTR"])
        return bool(s_ and s_[2] and an[s_[1]]["reps"])
    for i, ep in enumerate(eps):
        nid = 10000 + i
        for r, v in out_args(ep):
            w = e2[i].args.get(r)
            got = links.get((nid, r), [])
            where = {"position": i, "role": r, "value": V(v)}
            if v in ivpos:
                j = ivpos[v]
                post = "EQ" if eps[j].label == ep.label else "NEQ"
                if got != [(10000 + j, post)]:
                    fails.append({"clause": "link inventory: a non-scopal argument does not have exactly its one link",
                                  "detail": dict(where, want=[10000 + j, post], got=got)})
                if w is None or w != e2[j].iv or e2[j].is_quantifier():
                    fails.append({"clause": "round trip: a non-scopal argument does not come back as the intrinsic "
                                            "variable of the same predication", "detail": where})
                continue
            sel = selected(v)
            if sel and sel[2] and an[sel[1]]["reps"]:
                kind, _, mem = sel
                post = "H" if kind == "qeq" else "HEQ"
                if len(got) != 1 or got[0][1] != post or got[0][0] - 10000 not in mem:
                    fails.append({"clause": "link inventory: a scopal argument (%s/%s) does not have exactly its one "
                                            "link into the selected scope" % ("BODY" if r == "BODY" else
                                                                              "RSTR" if r == "RSTR" else "ARG", post),
                                  "detail": dict(where, want_post=post, want_end_in=[10000 + k for k in mem], got=got)})
                mem_labels = {e2[k].label for k in mem}
                if kind == "lheq":
                    ok = w is not None and w not in lo2 and w in mem_labels
                else:
                    ok = w is not None and w not in labels2 and len(lo2.get(w, [])) == 1 \
                        and lo2[w][0] in mem_labels and uses2.get(w) == 1
                if not ok:
                    fails.append({"clause": "round trip: a scopal argument (%s, %s) does not come back selecting the "
                                            "same scope in the same way" % ("BODY" if r == "BODY" else
                                                                            "RSTR" if r == "RSTR" else "ARG",
                                                                            "direct label" if kind == "lheq" else "qeq"),
                                  "detail": dict(where, back=w, hcons_back=lo2.get(w))})
                continue
            if got:
                fails.append({"clause": "link inventory: an argument DMRS cannot express has a link",
                              "detail": dict(where, got=got)})
            if r == "BODY" and ep.is_quantifier():
                if linked_quantifier(ep) and (w is None or w in lo2 or w in labels2 or uses2.get(w) != 1
                                              or variable.type(w) != "h"):
                    fails.append({"clause": "round trip: an open quantifier BODY does not come back as a fresh "
                                            "unconstrained hole", "detail": dict(where, back=w)})
            elif r == "RSTR" and ep.is_quantifier():
                pass            # restriction without a representative: finding F08 (the node is no quantifier)
            elif w is not None:
                fails.append({"clause": "round trip: an argument DMRS cannot express comes back", "detail": where})
        extra = sorted(set(e2[i].args) - set(ep.args) - ({"BODY"} if ep.is_quantifier() else set()))
        if extra:
            fails.append({"clause": "round trip: a predication comes back with a role it did not have",
                          "detail": {"position": i, "roles": extra}})
    # label sharing
    starved = {i for a in an.values() for g in a["starved"] for i in g}
    for i in range(len(eps)):
        for j in range(i + 1, len(eps)):
            same = eps[i].label == eps[j].label
            if same and (i in starved or j in starved):
                continue
            if same != (e2[i].label == e2[j].label):
                fails.append({"clause": "round trip: label sharing between two predications is not preserved",
                              "detail": {"positions": [i, j], "shared_in_source": same}})
    return fails


def freshness_failures(d1, m2):
    """The way back allocates names: one label per scope of the DMRS (EQ-connected component), one intrinsic
    variable per non-quantifier node, one hole per H link and for the top, one open BODY hole per quantifier
    without a BODY link.  By COUNTING only (no isomorphism, no comparison with the source, so a harmless
    renumbering passes and a collision does not): these things must carry pairwise different names — no
    handle is both a hole and a scope label, no two scopes / nodes / holes share a name — every hole is
    used exactly once and constrained exactly once, every low end of a constraint is a label, and the
    variable store lists exactly the names in use.  Judged on EVERY case whose way back returns."""
    fails = []
    nodes = list(d1.nodes)
    e2 = list(m2.rels)
    if len(nodes) != len(e2):
        return fails
    pos = {n.id: i for i, n in enumerate(nodes)}
    if len(pos) != len(nodes) or any(l.start not in pos or l.end not in pos for l in d1.links):
        return fails
    parent = list(range(len(nodes)))

    def find(a):
        while parent[a] != a:
            a = parent[a]
        return a
    for l in d1.links:
        if l.post == "EQ":
            parent[find(pos[l.start])] = find(pos[l.end])
    quant = {pos[l.start] for l in d1.links if l.role == "RSTR"}
    rstr_of = {}
    for l in d1.links:
        if l.role == "RSTR":
            rstr_of.setdefault(pos[l.start], pos[l.end])
    n_scopes = len({find(i) for i in range(len(nodes))})
    bad = []
    labels = [ep.label for ep in e2]
    for i in range(len(e2)):
        for j in range(i + 1, len(e2)):
            if (labels[i] == labels[j]) != (find(i) == find(j)):
                bad.append(["label", i, j, labels[i], labels[j]])
    ivs = {i: e2[i].iv for i in range(len(e2)) if i not in quant}
    seen = {}
    for i, v in ivs.items():
        if v is None or v in seen:
            bad.append(["intrinsic-variable", seen.get(v), i, v])
        seen[v] = i
    for q, t in rstr_of.items():
        if t not in quant and e2[q].args.get("ARG0") != ivs.get(t):
            bad.append(["bound-variable", q, t, e2[q].args.get("ARG0"), ivs.get(t)])
    his = [hc.hi for hc in m2.hcons]
    uses = {}
    for i, ep in enumerate(e2):
        for r, v in ep.args.items():
            if r not in ("ARG0", "CARG"):
                uses.setdefault(v, []).append([i, r])
    if m2.top is not None:
        uses.setdefault(m2.top, []).append(["top"])
    n_h = sum(1 for l in d1.links if l.post == "H") + (1 if d1.top is not None else 0)
    if len(his) != n_h or len(set(his)) != len(his):
        bad.append(["holes", len(his), n_h, sorted(h_ for h_ in set(his) if his.count(h_) > 1)])
    for h_ in his:
        if h_ in labels:
            bad.append(["hole-is-a-label", h_])
        if len(uses.get(h_, [])) != 1:
            bad.append(["hole-not-used-once", h_, uses.get(h_)])
        if variable.type(h_) != "h":
            bad.append(["hole-sort", h_])
    for hc in m2.hcons:
        if hc.lo not in labels:
            bad.append(["constraint-onto-no-label", hc.hi, hc.lo])
    has_body = {pos[l.start] for l in d1.links if l.role == "BODY"}
    opens = []
    for q in sorted(quant):
        if q not in has_body:
            b = e2[q].args.get("BODY")
            opens.append(b)
            if b is None or b in labels or b in his or len(uses.get(b, [])) != 1 or variable.type(b) != "h":
                bad.append(["open-body", q, b, uses.get(b)])
    if len(set(opens)) != len(opens):
        bad.append(["open-bodies-share-a-name", sorted(map(str, opens))])
    things = len(set(labels)) + len(set(his)) + len(set(opens)) + len(set(ivs.values()))
    names = set(labels) | set(his) | set(opens) | set(ivs.values())
    if len(set(labels)) != n_scopes or len(names) != things:
        bad.append(["names", len(names), things, n_scopes, len(set(labels))])
    used = set(names) | {v for ep in e2 for r, v in ep.args.items() if r != "CARG"}
    if set(m2.variables) != used:
        bad.append(["variable-store", sorted(set(m2.variables) ^ used)])
    if bad:
        fails.append({"clause": "way back: the labels, intrinsic variables and holes from_dmrs allocates are not pairwise "
                                "distinct (a fresh name collides with a scope label or another variable)",
                      "detail": bad[:8]})
    return fails


def top_positions(m):
    """positions of the predications in the scope the top selects (through its constraint)"""
    if m.top is None:
        return None
    lo = next((hc.lo for hc in m.hcons if hc.hi == m.top), m.top)
    pos = [i for i, ep in enumerate(m.rels) if ep.label == lo]
    return pos or None


def index_position(m):
    if m.index is None:
        return None
    pos = [i for i, ep in enumerate(m.rels) if not ep.is_quantifier() and ep.iv == m.index]
    return pos[-1] if pos else None


ERRS = (KeyError, IndexError, mrs.MRSError, dmrs.DMRSError, ValueError, AssertionError, AttributeError, TypeError)


# ------------------------------------------------------------------ the check

INSPACE_HYPS = ("baseIdsNodup", "rolesOk", "ivSorts", "rstrLinked", "scopesHeld", "handleSorts", "topOk",
                "qeqOnly", "argsLinked", "noCargRole", "oneConstraint", "noConstrainedLabel", "holesOnce",
                "quantBody", "quantHead")


# InSpaceSrc (roundtrip_iso_src): every hypothesis is a predicate of the source MRS and scope.representatives(m)
INSPACE_SRC_HYPS = ("baseIdsNodup", "rolesOk", "ivSorts", "rstrLinked", "scopesHeldSrc", "handleSorts", "topOk",
                    "qeqOnly", "argsLinked", "noCargRole", "oneConstraint", "noConstrainedLabel", "holesOnce",
                    "quantBody", "quantHeadSrc", "topRep")


class C04(Check):
    pid = "C04"
    props_modules = ["Verif.C04.Props", "Verif.C04.PropsRT", "Verif.C04.PropsIso", "Verif.C04.PropsSrc",
                     "Verif.C04.PropsBody"]
    quick_cases = 4000
    thorough_cases = 40000
    rule = ("(a) 19 curated structures of 0-5 predications, one per attachment kind (modifier, label sharing without "
            "argument, quantifier, qeq- and label-scopal argument, constant, unexpressed argument, icons, equal "
            "predications); (b) gen_wf: connected scope-plausible MRSs with the IV property of 1-7 predications plus "
            "quantifiers built as a tree of attachments (7 kinds), extra arguments, 25% unexpressed arguments per EP, "
            "icons, constants, TENSE/PERS/NUM properties (60% identical values), half of the cases with one predicate "
            "repeated, 70% shuffled predication order, 70% renumbered variables (small/wide ranges, ids colliding across "
            "sorts), 3% with a mutual-argument scope (F08 class); (c) semgen.gen_mrs_tree and one-step mutations of "
            "(b)/(c) (dangling handles, dropped constraints, shared IVs, relabelled EPs); (d) semgen.gen_mrs_wild "
            "(arbitrary MRSs); (e) VALUES THAT LOOK LIKE SYNTAX: a deterministic block (451 cases) putting, one at a time, "
            "every own variable name (intrinsic variables, labels, holes, the top), every name the variable factories hand "
            "out (h0 h1 h2 x1 x2 e1 e2 u1 i1 p1), role/post/relation names (ARG0 ARG1 RSTR BODY CARG MOD EQ NEQ H HEQ lheq "
            "qeq), 0 -1 10000 10001, the empty string, _ _0 q5 and a quoted \"x\" as the CARG of every predication of three "
            "base structures (quantified noun with modifier, ERG-style coordination, equal predications with the non-top "
            "copy first), and the same texts as predicate and property value; 30% of the gen_wf stream decorated the same "
            "way after renumbering; (f) the named structures of curated_base() (coordination with L/R-INDEX + L/R-HNDL "
            "sharing its label with a modifier, with qeq and with direct labels; twins in different scopes, non-top first, "
            "with and without CARG) in every run; (g) RESOLVED QUANTIFIER BODIES (fully / partly scoped MRSs): a "
            "deterministic block on six quantified structures (one and two quantifiers, restriction with a modifier, a "
            "scopal operator between top and verb, a verb scope with two representatives, a top scope with a group "
            "without representative = class of F08) resolving every quantifier's BODY to every other label as a direct "
            "label (BODY/HEQ) and through a qeq constraint (BODY/H), all combinations for two quantifiers (both scoped "
            "readings included), each also renumbered and shuffled; 40% of the quantified gen_wf cases get resolved "
            "bodies (a chain q1>q2>...>scope, or each body independently open/label/qeq to any label); counted as "
            "inside:body-heq / body-h / fully-scoped and link:BODY/H, link:BODY/HEQ. (h) LARGE structures (72 cases): chains of 10, 12, 14 quantified "
            "nouns (30-42 nodes, 21-29 scopes, so DMRS.scopes hands out h1..h42) under eleven numberings of the source "
            "(from 0, from 7 and 95 and 995 crossing 9->10, 99->100, 999->1000, downwards, sparse with gaps up to 10^7, "
            "even, per sort from 1 / from 9 so that x5 e5 h5 coexist, labels high / low) and four BODY regimes, plus "
            "shuffled copies; on EVERY case whose way back returns (in or outside the space) the names from_dmrs "
            "allocates are COUNTED: one label per EQ-component, one intrinsic variable per non-quantifier node, one "
            "hole per H link and the top, one open BODY per quantifier without BODY link, all pairwise distinct, no "
            "hole that is a label, every hole used once and constrained once, variable store = names in use "
            "(freshness_failures; a harmless renumbering passes, a collision does not). "
            "ORACLE besides isomorphism: position by "
            "position and argument by argument the link inventory must be COMPLETE (each expressible argument exactly "
            "one link, right post, into the selected scope) and each argument must come back in the same way "
            "(intrinsic variable of the same predication / direct label / hole with one qeq used once / open BODY "
            "hole / absent), and label sharing must be preserved; these clauses are judged only where F08 has no "
            "effect and are never classified as known. F08 classification requires, besides the input class, that "
            "the MRS that came back is isomorphic to what F08 predicts (f08_expected: groups without representative "
            "relabelled, arguments into scopes without representative dropped) — any other deviation on an input "
            "of that class is reported. The isomorphism / second-conversion / top / index clauses are evaluated on the inputs of "
            "the property's space: is_well_formed, qeq constraints only, one constraint per hole, no constrained "
            "handle that is also a label, x/e/i/p/u intrinsic variables, pairwise distinct EP identifiers, every "
            "quantifier with RSTR selecting a scope and BODY, binding the intrinsic variable of the first representative "
            "(by the documented definition) of its restriction; the reason a case is outside is counted (space:*). "
            "Totality, link justification, node/top/index shape and the correspondence with the model on every case. "
            "Non-trivial = at least one predication; distinct by JSON text.")
    assumptions = [
        "variable strings are (sort, canonical decimal id); names are ASCII",
        "EP ids pairwise distinct (true unless an ARG0 has sort '_' or two quantifiers bind the same number): otherwise "
        "the driver answers 'unmodelled'",
        "Python set iteration order (scope.conjoin inside DMRS.scopes) is not modelled: the model of from_dmrs receives "
        "the scope labels the implementation chose; theorems hold for every choice",
        "warnings are not observed; lnk is a character span or absent",
        "the isomorphism clause is checked by mrs.is_isomorphic and by an independent backtracking search; proved in "
        "positional form (PropsRT.lean §3) and as one variable map (PropsIso.lean: roundtrip_iso on InSpace, "
        "roundtrip_iso_partial on the quantifier-free, hole-free fragment)",
        "second_conversion_stable is proved from hypotheses on m alone (BaseIdsDistinct, RolesOk, IVSorts, RstrLinked, "
        "ScopesHeld, NoDescArg); second_conversion_stable_partial replaces the last two by the decidable RepsAgree. The "
        "driver evaluates all of them on every case; the run fails if BaseIdsDistinct/RolesOk/IVSorts/RstrLinked/"
        "ScopesHeld/RepsAgree is false on a case of the space without a starved group; NoDescArg (no argument into a "
        "scopal descendant of a co-member) fails on about 1% of those cases, which are covered by the partial theorem "
        "only (extra_evidence: noDescArg)",
        "roundtrip_iso (one variable map) is proved for the class InSpace = the fifteen named decidable hypotheses "
        "BaseIdsDistinct, RolesOk, IVSorts, RstrLinked, ScopesHeld, HandleSorts, TopOk, QeqOnly, ArgsLinked, NoCargRole, "
        "OneConstraint, NoConstrainedLabel, HolesOnce, QuantBody and O1 = QuantHead (each quantifier binds the first "
        "representative of its restriction). The driver evaluates each on every case; the run fails if any is false on a "
        "case of the property's space without a starved group; O1 is counted on all cases and on the space "
        "(extra_evidence: O1_quantHead); roundtrip_iso_needs_O1 is the decide-checked case where only O1 fails and "
        "no map exists",
        "roundtrip_iso_src / second_conversion_stable_src (PropsSrc.lean) assume NO conversion result: their class "
        "InSpaceSrc is sixteen decidable predicates of m and scope.representatives(m) — the fifteen above with "
        "ScopesHeld/QuantHead in source form (ScopesHeldSrc: every scope connected through label-internal arguments and "
        "the ties between its representatives; QuantHeadSrc: the first representative of each quantifier's restriction "
        "is a non-quantifier with the bound variable as ARG0) plus TopRep (the top scope has a representative); the "
        "source forms are PROVED to imply the DMRS forms, and from_mrs, from_dmrs and the second from_mrs are PROVED to "
        "succeed. The driver evaluates all sixteen on every case; the run fails if (a) one is false on a case of the "
        "property's space without a starved group, (b) the real code or the model raises in any conversion on an "
        "InSpaceSrc case, (c) a source form holds where the DMRS form fails (with distinct ids). Every conversion error "
        "of the real code is recorded with its space class and the hypotheses failing there "
        "(coverage: conversion_errors_by_space / _failing_hypothesis): every from_dmrs KeyError has QuantHeadSrc (O1) "
        "false, every from_mrs IndexError has TopRep false (F08)",
        "`strip` (what 'DMRS cannot express' means in the isomorphism theorems) removes: arguments that are neither "
        "ARG0, nor the intrinsic variable of a non-quantifier predication, nor a label, nor a handle whose constraint "
        "selects a scope, nor a quantifier's BODY; the individual constraints; a top that selects no scope; an index "
        "that is no intrinsic variable of a non-quantifier predication; handle constraints that are unused or not the "
        "last on their handle. strip_only_named proves top/index/hcons/variables are untouched under OneConstraint, "
        "TopSelects, IndexIV, HconsUsed; on the property's space TopSelects and HconsUsed always held, IndexIV failed on "
        "about 0.2% of the cases (coverage: strip_keeps_*) — there the index is dropped on both sides (from_mrs drops it)",
        "the model answers 'unmodelled' when EP ids are not pairwise distinct after _uniquify_ids (whole case) or in the "
        "MRS that came back (second conversion only); both are counted (coverage: model_unmodelled) and are a "
        "disagreement on a case of the property's space or of InSpaceSrc",
        "DMRS identifies the variable a quantifier binds with the target of its RSTR link (first representative of the "
        "restriction): MRSs whose quantifier binds another member of the restriction are counted as outside the space "
        "(the round trip rebinds the quantifier); likewise intrinsic variables of sorts outside x/e/i/p/u "
        "(from_dmrs reads arguments with types='xeipu' and drops links to such nodes)",
    ]
    trusted_base = ["hand-written model lean/Verif/C04/Model.lean over lean/Verif/Common/Sem.lean, tied to "
                    "delphin.dmrs._operations.from_mrs / delphin.mrs._operations.from_dmrs by the correspondence run",
                    "harness/common/semgen.py converters (object <-> JSON)"]

    def __init__(self):
        self._impl_cache = {}

    # ---- pins: the constants of the anchored code the hand-written model mirrors
    def tables(self):
        """Read on every run from the live modules / code objects (`co_consts`, nested code objects of inner
        functions and comprehensions included, in order; docstrings, message texts, None/bool and keyword-name
        tuples dropped) into lean/Verif/Generated/TablesC04.lean; compared with literal copies by `c04_pins`."""
        import types
        from .common import tables as T
        from delphin.dmrs import _dmrs, _operations as dops
        from delphin.mrs import _mrs, _operations as mops2
        lit = T.lean_strlit

        def flat(fn):
            code = fn.__code__ if hasattr(fn, "__code__") else fn
            doc = getattr(fn, "__doc__", None)
            out = []
            for c in code.co_consts:
                if isinstance(c, types.CodeType):
                    out += flat(c)
                elif isinstance(c, bool) or c is None or isinstance(c, tuple):
                    continue
                elif isinstance(c, str):
                    if c == doc or " " in c.strip() or c.endswith(": "):
                        continue            # docstrings and warning / exception message texts
                    out.append(c)
                elif isinstance(c, int):
                    out.append(str(c))
                elif isinstance(c, frozenset):
                    out.append("{" + ",".join(sorted(map(str, c))) + "}")
                else:
                    out.append(repr(c))
            return out

        def pairs(name, items):
            return "def %s : List (String × String) := [%s]" % (
                name, ", ".join("(%s, %s)" % (lit(k), lit(str(v))) for k, v in items))

        def mod_consts(mod, names):
            return [(n, getattr(mod, n)) for n in names]
        funcs = [
            ("dmrs.from_mrs", dops.from_mrs), ("dmrs._mrs_get_top", dops._mrs_get_top),
            ("dmrs._mrs_to_nodes", dops._mrs_to_nodes), ("dmrs._mrs_to_links", dops._mrs_to_links),
            ("mrs.from_dmrs", mops2.from_dmrs), ("mrs._dmrs_build_maps", mops2._dmrs_build_maps),
            ("DMRS.scopes", _dmrs.DMRS.scopes), ("DMRS.arguments", _dmrs.DMRS.arguments),
            ("DMRS.scopal_arguments", _dmrs.DMRS.scopal_arguments), ("DMRS.is_quantifier", _dmrs.DMRS.is_quantifier),
            ("DMRS.quantification_pairs", _dmrs.DMRS.quantification_pairs),
            ("dmrs._normalize_top_and_links", _dmrs._normalize_top_and_links),
            ("Node.__init__", _dmrs.Node.__init__),
            ("scope.representatives", scope.representatives),
            ("scope._make_representative_priority", scope._make_representative_priority),
            ("scope.conjoin", scope.conjoin), ("scope._descendants", scope._descendants),
            ("VariableFactory.__init__", variable.VariableFactory.__init__),
            ("VariableFactory.new", variable.VariableFactory.new),
            ("EP.__init__", _mrs.EP.__init__), ("mrs._uniquify_ids", _mrs._uniquify_ids),
            ("MRS.arguments", _mrs.MRS.arguments), ("MRS.scopal_arguments", _mrs.MRS.scopal_arguments),
            ("MRS.scopes", _mrs.MRS.scopes), ("MRS.properties", _mrs.MRS.properties),
        ]
        defaults = [(n, repr((getattr(f, "__defaults__", None), getattr(f, "__kwdefaults__", None))))
                    for n, f in funcs if getattr(f, "__defaults__", None) or getattr(f, "__kwdefaults__", None)]
        return [
            pairs("c04DmrsModuleConsts", mod_consts(_dmrs, [
                "TOP_NODE_ID", "FIRST_NODE_ID", "RESTRICTION_ROLE", "BARE_EQ_ROLE", "EQ_POST", "HEQ_POST",
                "NEQ_POST", "H_POST", "NIL_POST", "CVARSORT"])),
            pairs("c04MrsModuleConsts", mod_consts(_mrs, [
                "INTRINSIC_ROLE", "RESTRICTION_ROLE", "BODY_ROLE", "CONSTANT_ROLE", "_QUANTIFIER_TYPE"])),
            pairs("c04VariableModuleConsts", mod_consts(variable, [
                "UNSPECIFIC", "INDIVIDUAL", "INSTANCE_OR_HANDLE", "EVENTUALITY", "INSTANCE", "HANDLE"])
                + [("_variable_re.pattern", variable._variable_re.pattern),
                   ("_variable_re.flags", variable._variable_re.flags)]),
            pairs("c04ScopeModuleConsts", mod_consts(scope, ["LEQ", "LHEQ", "OUTSCOPES", "QEQ"])
                  + [("_UNTENSED_VALUES", "{" + ",".join(sorted(scope._UNTENSED_VALUES)) + "}")]),
            "def c04FuncConsts : List (String × List String) := [\n%s]" % ",\n".join(
                "  (%s, [%s])" % (lit(n), ", ".join(lit(c) for c in flat(f))) for n, f in funcs),
            pairs("c04Defaults", defaults),
        ]

    # ---- generators
    def cases(self, rng, tier, n):
        for m in curated():
            yield {"kind": "rt", "src": "curated", "m": m}
            yield {"kind": "rt", "src": "curated", "m": renumber(rng, m)}
        for _, m in curated_base():
            yield {"kind": "rt", "src": "curated", "m": m}
            yield {"kind": "rt", "src": "curated", "m": renumber(rng, m)}
        for m in lookalike_block():
            yield {"kind": "rt", "src": "lookalike", "m": m}
        for m in resolved_body_block(rng):
            yield {"kind": "rt", "src": "body", "m": m}
        for m in offspace_block():
            yield {"kind": "rt", "src": "offspace", "m": m}
        for m in large_block(rng):
            yield {"kind": "rt", "src": "large", "m": m}
        # the same structures built with None where a component is empty (MRS.__init__ / EP.__init__ defaults)
        for m in curated()[:4] + list(offspace_block())[:2]:
            yield {"kind": "rt", "src": "ctor-none", "m": m, "ctor": "none"}
        yield from self.random_cases(rng, n)

    def random_cases(self, rng, n, only=None):
        for _ in range(n):
            r = rng.random()
            if only:
                r = rng.choice([{"wf": 0.1, "tree": 0.65, "mut": 0.75, "wild": 0.95}[k] for k in only])
            if r < 0.62:
                m = gen_wf(rng)
                if rng.random() < 0.3:
                    # values that look like syntax (after the renumbering, so that they still coincide)
                    yield {"kind": "rt", "src": "lookalike", "m": decorate_lookalike(rng, m)}
                else:
                    yield {"kind": "rt", "src": "wf", "m": m}
            elif r < 0.72:
                m = semgen.gen_mrs_tree(rng, mutual=0.05)
                if rng.random() < 0.5:
                    rng.shuffle(m["rels"])
                yield {"kind": "rt", "src": "tree", "m": m}
            elif r < 0.87:
                m = gen_wf(rng) if rng.random() < 0.6 else semgen.gen_mrs_tree(rng)
                for _ in range(rng.choice([1, 1, 2])):
                    m = semgen.mutate_mrs(rng, m)
                yield {"kind": "rt", "src": "mut", "m": m}
            else:
                yield {"kind": "rt", "src": "wild", "m": semgen.gen_mrs_wild(rng)}

    def search_cases(self, rng, tier, n, seeds):
        kinds = sorted({c.get("src") for c in seeds if c.get("src") in ("wf", "tree", "mut", "wild")})
        for c in seeds[:10]:
            for _ in range(10):
                yield {"kind": "rt", "src": "lookalike", "m": decorate_lookalike(rng, c["m"])}
        for c in seeds[:20]:
            for _ in range(20):
                yield {"kind": "rt", "src": "mut", "m": semgen.mutate_mrs(rng, c["m"])}
                yield {"kind": "rt", "src": "mut", "m": renumber(rng, c["m"])}
        yield from self.random_cases(rng, n, kinds or None)

    # ---- implementation
    @staticmethod
    def build(mj, ctor=None):
        """the source object; with ctor='none' every empty component is passed as None (the constructors'
        own defaults) instead of an empty list / dict"""
        if ctor != "none":
            return semgen.mrs_from_json(mj)
        rels = []
        for j in mj["rels"]:
            e = semgen.ep_from_json(j)
            if not e.args:
                e = mrs.EP(e.predicate, e.label, None, lnk=e.lnk, surface=e.surface, base=e.base)
            rels.append(e)
        full = semgen.mrs_from_json(mj)
        return mrs.MRS(top=full.top, index=full.index, rels=rels or None, hcons=list(full.hcons) or None,
                       icons=list(full.icons) or None,
                       variables={semgen.var_from_json(v): dict((k, val) for k, val in ps)
                                  for v, ps in mj.get("vars", [])} or None)

    def run(self, mj, ctor=None):
        """(m, d1, m2, d2) as objects or the exception enum, warnings suppressed"""
        m = self.build(mj, ctor)
        out = {"m": m}
        try:
            out["d1"] = _quiet(dmrs.from_mrs, m)
        except ERRS as e:
            out["d1_err"] = type(e).__name__
            return out
        try:
            out["m2"] = _quiet(mrs.from_dmrs, out["d1"])
        except ERRS as e:
            out["m2_err"] = type(e).__name__
            return out
        try:
            out["d2"] = _quiet(dmrs.from_mrs, out["m2"])
        except ERRS as e:
            out["d2_err"] = type(e).__name__
        return out

    def impl(self, case):
        o = self.run(case["m"], case.get("ctor"))
        res = {}
        if "d1" in o:
            res["d1"] = {"ok": semgen.dmrs_to_json(o["d1"])}
        else:
            res["d1"] = {"err": o["d1_err"]}
            return self._remember(case, res)
        if "m2" in o:
            res["m2"] = {"ok": mrs_to_json(o["m2"])}
        else:
            res["m2"] = {"err": o["m2_err"]}
            return self._remember(case, res)
        if "d2" in o:
            res["d2"] = {"ok": semgen.dmrs_to_json(o["d2"])}
        else:
            res["d2"] = {"err": o["d2_err"]}
        return self._remember(case, res)

    def _remember(self, case, res):
        self._impl_cache[canon(case["m"])] = res
        return res

    # ---- model
    def model_request(self, case):
        res = self._impl_cache.get(canon(case["m"]))
        if res is None:
            res = self.impl(case)
        chosen = []
        if "ok" in res.get("m2", {}):
            for e in res["m2"]["ok"]["rels"]:
                if e["label"] not in chosen:
                    chosen.append(e["label"])
        return {"op": "rt", "m": case["m"], "chosen": chosen}

    def _count(self, group, key):
        ev = self.__dict__.setdefault("_ev", {})
        g = ev.setdefault(group, {})
        g[key] = g.get(key, 0) + 1

    def model_compare(self, case, expected, answer):
        m = semgen.mrs_from_json(case["m"])
        why = in_space(case["m"], m)
        inside = why is None and not starved_scopes(m)
        if isinstance(answer, dict) and "unmodelled" in answer:
            # the model declines (EP ids not pairwise distinct after _uniquify_ids): counted; never
            # accepted on a case of the property's space
            self._count("model_unmodelled", "whole-case:%s|space:%s" % (answer["unmodelled"], why or "inside"))
            if inside:
                return {"one_sided_unmodelled_on_in_space_case": answer}
            return None
        if not isinstance(answer, dict):
            return {"expected_from_impl": expected, "model": answer}
        self._count("model_unmodelled", "none")
        hyp = answer.get("hyp") or {}
        src_ok = [k for k in INSPACE_SRC_HYPS if k in hyp]
        src_fail = [k for k in INSPACE_SRC_HYPS if not hyp.get(k, True)]
        in_src = len(src_ok) == len(INSPACE_SRC_HYPS) and not src_fail
        if src_ok:
            self._count("InSpaceSrc", "holds" if in_src else "fails")
            # strip_only_named (A4): on which cases does `strip` remove more than the claim names
            # (a top selecting no scope / an index that is no intrinsic variable / unused constraints)?
            for k in ("topSelects", "indexIV", "hconsUsed"):
                if in_src:
                    self._count("strip_keeps_on_InSpaceSrc", "%s:%s" % (k, "holds" if hyp.get(k) else "fails"))
                if inside:
                    self._count("strip_keeps_on_space_without_starved_group",
                                "%s:%s" % (k, "holds" if hyp.get(k) else "fails"))
            if inside:
                self._count("strip_keeps_on_space_without_starved_group", "all-three:%s" % (
                    "holds" if all(hyp.get(k) for k in ("topSelects", "indexIV", "hconsUsed")) else "fails"))
        # totality (A1): class of every conversion error of the real code = the hypotheses that fail there
        for stage in ("d1", "m2"):
            if "err" in expected.get(stage, {}):
                tag = "%s:%s" % (stage, expected[stage]["err"])
                self._count("conversion_errors_by_space", "%s|space:%s%s" % (
                    tag, why or "inside", "(starved group, F08)" if why is None and not inside else ""))
                for k in (src_fail or ["NONE"]):
                    self._count("conversion_errors_failing_hypothesis", "%s|%s" % (tag, k))
                if in_src:
                    return {"conversion_error_on_InSpaceSrc_case": expected[stage]}
        if in_src:
            # fromMrs_total / fromDmrs_total / second conversion: no error on InSpaceSrc, in the model either
            for stage in ("d1", "m2", "d2"):
                if "err" in answer.get(stage, {}):
                    return {"model_error_on_InSpaceSrc_case": {stage: answer[stage]}}
        if "quantHead" in hyp:
            # the source-only forms imply the forms stated on the DMRS (inSpace_of_src)
            for a_, b_ in (("scopesHeldSrc", "scopesHeld"), ("quantHeadSrc", "quantHead")):
                self._count("src_vs_dmrs_form", "%s=%s,%s=%s" % (a_, hyp.get(a_), b_, hyp.get(b_)))
                if hyp.get(a_) and not hyp.get(b_) and hyp.get("baseIdsNodup") and hyp.get("rolesOk"):
                    return {"source_form_true_dmrs_form_false": [a_, b_]}
            # O1 (each quantifier binds the first representative of its restriction), the named
            # hypothesis of roundtrip_iso: evaluated by the model on every case, counted
            self._o1 = getattr(self, "_o1", {"all_cases": {"holds": 0, "fails": 0},
                                             "space_without_starved_group": {"holds": 0, "fails": 0},
                                             "inSpace_all_15_hold": 0})
            self._o1["all_cases"]["holds" if hyp["quantHead"] else "fails"] += 1
        if inside and src_ok:
            # the property's space (direct oracle's definition, no starved group) lies inside InSpaceSrc
            if src_fail:
                return {"hypotheses_of_roundtrip_iso_src_fail_on_in_space_case": src_fail}
        if "repsAgree" in hyp:
            # the hypotheses of second_conversion_stable_partial must hold on the property's space
            # (outside the input class of F08): evaluated by the model on every such case
            if inside:
                bad = [k for k in ("baseIdsNodup", "rolesOk", "ivSorts", "rstrLinked", "scopesHeld", "repsAgree")
                       if not hyp.get(k, True)]
                # NoDescArg (the extra hypothesis of second_conversion_stable) is not implied by the space:
                # counted, and RepsAgree is required regardless
                self._nodesc = getattr(self, "_nodesc", {"holds": 0, "fails": 0})
                self._nodesc["holds" if hyp.get("noDescArg", True) else "fails"] += 1
                if bad:
                    return {"hypotheses_of_second_conversion_stable_fail": bad}
                # InSpace (roundtrip_iso): the fifteen named hypotheses hold on the property's space
                bad2 = [k for k in INSPACE_HYPS if not hyp.get(k, True)]
                if "quantHead" in hyp:
                    self._o1["space_without_starved_group"]["holds" if hyp["quantHead"] else "fails"] += 1
                    if not bad2:
                        self._o1["inSpace_all_15_hold"] += 1
                if bad2:
                    return {"hypotheses_of_roundtrip_iso_fail": bad2}
        a = {k: v for k, v in answer.items() if k != "hyp"}
        for side in (a,):
            if "ok" in side.get("m2", {}):
                side["m2"] = {"ok": dict(side["m2"]["ok"], vars=sorted(side["m2"]["ok"]["vars"]))}
        if a.get("d2") == {"err": "unmodelled"}:
            # the MRS that came back has repeated EP ids: the model declines the second conversion;
            # counted, never accepted on a case of the property's space (roundtrip_baseIds)
            self._count("model_unmodelled", "d2-only|space:%s" % (why or "inside"))
            if inside or in_src:
                return {"one_sided_unmodelled_d2_on_in_space_case": expected.get("d2")}
            a.pop("d2")
            expected = {k: v for k, v in expected.items() if k != "d2"}
        return super().model_compare(case, expected, a)

    # ---- direct oracle
    def oracle(self, case, res):
        fails = []

        def fail(clause, detail=None):
            fails.append({"clause": clause, "detail": detail})
        o = self.run(case["m"], case.get("ctor"))
        m = o["m"]
        eps = list(m.rels)
        why_out = in_space(case["m"], m)
        inside = why_out is None

        # ---- totality on the property's space
        if "d1" not in o:
            if inside:
                fail("dmrs.from_mrs raises on a well-formed MRS", {"err": o["d1_err"]})
            return fails
        d1 = o["d1"]
        nodes = list(d1.nodes)

        # ---- nodes: one per predication, in order
        if len(nodes) != len(eps):
            fail("DMRS does not have one node per predication")
            return fails
        for i, (ep, nd) in enumerate(zip(eps, nodes)):
            if nd.id != 10000 + i:
                fail("node ids are not 10000+position", i)
            if (nd.predicate, nd.carg, nd.lnk, nd.surface, nd.base) != (ep.predicate, ep.args.get("CARG"), ep.lnk,
                                                                       ep.surface, ep.base):
                fail("node does not carry the predicate, constant, lnk, surface and base of its predication", i)
            if "RSTR" in ep.args:
                if nd.type is not None or nd.properties:
                    fail("quantifier node has a type or properties", i)
            elif "ARG0" in ep.args and inside:
                iv = ep.args["ARG0"]
                if nd.type != variable.type(iv) or dict(nd.properties) != dict(m.variables.get(iv, {})):
                    fail("node type/properties are not those of the intrinsic variable", i)
        pos = {nd.id: i for i, nd in enumerate(nodes)}

        # ---- top and index of the DMRS
        tp = top_positions(m)
        tp_any = [i for i, ep in enumerate(eps) if m.top is not None and
                  (ep.label == m.top or any(hc.hi == m.top and hc.lo == ep.label for hc in m.hcons))]
        if d1.top is not None:
            if d1.top not in pos:
                fail("DMRS top is not a node id")
            elif pos[d1.top] not in tp_any:
                fail("DMRS top is not a predication of the scope the MRS top selects", d1.top)
        elif inside and tp is not None:
            fail("DMRS has no top although the MRS top selects a scope")
        ip = index_position(m)
        if d1.index is not None:
            if d1.index not in pos or ip is None or eps[pos[d1.index]].iv != m.index \
                    or eps[pos[d1.index]].is_quantifier():
                fail("DMRS index is not the predication whose intrinsic variable is the MRS index", d1.index)
        elif ip is not None:
            fail("DMRS has no index although the MRS index is an intrinsic variable")

        # ---- every link is justified by the source
        hcs = {}
        for hc in m.hcons:
            hcs.setdefault(hc.hi, []).append(hc)
        ivs_nonq = {}
        for i, ep in enumerate(eps):
            if "RSTR" not in ep.args and "ARG0" in ep.args:
                ivs_nonq.setdefault(ep.args["ARG0"], []).append(i)
        uniq_iv = all(len(v) == 1 for v in ivs_nonq.values())
        seen_links = []
        for l in d1.links:
            key = (l.start, l.end, l.role, l.post)
            if key in seen_links:
                fail("a link is produced twice", key)
            seen_links.append(key)
            if l.start not in pos or l.end not in pos:
                fail("link start/end is not a node id", key)
                continue
            s, t = eps[pos[l.start]], eps[pos[l.end]]
            if l.role == "MOD":
                if l.post != "EQ" or s.label != t.label or l.start == l.end:
                    fail("MOD link is not a MOD/EQ link between two different predications of one scope", key)
                continue
            if l.role in ("ARG0", "CARG") or l.role not in s.args:
                fail("link: the start predication does not have that role", key)
                continue
            v = s.args[l.role]
            if l.post in ("EQ", "NEQ"):
                if "RSTR" in t.args or t.args.get("ARG0") != v:
                    fail("EQ/NEQ link: the target is not the predication whose intrinsic variable the argument is", key)
                elif uniq_iv and (l.post == "EQ") != (s.label == t.label):
                    fail("EQ/NEQ link: post does not reflect label identity of start and target", key)
            elif l.post == "H":
                if not any(hc.lo == t.label for hc in hcs.get(v, [])):
                    fail("H link: the argument is not the hi of a handle constraint whose lo is the target's label", key)
            elif l.post == "HEQ":
                if v != t.label or v in hcs:
                    fail("HEQ link: the argument is not directly the target's label", key)
            else:
                fail("link has an unknown post", key)

        # ---- the names the way back allocates (every case, in or outside the space)
        if "m2" in o:
            fails.extend(freshness_failures(d1, o["m2"]))

        if not inside:
            return fails

        # ---- the round trip
        if "m2" not in o:
            fail("mrs.from_dmrs raises on the DMRS of a well-formed MRS", {"err": o["m2_err"]})
            return fails
        m2 = o["m2"]
        sm = strip(m)
        iso = bool(mops.is_isomorphic(sm, m2))
        if not iso:
            fail("MRS->DMRS->MRS is not isomorphic to the stripped source (mrs.is_isomorphic)",
                 {"starved": [V(l) for l in starved_scopes(m)]})
        if len(eps) <= 9:
            b = brute_iso(sm, m2)
            if b is False:
                fail("MRS->DMRS->MRS is not isomorphic to the stripped source (bijection search)",
                     {"starved": [V(l) for l in starved_scopes(m)]})
            if b is not None and b != iso:
                fail("mrs.is_isomorphic and the bijection search disagree on the round trip", {"search": b, "impl": iso})
        if top_positions(m2) != tp:
            fail("round trip: the top does not select the same predications", {"src": tp, "rt": top_positions(m2)})
        if index_position(m2) != ip:
            fail("round trip: the index is not the same predication's variable", {"src": ip, "rt": index_position(m2)})
        if [e.predicate for e in m2.rels] != [e.predicate for e in eps]:
            fail("round trip: predications are not in the source order")
        elif len(set(ep.id for ep in eps)) == len(eps):
            for f in positional_failures(m, d1, m2):
                fails.append(f)

        # ---- the second conversion
        if "d2" not in o:
            fail("second conversion raises", {"err": o["d2_err"]})
            return fails
        d2 = o["d2"]
        j1, j2 = semgen.dmrs_to_json(d1), semgen.dmrs_to_json(d2)
        if j1["nodes"] != j2["nodes"]:
            fail("second conversion: nodes differ")
        if j1["top"] != j2["top"]:
            fail("second conversion: top differs", [j1["top"], j2["top"]])
        if j1["index"] != j2["index"]:
            fail("second conversion: index differs", [j1["index"], j2["index"]])
        if sorted(map(tuple, j1["links"])) != sorted(map(tuple, j2["links"])):
            a, b = set(map(tuple, j1["links"])), set(map(tuple, j2["links"]))
            fail("second conversion: set of links differs", {"only_first": sorted(a - b), "only_second": sorted(b - a)})
        return fails

    # ---- known findings
    F08_RAISE = "dmrs.from_mrs raises on a well-formed MRS"
    F08_CLAUSES = (
        "MRS->DMRS->MRS is not isomorphic to the stripped source (mrs.is_isomorphic)",
        "MRS->DMRS->MRS is not isomorphic to the stripped source (bijection search)",
        "round trip: the top does not select the same predications",
    )

    def classify(self, case, failure):
        """F08: decided from the input by the DEFINITIONS (not from what the code returned): in some scope
        a group of members held together by arguments has no representative, because each of them
        takes another member of the scope (or a scopal descendant of another member) as a
        non-scopal argument.  No link can then say that the group shares the scope's label (round
        trip splits the scope); when the whole scope is such a group it has no representative at
        all, every argument selecting it is dropped, and the top selecting it raises IndexError."""
        clause = failure.get("clause")
        if clause != self.F08_RAISE and clause not in self.F08_CLAUSES and \
                not str(clause).startswith("second conversion: "):
            return None
        m = semgen.mrs_from_json(case["m"])
        if len({ep.id for ep in m.rels}) != len(m.rels):
            return None
        if clause == self.F08_RAISE:
            # IndexError exactly when the scope the top selects has no representative
            tp = top_positions(m)
            if (failure.get("detail") or {}).get("err") == "IndexError" and tp is not None \
                    and m.rels[tp[0]].label in empty_scopes(m):
                return "F08"
            return None
        # The input class alone is not enough: a DIFFERENT defect may show on an input that happens to be in
        # the class of F08.  The failure is the known one only if what came back is what F08 predicts.
        an = scope_analysis(m)
        if not any(a["starved"] for a in an.values()):
            return None
        o = self.run(case["m"])
        if "m2" not in o:
            return None
        starved = {i for a in an.values() for g in a["starved"] for i in g}
        if clause == self.F08_CLAUSES[2]:
            # the top scope is split: the top comes back selecting the group that holds its representatives
            tp = top_positions(m)
            if tp is not None and m.rels[tp[0]].label in starved_scopes(m) and \
                    top_positions(o["m2"]) == [i for i in tp if i not in starved]:
                return "F08"
            return None
        if str(clause).startswith("second conversion: "):
            # a link into a scope without any representative was dropped by the first conversion: a quantifier
            # that lost its RSTR link is no quantifier in the DMRS (type None), and an ordinary predication
            # with a fresh u variable in the MRS that comes back (type u in the second DMRS)
            empty = empty_scopes(m)
            lo = {hc.hi: hc.lo for hc in m.hcons}
            if not any(lo.get(v, v) in empty for ep in m.rels for _, v in out_args(ep)):
                return None
            if "d2" not in o:
                return None
            lost = {i for i, ep in enumerate(m.rels)
                    if ep.is_quantifier() and lo.get(ep.args["RSTR"], ep.args["RSTR"]) in empty}
            affected = set(lost) | {i for l, a in an.items() if a["starved"] for i in a["members"]} | \
                {i for i, ep in enumerate(m.rels) if any(lo.get(v, v) in empty for _, v in out_args(ep))}
            j1, j2 = semgen.dmrs_to_json(o["d1"]), semgen.dmrs_to_json(o["d2"])
            if clause == "second conversion: nodes differ":
                if len(j1["nodes"]) != len(j2["nodes"]):
                    return None
                for i, (a, b) in enumerate(zip(j1["nodes"], j2["nodes"])):
                    if a != b and not (i in lost and a["type"] is None and b["type"] == "u"
                                       and {k: v for k, v in a.items() if k != "type"} ==
                                       {k: v for k, v in b.items() if k != "type"}):
                        return None
                return "F08"
            if clause == "second conversion: set of links differs":
                a, b = set(map(tuple, j1["links"])), set(map(tuple, j2["links"]))
                if all(l[0] - 10000 in affected or l[1] - 10000 in affected for l in a ^ b):
                    return "F08"
                return None
            if clause in ("second conversion: top differs", "second conversion: index differs"):
                k = "top" if "top" in clause else "index"
                if all(v is None or v - 10000 in affected for v in (j1[k], j2[k])):
                    return "F08"
            return None
        # the isomorphism clauses: every group without a representative comes back with a label of its own,
        # arguments into a scope without any representative are gone — and nothing else differs
        if f08_explains_iso(m, o["m2"]):
            return "F08"
        return None

    # ---- evidence
    def nontrivial_key(self, case, res):
        if not case["m"]["rels"]:
            return None
        return canon(case["m"])

    def stats(self, case, res, c):
        def inc(k):
            c[k] = c.get(k, 0) + 1
        inc("src:" + case.get("src", "corpus"))
        if res is None:
            inc("impl:none")
            return
        mj = case["m"]
        m = semgen.mrs_from_json(mj)
        inc("eps=%d" % min(len(mj["rels"]), 10))
        why = in_space(mj, m)
        inc("space:" + (why or "inside"))
        for k in ("d1", "m2", "d2"):
            if k in res:
                inc("%s:%s" % (k, "ok" if "ok" in res[k] else res[k]["err"]))
        if "ok" in res["d1"]:
            d = res["d1"]["ok"]
            for l in d["links"]:
                inc("link:%s/%s" % (l[2] if l[2] in ("MOD", "RSTR", "BODY") else "ARG", l[3]))
            inc("links=%d" % min(len(d["links"]), 12))
            if d["top"] is None:
                inc("dmrs:no-top")
            if d["index"] is None:
                inc("dmrs:no-index")
            ns = d["nodes"]
            if any(a is not b and (a["pred"], a["type"], a["props"], a["carg"]) ==
                   (b["pred"], b["type"], b["props"], b["carg"]) for a in ns for b in ns):
                inc("dmrs:equal-nodes")
        if why is None:
            labels = [canon(e["label"]) for e in mj["rels"]]
            if len(set(labels)) < len(labels):
                inc("inside:shared-label")
            if mj["icons"]:
                inc("inside:icons")
            ivs = {canon(v) for e in mj["rels"] for r, v in e["args"] if r == "ARG0"}
            hl = {canon(h[0]) for h in mj["hcons"]} | set(labels)
            if any(r not in ("ARG0", "BODY") and canon(v) not in ivs and canon(v) not in hl
                   for e in mj["rels"] for r, v in e["args"]):
                inc("inside:unexpressed-arg")
            if any(e["carg"] is not None for e in mj["rels"]):
                inc("inside:carg")
            if any(r == "RSTR" for e in mj["rels"] for r, v in e["args"]):
                inc("inside:quantifier")
            bk = body_kinds(mj)
            for k in set(bk):
                inc("inside:body-%s" % k)
            if bk and all(k in ("h", "heq") for k in bk):
                inc("inside:fully-scoped(every BODY resolved)")
            if starved_scopes(m):
                inc("inside:starved-scope(F08)")
                if any(k in ("h", "heq") for k in bk):
                    inc("inside:starved-scope(F08)+resolved-body")
            if [canon(e["args"][0][1][1]) for e in mj["rels"]] != sorted(canon(e["args"][0][1][1]) for e in mj["rels"]):
                inc("inside:ids-not-in-position-order")

    def extra_evidence(self):
        ev = {"noDescArg_on_space_without_starved_group": getattr(self, "_nodesc", None),
              "O1_quantHead": getattr(self, "_o1", None)}
        ev.update(getattr(self, "_ev", {}))
        return ev

    def shrink(self, case, still_fails):
        cur = case
        changed = True
        while changed:
            changed = False
            cands = []
            m = cur["m"]
            for i in range(len(m["rels"])):
                c = copy.deepcopy(cur)
                del c["m"]["rels"][i]
                cands.append(c)
            for i in range(len(m["hcons"])):
                c = copy.deepcopy(cur)
                del c["m"]["hcons"][i]
                cands.append(c)
            for i, ep in enumerate(m["rels"]):
                for k in range(len(ep["args"])):
                    if ep["args"][k][0] != "ARG0":
                        c = copy.deepcopy(cur)
                        del c["m"]["rels"][i]["args"][k]
                        cands.append(c)
                for f in ("lnk", "surface", "base", "carg"):
                    if ep.get(f) is not None:
                        c = copy.deepcopy(cur)
                        c["m"]["rels"][i][f] = None
                        cands.append(c)
            for f in ("icons", "vars"):
                if m.get(f):
                    c = copy.deepcopy(cur)
                    c["m"][f] = []
                    cands.append(c)
            for c in cands:
                try:
                    if still_fails(c):
                        cur = c
                        changed = True
                        break
                except Exception:
                    continue
        return cur


CHECK = C04()
