"""C08 — TSDB record encoding: generators, implementation runner, direct oracle."""
import datetime
import itertools
import math
import re
import struct
import warnings

from .common import paths
from .common.runner import Check

paths.ensure_repo_on_path()
from delphin import itsdb, tsdb  # noqa: E402


def cps(s):
    return [ord(c) for c in s]


def uncps(a):
    return "".join(chr(x) for x in a)


SPECIAL = ["\\", "@", "s", "n", "\n", "\r", "a", " ", "\\\\", "\\s", "\\n", "@@", "é", " ", "\U0001F600", "x",
           "\x1f", "\x1c", "\x85", "\x00"]
DATE_ALPHA = "0123456789-: ()abcdefgjlmnoprstuvyJSDX"


def gen_string(rng, maxlen=8):
    n = rng.choice([0, 1, 1, 2, 2, 3, 3, 4, 5, 6, maxlen])
    out = []
    for _ in range(n):
        r = rng.random()
        if r < 0.8:
            out.append(rng.choice(SPECIAL))
        else:
            cp = rng.choice([rng.randrange(32, 127), rng.randrange(0xA0, 0x800), rng.randrange(0x1F600, 0x1F640),
                             rng.randrange(0, 32)])
            out.append(chr(cp))
    return "".join(out)


def gen_int(rng):
    r = rng.random()
    if r < 0.3:
        return rng.randrange(-3, 12)
    if r < 0.6:
        return rng.randrange(-10**6, 10**6)
    if r < 0.8:
        return rng.choice([-1, 1]) * rng.randrange(10**18, 10**30)
    return rng.choice([0, -1, 9, 10, -10, 99, 100, 2**63, -2**63, 10**20])


def gen_float(rng):
    r = rng.random()
    if r < 0.5:
        while True:
            x = struct.unpack("<d", struct.pack("<Q", rng.getrandbits(64)))[0]
            if math.isfinite(x):
                return x
    if r < 0.8:
        return rng.choice([0.0, -0.0, 1.0, 0.1, 1e22, 1e-7, 5e-324, 1.7976931348623157e308, 2.5, -3.75, 1 / 3])
    return rng.uniform(-1000, 1000)


def gen_dt(rng):
    y = rng.choice([1000, 1001, 1899, 1900, 1992, 1993, 1994, 1999, 2000, 2004, 2024, 2092, 2093, 2100, 9999,
                    rng.randrange(1000, 10000), rng.randrange(1000, 10000)])
    mo = rng.randrange(1, 13)
    dim = [31, 29 if (y % 4 == 0 and y % 100 != 0) or y % 400 == 0 else 28, 31, 30, 31, 30, 31, 31, 30, 31, 30, 31][mo - 1]
    d = rng.choice([1, dim, rng.randrange(1, dim + 1)])
    if rng.random() < 0.4:
        H = M = S = 0
    else:
        H = rng.choice([0, 23, rng.randrange(24)])
        M = rng.choice([0, 59, rng.randrange(60)])
        S = rng.choice([0, 59, rng.randrange(60)])
    return [y, mo, d, H, M, S]


MONTHS = ["jan", "feb", "mar", "apr", "may", "jun", "jul", "aug", "sep", "oct", "nov", "dec"]


def case_variants(name):
    """all 8 upper/lower-case variants of a three-letter month name"""
    out = []
    for mask in range(8):
        out.append("".join(c.upper() if mask >> i & 1 else c for i, c in enumerate(name)))
    return out


def spellings(dt, rng):
    """documented spellings of the instant `dt` together with the instant they denote.

    Exactly the family of lean/Verif/C08/Spelling.lean (theorem `spellings_agree`): order D-M-Y or
    YYYY-M-D; day str(d) / zero-padded / absent; month str(mo) / zero-padded / the name in all 8 letter
    cases; year 4 digits, or 2 digits in D-M-Y order for 1993..2092; time absent, HH:MM or HH:MM:SS, bare
    or parenthesised, after 1, 2 or (random) 3..6 spaces.
    """
    y, mo, d, H, M, S = dt
    out = []
    seen = set()

    def add(text, inst):
        if text not in seen:
            seen.add(text)
            out.append((text, inst))
    mons = [str(mo), "%02d" % mo] + case_variants(MONTHS[mo - 1])
    days = [str(d), "%02d" % d]
    years4 = ["%04d" % y]
    years = list(years4)
    if 1993 <= y <= 2092:
        years.append("%02d" % (y % 100))
    times = [("", (0, 0, 0))]
    for body, val in (("%02d:%02d" % (H, M), (H, M, 0)), ("%02d:%02d:%02d" % (H, M, S), (H, M, S))):
        for paren in (False, True):
            clock = "(%s)" % body if paren else body
            for gap in (1, 2, rng.randrange(3, 7)):
                times.append((" " * gap + clock, val))
    for mon in mons:
        for t, (h, m_, s) in times:
            for yy in years:
                for dd in days:
                    add("%s-%s-%s%s" % (dd, mon, yy, t), [y, mo, d, h, m_, s])
                add("%s-%s%s" % (mon, yy, t), [y, mo, 1, h, m_, s])
            for yy in years4:
                for dd in days:
                    add("%s-%s-%s%s" % (yy, mon, dd, t), [y, mo, d, h, m_, s])
                add("%s-%s%s" % (yy, mon, t), [y, mo, 1, h, m_, s])
    return out


def py_val(v):
    """JSON value → Python value"""
    if v is None:
        return None
    if "int" in v:
        return int(v["int"])
    if "str" in v:
        return uncps(v["str"])
    if "date" in v:
        return datetime.datetime(*v["date"])
    if "float" in v:
        return struct.unpack("<d", struct.pack("<Q", v["float"]))[0]
    raise ValueError(v)


def j_val(x):
    """Python value (as cast returns) → JSON in the driver's shape"""
    if x is None:
        return None
    if isinstance(x, bool):
        raise TypeError
    if isinstance(x, int):
        return {"int": str(x)}
    if isinstance(x, str):
        return {"str": cps(x)}
    if isinstance(x, datetime.datetime):
        return {"date": [x.year, x.month, x.day, x.hour, x.minute, x.second]}
    if isinstance(x, float):
        return {"float": struct.unpack("<Q", struct.pack("<d", x))[0]}
    raise TypeError(type(x))


def do_cast(dt, s):
    try:
        with warnings.catch_warnings():
            warnings.simplefilter("ignore")
            return j_val(tsdb.cast(dt, s))
    except tsdb.TSDBError:
        return {"err": "TSDBError"}
    except ValueError:
        return {"err": "ValueError"}
    except KeyError:
        return {"err": "KeyError"}


def well_escaped(t):
    i = 0
    while i < len(t):
        if t[i] == "\\":
            if i + 1 >= len(t) or t[i + 1] not in "\\sn":
                return False
            i += 2
        else:
            i += 1
    return True


def gen_row(rng):
    n = rng.randrange(1, 6)
    types, names, vals = [], [], []
    for i in range(n):
        t = rng.choice([":integer", ":string", ":date", ":string"])
        types.append(t)
        names.append(rng.choice(["i-id", "i-input", "i-date", "a", "b", "c%d" % i]))
        r = rng.random()
        if r < 0.2:
            vals.append(None)
        elif t == ":integer":
            vals.append({"int": str(gen_int(rng))})
        elif t == ":string":
            vals.append({"str": cps(gen_string(rng, 5))})
        else:
            vals.append({"date": gen_dt(rng)})
    k = rng.random()
    ri = lambda: rng.choice([None, None] + list(range(-n - 2, n + 3)))
    if k < 0.15:
        q = {"kind": "iter"}
    elif k < 0.25:
        q = {"kind": "data"}
    elif k < 0.5:
        q = {"kind": "idx", "i": rng.randrange(-n - 2, n + 2)}
    elif k < 0.7:
        q = {"kind": "name", "k": cps(rng.choice(names + ["zz"]))}
    else:
        q = {"kind": "slice", "start": ri(), "stop": ri(), "step": rng.choice([None, None, 1, 2, -1, -2, 3, -3])}
    return {"kind": "row", "op": "row", "types": types, "names": [cps(x) for x in names], "vals": vals, "q": q}


CODED = {"i-wf": "1", "i-difficulty": "1", "polarity": "-1"}   # the documented coded attributes, restated
FIELD_NAMES = ["i-id", "i-input", "i-date", "i-wf", "i-difficulty", "polarity", "a", "b"]
DTYPES = [":integer", ":string", ":date"]


def jfields(fields):
    return [{"name": cps(n), "dt": t} for n, t in fields]


def gen_fitting(rng, t):
    if t == ":integer":
        return {"int": str(gen_int(rng))}
    if t == ":string":
        return {"str": cps(gen_string(rng, 5))}
    return {"date": gen_dt(rng)}


def gen_typed(rng):
    """typed join / split: column counts right and wrong, None in every datatype with and without a coded
    default, values whose Python type does not fit the column, the empty field list (untyped branch)."""
    n = rng.choice([0, 1, 1, 2, 3, 3, 4, 5])
    fields = [(rng.choice(FIELD_NAMES), rng.choice(DTYPES)) for _ in range(n)]
    m = n if rng.random() < 0.75 else max(0, n + rng.choice([-2, -1, 1, 2]))
    vals = []
    for i in range(m):
        t = fields[i][1] if i < n else rng.choice(DTYPES)
        r = rng.random()
        if r < 0.25:
            vals.append(None)
        elif r < 0.9:
            vals.append(gen_fitting(rng, t))
        else:
            vals.append(gen_fitting(rng, rng.choice(DTYPES)))
    if rng.random() < 0.5:
        return {"kind": "tjoin", "op": "tjoin", "fields": jfields(fields), "vals": vals}
    # a line: the encoding of such values (possibly another column count), sometimes damaged, sometimes arbitrary
    r = rng.random()
    if r < 0.6:
        cols = []
        for i, v in enumerate(vals):
            pv = py_val(v)
            if pv is None:
                cols.append(rng.choice(["", "-1", "1"]))
            elif isinstance(pv, datetime.datetime):
                cols.append(tsdb.format(":date", pv))
            else:
                cols.append(tsdb.escape(str(pv)))
        line = "@".join(cols)
        if rng.random() < 0.3 and line:
            i = rng.randrange(len(line))
            line = line[:i] + rng.choice(["@", "\\", "\\x", "", "1", "\x1f", " "]) + line[i + 1:]
    elif r < 0.8:
        cols = []
        for i in range(m):
            cols.append(rng.choice(["", "", "1", "-1", "1_0", " 7", "x", "\\s", "1-2-2003", "apr-95 10:51", "2002-06",
                                    "32-1-2000", "1-foo-2000", "\x1f", "today"]) if rng.random() < 0.7
                        else tsdb.escape(gen_string(rng, 4)))
        line = "@".join(cols)
    else:
        line = gen_string(rng, 8)
    line += rng.choice(["", "", "\n"])
    return {"kind": "tsplit", "op": "tsplit", "fields": jfields(fields), "s": cps(line)}


def fixed_cases():
    """batteries that are in every run (inputs on which seeded changes were missed at first)."""
    out = []
    bs = "\\"
    # unescape: runs of backslashes at the end (odd >= 3 = invalid, even = valid), backslash before a raw newline
    for pre in ("", "a", "s", "n", "@", "\\s"):
        for k in (1, 2, 3, 4, 5, 6, 7, 9):
            out.append({"kind": "unescape", "op": "unescape", "s": cps(pre + bs * k)})
            out.append({"kind": "split", "op": "split", "s": cps(pre + bs * k)})
            out.append({"kind": "split", "op": "split", "s": cps(pre + bs * k + "\n")})
    for t in ("a\\\nb", "\\\n", "\\\nx", "ab\\\n\\n", "\\\n\\\n", "x\\\n@y", "\\\\\n", "\\\\\\\nz", "\\\r", "\\\x1f"):
        out.append({"kind": "unescape", "op": "unescape", "s": cps(t)})
        out.append({"kind": "split", "op": "split", "s": cps(t)})
        out.append({"kind": "escape", "op": "escape", "s": cps(t)})
    # U+001F (and its neighbours) inside values, through every operation
    for t in ("\x1f", "a\x1fb", "\x1f@", "\\\x1f", "\x1c\x1d\x1e\x1f", "\x1f\n", "1\x1f", "\x1f1"):
        out.append({"kind": "escape", "op": "escape", "s": cps(t)})
        out.append({"kind": "unescape", "op": "unescape", "s": cps(t)})
        out.append({"kind": "split", "op": "split", "s": cps(t)})
        out.append({"kind": "join", "op": "join", "vs": [cps(t), None, cps(t)]})
        out.append({"kind": "str", "op": "format", "dt": ":string", "v": {"str": cps(t)}})
        out.append({"kind": "castint", "op": "cast", "dt": ":integer", "s": cps(t)})
        out.append({"kind": "castdate", "op": "cast", "dt": ":date", "s": cps(t)})
        out.append({"kind": "tjoin", "op": "tjoin", "fields": jfields([("a", ":string"), ("i-id", ":integer")]),
                    "vals": [{"str": cps(t)}, None]})
        out.append({"kind": "tsplit", "op": "tsplit", "fields": jfields([("a", ":string"), ("i-id", ":integer")]),
                    "s": cps(t + "@5")})
    # int() spellings
    for t in ("1_0", "1__0", "_1", "1_", "+1_0", "0_7", "1_000_000", "-_1", "+_1", "1_a", " 1", "1 ", "\t1\n", " -1_2 ",
              "\x1f1", "1\x1f", "\x1c1", "- 1", "+-1", "--1", "1\x0b", "\x0c1", "\r1\r", " ", "\n", "+", "-", " + 1",
              "1 2", "0x10", "-0", "+0", "007", "-007", "1\x00", "\x001", "1.0", "1e3", "a", "٣", "\xa01", "1 ",
              "१_२", "1\x85", "９"):
        out.append({"kind": "castint", "op": "cast", "dt": ":integer", "s": cps(t)})
    # dates: day-less numeric months, \s separators, today/now, nothing matching, trailing text
    for text, inst in (("6-2002", [2002, 6, 1, 0, 0, 0]), ("06-2002", [2002, 6, 1, 0, 0, 0]),
                       ("2002-06", [2002, 6, 1, 0, 0, 0]), ("2002-6", [2002, 6, 1, 0, 0, 0]),
                       ("4-95 10:51", [1995, 4, 1, 10, 51, 0]), ("4-95", [1995, 4, 1, 0, 0, 0]),
                       ("12-02", [2002, 12, 1, 0, 0, 0]), ("10-12", [2012, 10, 1, 0, 0, 0]),
                       ("2002-06 10:51:09", [2002, 6, 1, 10, 51, 9]), ("6-2002 (10:51)", [2002, 6, 1, 10, 51, 0]),
                       ("04-1995  (10:51:09)", [1995, 4, 1, 10, 51, 9]), ("2002-12 (23:59)", [2002, 12, 1, 23, 59, 0]),
                       ("1-1-2001 00:00:05", [2001, 1, 1, 0, 0, 5]), ("1-jan-2001 00:07:00", [2001, 1, 1, 0, 7, 0]),
                       ("10-6-2002", [2002, 6, 10, 0, 0, 0]), ("8-sep-1999", [1999, 9, 8, 0, 0, 0]),
                       ("apr-95", [1995, 4, 1, 0, 0, 0]), ("01-dec-02 (15:31:01)", [2002, 12, 1, 15, 31, 1]),
                       ("2008-10-12 10:51", [2008, 10, 12, 10, 51, 0])):
        out.append({"kind": "spelling", "op": "cast", "dt": ":date", "s": cps(text), "denotes": inst})
    for t in ("1-2-2003\x1f10:51", "2003-1-2\x1c(10:51:02)", "1-2-2003\x1d\x1e 10:51", "1-2-2003\t\n\r\x0b\x0c10:51",
              "1-2-2003\x8510:51", "1-2-2003\xa010:51", "today", ":today", "now", ":now x", "now-95", "today-12-2002",
              "tod", "1", "x", "-", "2003", "2003-", "1-2-2003xyz", "1-2-20034", "1-2-200", "1-2-3", "31-2-2003",
              "1-13-2003", "1-foo-2003", "1-2-2003 24:00", "1-2-2003 10:60", "1-2-2003 10:51:60", "1-2-2003 1:51",
              "0-1-2003", "1-0-2003", "29-2-1900", "29-2-2000", "1-2-0000", "0000-1-1", "1-2-93", "1-2-92"):
        out.append({"kind": "castdate", "op": "cast", "dt": ":date", "s": cps(t)})
    # datetimes whose time is 00:00:SS / 00:MM:00 / HH:00:00 (only (0,0,0) drops the time part)
    for hms in ((0, 0, 1), (0, 0, 59), (0, 1, 0), (0, 59, 0), (1, 0, 0), (23, 0, 0), (0, 0, 0), (0, 59, 59)):
        for ymd in ((2001, 1, 1), (1999, 12, 31)):
            out.append({"kind": "date", "op": "format", "dt": ":date", "v": {"date": list(ymd) + list(hms)}})
    # rows: negative / reversed slices, None and '' in :string (and the other) columns by every access path
    types = [":integer", ":string", ":date", ":string", ":string"]
    names = ["i-id", "i-input", "i-date", "i-input", "b"]       # a repeated name: the last one wins
    for vals in ([{"int": "7"}, {"str": cps("x@y")}, {"date": [2001, 1, 1, 0, 0, 5]}, {"str": cps("\x1f")},
                  {"str": cps("z")}],
                 [None, None, None, None, None],
                 [{"int": "-1"}, {"str": []}, None, {"str": []}, None],
                 [None, {"str": cps("a")}, {"date": [1999, 9, 8, 0, 0, 0]}, None, {"str": []}]):
        qs = [{"kind": "iter"}, {"kind": "data"}]
        qs += [{"kind": "idx", "i": i} for i in range(-7, 7)]
        qs += [{"kind": "name", "k": cps(k)} for k in ("i-id", "i-input", "i-date", "b", "zz", "")]
        for start in (None, -6, -5, -2, -1, 0, 2, 5):
            for stop in (None, -6, -3, -1, 0, 3, 6):
                for step in (None, 1, 2, -1, -2, -5):
                    qs.append({"kind": "slice", "start": start, "stop": stop, "step": step})
        qs.append({"kind": "slice", "start": None, "stop": None, "step": 0})
        for q in qs:
            out.append({"kind": "row", "op": "row", "types": types, "names": [cps(x) for x in names], "vals": vals,
                        "q": q})
    # typed join / split: every datatype x {None, fitting value} x {plain name, coded name}; wrong column counts
    for name in ("a", "i-wf", "i-difficulty", "polarity"):
        for t in DTYPES:
            f = [(name, t)]
            fit = {":integer": {"int": "5"}, ":string": {"str": cps("v@\n\\")},
                   ":date": {"date": [2001, 1, 1, 0, 0, 5]}}[t]
            for vals in ([None], [fit], [{"str": []}], [], [None, None], [fit, fit]):
                out.append({"kind": "tjoin", "op": "tjoin", "fields": jfields(f), "vals": vals})
            for line in ("", "\n", "5", "x", "-1", "1", "@", "5@", "@@", "1-1-2001", "\\", "\\x@", "a@b@c"):
                out.append({"kind": "tsplit", "op": "tsplit", "fields": jfields(f), "s": cps(line)})
    f3 = [("i-id", ":integer"), ("i-input", ":string"), ("i-date", ":date")]
    for vals in ([{"int": "1"}, {"str": cps("a")}, {"date": [2001, 1, 1, 0, 0, 0]}], [None, None, None],
                 [{"int": "1"}, {"str": cps("a")}], [{"int": "1"}, {"str": cps("a")}, None, None], [],
                 [{"str": cps("a")}, {"int": "1"}, {"int": "3"}], [{"date": [2001, 1, 1, 1, 2, 3]}] * 3):
        out.append({"kind": "tjoin", "op": "tjoin", "fields": jfields(f3), "vals": vals})
        out.append({"kind": "tjoin", "op": "tjoin", "fields": [], "vals": vals})
    for line in ("1@a@1-1-2001", "1@a@1-1-2001\n", "@@", "@@\n", "1@a", "1@a@1-1-2001@", "x@a@b", "1@a@32-1-2001",
                 "1@a@1-foo-2001", "x@\\x@", "\\@@", "1_0@ @2001-06", "", "\n", "\n\n", "1@a@b\n\n"):
        out.append({"kind": "tsplit", "op": "tsplit", "fields": jfields(f3), "s": cps(line)})
        out.append({"kind": "tsplit", "op": "tsplit", "fields": [], "s": cps(line)})
    return out


class C08(Check):
    pid = "C08"
    quick_cases = 6000
    thorough_cases = 150000
    rule = ("fixed batteries in every run (backslash runs 1-9 at the end of a value, backslash before a raw newline, "
            "U+001C-001F inside values through every operation, int() spellings with blanks/underscores/signs, "
            "day-less numeric-month dates, \\s separators, today/now, times 00:00:SS, rows with a repeated name and "
            "None/'' in every column by every index -7..6, every name, 337 slices incl. negative and reversed, "
            "iteration; typed join/split for every datatype x {None, fitting, ''} x {plain, coded-attribute name} and "
            "wrong column counts); then strings over an alphabet weighted towards \\ @ s n LF CR U+001F NEL NUL plus "
            "arbitrary Unicode (exhaustive over {\\,@,s,n,LF,a} up to length 4 quick / 5 thorough); records of 1-6 "
            "values or None; integers incl. huge/negative; int() texts over digits _ + - blank TAB LF VT U+001F a NBSP; "
            "finite floats from random bit patterns; date-times 1000-9999 in every documented spelling (the proved "
            "family of Spelling.lean); typed records of 0-5 fields with right/wrong counts and fitting/non-fitting "
            "values; rows addressed by index, slice, name, iteration. A case is non-trivial if its input is "
            "non-empty; distinct by its JSON text.")
    assumptions = [
        "float clause is decided by the direct oracle only (CPython repr is not modelled)",
        "int() and date casts of text containing a non-ASCII character (Unicode blanks/digits, \\w \\s \\d of the "
        "regexes) and dates starting with today/now are answered 'unmodelled' and not compared: counted in "
        "coverage.tie as unmodelled:<kind>",
        ":float columns are not part of the typed split/join model",
    ]
    trusted_base = ["hand-written model lean/Verif/C08/Model.lean, tied to delphin.tsdb/itsdb by the correspondence run",
                    "generated tables tsdbEscapes, fieldDelimiter, monthNames, monthNumbers read from the live module",
                    "source translator harness/common/py2lean.py + lean/Verif/Common/PyRt.lean (TRANSLATOR.md) for the "
                    "*_translated theorems (escape, unescape, untyped split/join)"]

    props_modules = ["Verif.C08.Props", "Verif.C08.Translated"]

    def translation_specs(self):
        from .common import py2lean as P
        raw = P.Lst(P.Opt(P.STR))
        return [
            P.Spec(tsdb.escape, "escape", [("string", P.STR)], P.STR),
            P.Spec(tsdb.unescape, "unescape", [("string", P.STR)], P.STR),
            P.Spec(tsdb.split, "split", [("line", P.STR)], raw, fixed={"fields": None}),
            P.Spec(tsdb.join, "join", [("values", raw)], P.STR, fixed={"fields": None}),
        ]

    def translations(self):
        """Source translation (harness/common/py2lean.py, TRANSLATOR.md): the current source text of these functions
        becomes lean/Verif/Generated/TransC08.lean; lean/Verif/C08/Translated.lean proves each equal to the model's."""
        from .common import py2lean as P
        return P.translate_module(self.translation_specs(), "Verif.Trans.C08")

    def tables(self):
        """Pins: the string/number constants of the anchored functions that the hand-written model mirrors
        (regex patterns, strptime format, year-window constants, escape characters), read from the code objects."""
        from .common import tables as T

        import re as _re

        def strs(fn):
            out = []
            for c in fn.__code__.co_consts:
                if not isinstance(c, str) or c == (fn.__doc__ or None) or c.lower().startswith("invalid"):
                    continue        # docstrings and message texts are not pinned
                if "(?P<" in c:
                    c = _re.sub(r"\s+", "", c)   # re.VERBOSE patterns: layout is irrelevant
                out.append(c)
            return out
        pd = strs(tsdb._parse_datetime)
        df = [c for c in tsdb._date_fix.__code__.co_consts if isinstance(c, (str, int)) and not isinstance(c, bool)]
        fm = [c for c in tsdb.format.__code__.co_consts if isinstance(c, str) and c != tsdb.format.__doc__]
        lit = T.lean_strlit
        return [
            "def c08ParseDatetimeConsts : List String := [%s]" % ", ".join(lit(c) for c in pd),
            "def c08DateFixConsts : List String := [%s]" % ", ".join(lit(str(c)) for c in df),
            "def c08FormatConsts : List String := [%s]" % ", ".join(lit(c) for c in fm),
            # escape/unescape are no longer pinned by their constants: their whole source text is translated to Lean
            # on every run and proved equal to the model (Verif/C08/Translated.lean), which subsumes the constants and
            # does not fire on a harmless reordering of disjoint tests.
        ]

    def cases(self, rng, tier, n):
        yield from fixed_cases()
        L = 4 if tier == "quick" else 5
        alpha = ["\\", "@", "s", "n", "\n", "a"]
        exh = []
        for k in range(0, L + 1):
            for tup in itertools.product(alpha, repeat=k):
                exh.append("".join(tup))
        for s in exh:
            yield {"kind": "escape", "op": "escape", "s": cps(s)}
            yield {"kind": "unescape", "op": "unescape", "s": cps(s)}
        for s in exh[:: (1 if tier == "thorough" else 3)]:
            yield {"kind": "split", "op": "split", "s": cps(s)}
        # every documented spelling of the boundary instants and of a few random ones
        instants = [[1993, 1, 1, 0, 0, 0], [2092, 12, 31, 23, 59, 59], [2000, 2, 29, 12, 0, 0],
                    [1999, 9, 8, 7, 5, 9], [1000, 10, 10, 10, 10, 10], [9999, 12, 31, 0, 0, 1],
                    [2001, 6, 1, 0, 0, 5]]
        instants += [gen_dt(rng) for _ in range(3 if tier == "quick" else 40)]
        for dt in instants:
            for text, inst in spellings(dt, rng):
                yield {"kind": "spelling", "op": "cast", "dt": ":date", "s": cps(text), "denotes": inst}
        yield from self.random_cases(rng, n)

    def random_cases(self, rng, n, kinds=None):
        bounds = {"escape": (0, .12), "unescape": (.12, .24), "split": (.24, .34), "join": (.34, .5),
                  "int": (.5, .58), "castint": (.58, .64), "float": (.64, .70), "date": (.70, .78),
                  "castdate": (.78, .86), "str": (.86, .89), "row": (.89, .95),
                  "typed": (.95, 1.0)}
        for _ in range(n):
            r = rng.random()
            if kinds:
                lo, hi = bounds[rng.choice(kinds)]
                r = lo + (hi - lo) * rng.random() * 0.999
            if r < 0.12:
                yield {"kind": "escape", "op": "escape", "s": cps(gen_string(rng, 12))}
            elif r < 0.24:
                yield {"kind": "unescape", "op": "unescape", "s": cps(gen_string(rng, 12))}
            elif r < 0.34:
                s = gen_string(rng, 10) + rng.choice(["", "\n", "\n\n", "@", "@\n"])
                yield {"kind": "split", "op": "split", "s": cps(s)}
            elif r < 0.5:
                k = rng.randrange(1, 7)
                vs = [None if rng.random() < 0.2 else cps(gen_string(rng, 6)) for _ in range(k)]
                yield {"kind": "join", "op": "join", "vs": vs}
            elif r < 0.58:
                yield {"kind": "int", "op": "format", "dt": ":integer", "v": {"int": str(gen_int(rng))}}
            elif r < 0.64:
                s = rng.choice(["", "+", "-", "+5", "-0", "007", "1_0", " 1", "1 ", "a", "1a", "--1", "٣", "1.0", "1e3"]
                               + [str(gen_int(rng))] * 3
                               + ["".join(rng.choice("0123456789012_+- \t\n\x0b\x1fa\xa0")
                                          for _ in range(rng.randrange(1, 7)))] * 6)
                yield {"kind": "castint", "op": "cast", "dt": ":integer", "s": cps(s)}
            elif r < 0.70:
                yield {"kind": "float", "v": {"float": struct.unpack("<Q", struct.pack("<d", gen_float(rng)))[0]}}
            elif r < 0.78:
                yield {"kind": "date", "op": "format", "dt": ":date", "v": {"date": gen_dt(rng)}}
            elif r < 0.86:
                # random date-like text (mostly invalid) for the parseDate correspondence
                if rng.random() < 0.5:
                    text, _ = rng.choice(spellings(gen_dt(rng), rng))
                    t = list(text)
                    for _ in range(rng.randrange(0, 3)):
                        i = rng.randrange(len(t) + 1)
                        op = rng.random()
                        if op < 0.4 and t:
                            t[min(i, len(t) - 1)] = rng.choice(DATE_ALPHA)
                        elif op < 0.7:
                            t.insert(i, rng.choice(DATE_ALPHA))
                        elif t:
                            del t[min(i, len(t) - 1)]
                    text = "".join(t)
                    if rng.random() < 0.1:
                        text = text.replace(" ", rng.choice(["\x1f", "\t", "\x1c ", "\n", "\x85"]))
                else:
                    text = "".join(rng.choice(DATE_ALPHA) for _ in range(rng.randrange(1, 14)))
                yield {"kind": "castdate", "op": "cast", "dt": ":date", "s": cps(text)}
            elif r < 0.89:
                yield {"kind": "str", "op": "format", "dt": ":string", "v": {"str": cps(gen_string(rng, 8))}}
            elif r < 0.95:
                yield gen_row(rng)
            else:
                yield gen_typed(rng)

    def search_cases(self, rng, tier, n, seeds):
        # every one-character escape: a newly accepted (or newly rejected) escape letter has a two-character witness
        for cp in range(0, 128):
            yield {"kind": "unescape", "op": "unescape", "s": cps("\\" + chr(cp))}
        kinds = sorted({c["kind"] for c in seeds if c["kind"] in
                        ("escape", "unescape", "split", "join", "int", "castint", "float", "date", "castdate",
                         "str", "row")})
        if any(c["kind"] in ("tjoin", "tsplit") for c in seeds):
            kinds = sorted(set(kinds) | {"typed", "join", "split"})
        if any(c["kind"] in ("castdate", "spelling", "date") for c in seeds):
            kinds = sorted(set(kinds) | {"date", "castdate"})
            for y in (1992, 1993, 1994, 2091, 2092, 2093, 2000, 1900, 1000, 9999):
                for (mo, d) in ((1, 1), (12, 31), (2, 28), (9, 8)):
                    for text, inst in spellings([y, mo, d, 23, 59, 58], rng):
                        yield {"kind": "spelling", "op": "cast", "dt": ":date", "s": cps(text), "denotes": inst}
        yield from self.random_cases(rng, n, kinds or None)

    # ---- implementation
    def impl(self, case):
        k = case["kind"]
        if k == "escape":
            return cps(tsdb.escape(uncps(case["s"])))
        if k == "unescape":
            try:
                return {"ok": cps(tsdb.unescape(uncps(case["s"])))}
            except tsdb.TSDBError:
                return {"err": "TSDBError"}
        if k == "split":
            try:
                return {"ok": [None if v is None else cps(v) for v in tsdb.split(uncps(case["s"]))]}
            except tsdb.TSDBError:
                return {"err": "TSDBError"}
        if k == "join":
            vs = [None if v is None else uncps(v) for v in case["vs"]]
            return cps(tsdb.join(vs))
        if k in ("int", "date", "str"):
            return cps(tsdb.format(case["dt"], py_val(case["v"])))
        if k in ("castint", "castdate", "spelling"):
            r = do_cast(case["dt"], uncps(case["s"]))
            if case["dt"] == ":date" and re.match(r":?(today|now)", uncps(case["s"])) and isinstance(r, dict) \
                    and "date" in r:
                return {"now": True}      # the current time: not a function of the input
            return r
        if k == "tjoin":
            fields = [tsdb.Field(uncps(f["name"]), f["dt"]) for f in case["fields"]]
            try:
                return {"ok": cps(tsdb.join([py_val(v) for v in case["vals"]], fields))}
            except tsdb.TSDBError:
                return {"err": "TSDBError"}
        if k == "tsplit":
            fields = [tsdb.Field(uncps(f["name"]), f["dt"]) for f in case["fields"]]
            try:
                with warnings.catch_warnings():
                    warnings.simplefilter("ignore")
                    rec = tsdb.split(uncps(case["s"]), fields)
                if any(isinstance(x, datetime.datetime) and x.microsecond for x in rec):
                    return {"now": True}
                return {"ok": [j_val(x) for x in rec]}
            except tsdb.TSDBError:
                return {"err": "TSDBError"}
            except ValueError:
                return {"err": "ValueError"}
            except KeyError:
                return {"err": "KeyError"}
        if k == "float":
            x = py_val(case["v"])
            return cps(tsdb.format(":float", x))
        if k == "row":
            fields = [tsdb.Field(uncps(nm), t) for nm, t in zip(case["names"], case["types"])]
            row = itsdb.Row(fields, [py_val(v) for v in case["vals"]])
            q = case["q"]

            def jc(f):
                try:
                    with warnings.catch_warnings():
                        warnings.simplefilter("ignore")
                        return f()
                except IndexError:
                    return {"err": "IndexError"}
                except KeyError:
                    return {"err": "KeyError"}
                except ValueError:
                    return {"err": "ValueError"}
            if q["kind"] == "iter":
                return jc(lambda: [j_val(x) for x in row])
            if q["kind"] == "data":
                return [cps(x) for x in row.data]
            if q["kind"] == "idx":
                return jc(lambda: j_val(row[q["i"]]))
            if q["kind"] == "name":
                return jc(lambda: j_val(row[uncps(q["k"])]))
            if q["kind"] == "slice":
                return jc(lambda: [j_val(x) for x in row[slice(q["start"], q["stop"], q["step"])]])
        raise ValueError(k)

    def setup(self):
        self.tie = {}

    def _count(self, key):
        self.tie[key] = self.tie.get(key, 0) + 1

    def model_request(self, case):
        if case["kind"] == "float":
            self._count("no-request:float")
            return None
        return {k: v for k, v in case.items() if k not in ("kind", "denotes")}

    def model_compare(self, case, expected, answer):
        kind = case["kind"] + (":" + case["q"]["kind"] if case["kind"] == "row" else "")
        unmod = (isinstance(answer, dict) and answer.get("err") == "unmodelled") or \
                (isinstance(answer, list) and any(isinstance(a, dict) and a.get("err") == "unmodelled" for a in answer))
        if unmod:
            # the model declines: counted per kind together with what the implementation did there
            self._count("unmodelled:" + kind)
            what = expected.get("err", "value") if isinstance(expected, dict) and "err" in expected else \
                ("now" if isinstance(expected, dict) and "now" in expected else "value")
            self._count("unmodelled:%s:impl=%s" % (kind, what))
            return None
        self._count("compared")
        self._count("compared:" + kind)
        return super().model_compare(case, expected, answer)

    def extra_evidence(self):
        tie = dict(sorted(getattr(self, "tie", {}).items()))
        return {"tie": tie,
                "tie_note": "compared = model answer compared with the implementation's; unmodelled:<kind> = the model "
                            "answered 'unmodelled' (non-ASCII text in int()/date casts, today/now) and nothing was "
                            "compared; no-request:<kind> = no model request exists (float: direct oracle only)"}

    # ---- direct oracle
    def oracle(self, case, res):
        k = case["kind"]
        fails = []

        def fail(clause, detail):
            fails.append({"clause": clause, "detail": detail})
        if k == "escape":
            s = uncps(case["s"])
            e = uncps(res)
            if "\n" in e or "@" in e:
                fail("escape output contains a raw newline or delimiter", repr(e))
            try:
                if tsdb.unescape(e) != s:
                    fail("unescape(escape(s)) != s", repr((s, e, tsdb.unescape(e))))
            except tsdb.TSDBError as ex:
                fail("unescape(escape(s)) raises", repr((s, e, str(ex))))
        elif k == "unescape":
            t = uncps(case["s"])
            we = well_escaped(t)
            if "ok" in res:
                if not we:
                    fail("unescape accepts a malformed escape", repr(t))
                r = uncps(res["ok"])
                if "\n" not in t and "@" not in t and tsdb.escape(r) != t:
                    fail("escape(unescape(t)) != t on the image of escape", repr((t, r)))
            else:
                if we:
                    fail("unescape rejects a well-formed string", repr(t))
        elif k == "split":
            pass   # split on arbitrary text: correspondence only (the property clause is split∘join)
        elif k == "join":
            vs = [None if v is None else uncps(v) for v in case["vs"]]
            line = uncps(res)
            if "\n" in line:
                fail("joined line contains a raw newline", repr(line))
            if line.count("@") != len(vs) - 1:
                fail("joined line does not have exactly one delimiter per column boundary", repr((vs, line)))
            want = tuple(None if v in (None, "") else v for v in vs)
            for suffix in ("", "\n"):
                try:
                    got = tsdb.split(line + suffix)
                except tsdb.TSDBError as ex:
                    fail("split(join(vs)) raises", repr((vs, line, str(ex))))
                    continue
                if tuple(got) != want:
                    fail("split(join(vs)) != vs", repr((vs, line, got)))
        elif k == "int":
            n = py_val(case["v"])
            back = tsdb.cast(":integer", uncps(res))
            if back != n or type(back) is not int:
                fail("cast(format(int)) != int", repr((n, uncps(res), back)))
        elif k == "str":
            s = py_val(case["v"])
            back = tsdb.cast(":string", uncps(res))
            if (back or "") != s:
                fail("cast(format(str)) != str", repr((s, back)))
        elif k == "float":
            x = py_val(case["v"])
            back = tsdb.cast(":float", uncps(res))
            if not (isinstance(back, float) and struct.pack("<d", back) == struct.pack("<d", x)):
                fail("cast(format(float)) != float", repr((x, uncps(res), back)))
        elif k == "date":
            d = py_val(case["v"])
            with warnings.catch_warnings():
                warnings.simplefilter("ignore")
                back = tsdb.cast(":date", uncps(res))
            if back != d:
                fail("cast(format(datetime)) != datetime", repr((d, uncps(res), back)))
        elif k == "spelling":
            want = {"date": case["denotes"]}
            if res != want:
                fail("a documented date spelling does not denote its instant",
                     repr((uncps(case["s"]), case["denotes"], res)))
        elif k == "tjoin":
            fields = [(uncps(f["name"]), f["dt"]) for f in case["fields"]]
            vals = [py_val(v) for v in case["vals"]]
            if fields and len(vals) != len(fields):
                if res != {"err": "TSDBError"}:
                    fail("typed join accepts a wrong number of values", repr((fields, vals, res)))
            elif "ok" not in res:
                fail("typed join rejects a record with the right number of values", repr((fields, vals, res)))
            else:
                line = uncps(res["ok"])
                if "\n" in line:
                    fail("joined line contains a raw newline", repr(line))
                if vals and line.count("@") != len(vals) - 1:
                    fail("joined line does not have exactly one delimiter per column boundary", repr((vals, line)))
                fits = all(v is None or (t == ":integer" and type(v) is int) or (t == ":string" and type(v) is str)
                           or (t == ":date" and isinstance(v, datetime.datetime)) for (_, t), v in zip(fields, vals))
                if fields and fits:
                    want = []
                    for (name, t), v in zip(fields, vals):
                        if v is None:
                            d = CODED.get(name, "-1" if t == ":integer" else "")
                            want.append(int(d) if t == ":integer" else (d or None) if t == ":string" else None)
                        else:
                            want.append(None if v == "" else v)
                    tf = [tsdb.Field(a_, b_) for a_, b_ in fields]
                    for suffix in ("", "\n"):
                        try:
                            with warnings.catch_warnings():
                                warnings.simplefilter("ignore")
                                got = tsdb.split(line + suffix, tf)
                        except Exception as ex:
                            fail("typed split(join(vals)) raises", repr((fields, vals, line, type(ex).__name__)))
                            continue
                        if list(got) != want or [type(x) for x in got] != [type(x) for x in want]:
                            fail("typed split(join(vals)) != vals up to the default for None",
                                 repr((fields, vals, line, got, want)))
        elif k == "tsplit":
            fields = case["fields"]
            line = uncps(case["s"])
            cols = line.rstrip("\n").split("@")
            if all(well_escaped(c) for c in cols):
                if fields and len(cols) != len(fields) and res != {"err": "TSDBError"}:
                    fail("typed split accepts a wrong number of columns", repr((fields, line, res)))
                if not fields and "ok" not in res:
                    fail("untyped split rejects a well-escaped line", repr((line, res)))
            elif res != {"err": "TSDBError"}:
                fail("typed split accepts a malformed escape", repr((line, res)))
        elif k == "row":
            # the row exposes exactly the cast of its stored raw data
            fields = [tsdb.Field(uncps(nm), t) for nm, t in zip(case["names"], case["types"])]
            vals = [py_val(v) for v in case["vals"]]
            raws = [tsdb.format(f.datatype, v) for f, v in zip(fields, vals)]

            def c(i):
                return do_cast(fields[i].datatype, raws[i])
            q = case["q"]
            n = len(fields)
            if q["kind"] == "iter":
                want = [c(i) for i in range(n)]
            elif q["kind"] == "data":
                want = [cps(r) for r in raws]
            elif q["kind"] == "idx":
                want = c(range(n)[q["i"]]) if -n <= q["i"] < n else {"err": "IndexError"}
            elif q["kind"] == "name":
                nm = uncps(q["k"])
                idxs = [i for i, f in enumerate(fields) if f.name == nm]
                want = c(idxs[-1]) if idxs else {"err": "KeyError"}
            else:
                if q["step"] == 0:
                    want = {"err": "ValueError"}
                else:
                    want = [c(i) for i in range(n)[slice(q["start"], q["stop"], q["step"])]]
            if isinstance(want, list) and any(isinstance(w, dict) and "err" in w for w in want):
                want = next(w for w in want if isinstance(w, dict) and "err" in w)
            if res != want:
                fail("row access differs from the cast of its stored raw data", repr((q, want, res)))
        return fails

    def nontrivial_key(self, case, res):
        body = case.get("s") or case.get("vs") or case.get("v") or case.get("vals")
        if not body:
            return None
        return super().nontrivial_key(case, res)


CHECK = C08()
