"""C08 — TSDB record encoding: generators, implementation runner, direct oracle."""
import datetime
import itertools
import math
import struct
import warnings

from .common import paths
from .common.runner import Check

paths.ensure_repo_on_path()
from delphin import itsdb, tsdb  # noqa: E402


def cps(s):
    return [ord(c) for c in s]


def uncps(a):
    return "".join(chr(x) for x in a)


SPECIAL = ["\\", "@", "s", "n", "\n", "\r", "a", " ", "\\\\", "\\s", "\\n", "@@", "é", " ", "\U0001F600", "x"]
DATE_ALPHA = "0123456789-: ()abcdefgjlmnoprstuvyJSDX"


def gen_string(rng, maxlen=8):
    n = rng.choice([0, 1, 1, 2, 2, 3, 3, 4, 5, 6, maxlen])
    out = []
    for _ in range(n):
        r = rng.random()
        if r < 0.8:
            out.append(rng.choice(SPECIAL))
        else:
            cp = rng.choice([rng.randrange(32, 127), rng.randrange(0xA0, 0x800), rng.randrange(0x1F600, 0x1F640),
                             rng.randrange(0, 32)])
            out.append(chr(cp))
    return "".join(out)


def gen_int(rng):
    r = rng.random()
    if r < 0.3:
        return rng.randrange(-3, 12)
    if r < 0.6:
        return rng.randrange(-10**6, 10**6)
    if r < 0.8:
        return rng.choice([-1, 1]) * rng.randrange(10**18, 10**30)
    return rng.choice([0, -1, 9, 10, -10, 99, 100, 2**63, -2**63, 10**20])


def gen_float(rng):
    r = rng.random()
    if r < 0.5:
        while True:
            x = struct.unpack("<d", struct.pack("<Q", rng.getrandbits(64)))[0]
            if math.isfinite(x):
                return x
    if r < 0.8:
        return rng.choice([0.0, -0.0, 1.0, 0.1, 1e22, 1e-7, 5e-324, 1.7976931348623157e308, 2.5, -3.75, 1 / 3])
    return rng.uniform(-1000, 1000)


def gen_dt(rng):
    y = rng.choice([1000, 1001, 1899, 1900, 1992, 1993, 1994, 1999, 2000, 2004, 2024, 2092, 2093, 2100, 9999,
                    rng.randrange(1000, 10000), rng.randrange(1000, 10000)])
    mo = rng.randrange(1, 13)
    dim = [31, 29 if (y % 4 == 0 and y % 100 != 0) or y % 400 == 0 else 28, 31, 30, 31, 30, 31, 31, 30, 31, 30, 31][mo - 1]
    d = rng.choice([1, dim, rng.randrange(1, dim + 1)])
    if rng.random() < 0.4:
        H = M = S = 0
    else:
        H = rng.choice([0, 23, rng.randrange(24)])
        M = rng.choice([0, 59, rng.randrange(60)])
        S = rng.choice([0, 59, rng.randrange(60)])
    return [y, mo, d, H, M, S]


MONTHS = ["jan", "feb", "mar", "apr", "may", "jun", "jul", "aug", "sep", "oct", "nov", "dec"]


def case_variants(name):
    """all 8 upper/lower-case variants of a three-letter month name"""
    out = []
    for mask in range(8):
        out.append("".join(c.upper() if mask >> i & 1 else c for i, c in enumerate(name)))
    return out


def spellings(dt, rng):
    """documented spellings of the instant `dt` together with the instant they denote.

    Exactly the family of lean/Verif/C08/Spelling.lean (theorem `spellings_agree`): order D-M-Y or
    YYYY-M-D; day str(d) / zero-padded / absent; month str(mo) / zero-padded / the name in all 8 letter
    cases; year 4 digits, or 2 digits in D-M-Y order for 1993..2092; time absent, HH:MM or HH:MM:SS, bare
    or parenthesised, after 1, 2 or (random) 3..6 spaces.
    """
    y, mo, d, H, M, S = dt
    out = []
    seen = set()

    def add(text, inst):
        if text not in seen:
            seen.add(text)
            out.append((text, inst))
    mons = [str(mo), "%02d" % mo] + case_variants(MONTHS[mo - 1])
    days = [str(d), "%02d" % d]
    years4 = ["%04d" % y]
    years = list(years4)
    if 1993 <= y <= 2092:
        years.append("%02d" % (y % 100))
    times = [("", (0, 0, 0))]
    for body, val in (("%02d:%02d" % (H, M), (H, M, 0)), ("%02d:%02d:%02d" % (H, M, S), (H, M, S))):
        for paren in (False, True):
            clock = "(%s)" % body if paren else body
            for gap in (1, 2, rng.randrange(3, 7)):
                times.append((" " * gap + clock, val))
    for mon in mons:
        for t, (h, m_, s) in times:
            for yy in years:
                for dd in days:
                    add("%s-%s-%s%s" % (dd, mon, yy, t), [y, mo, d, h, m_, s])
                add("%s-%s%s" % (mon, yy, t), [y, mo, 1, h, m_, s])
            for yy in years4:
                for dd in days:
                    add("%s-%s-%s%s" % (yy, mon, dd, t), [y, mo, d, h, m_, s])
                add("%s-%s%s" % (yy, mon, t), [y, mo, 1, h, m_, s])
    return out


def py_val(v):
    """JSON value → Python value"""
    if v is None:
        return None
    if "int" in v:
        return int(v["int"])
    if "str" in v:
        return uncps(v["str"])
    if "date" in v:
        return datetime.datetime(*v["date"])
    if "float" in v:
        return struct.unpack("<d", struct.pack("<Q", v["float"]))[0]
    raise ValueError(v)


def j_val(x):
    """Python value (as cast returns) → JSON in the driver's shape"""
    if x is None:
        return None
    if isinstance(x, bool):
        raise TypeError
    if isinstance(x, int):
        return {"int": str(x)}
    if isinstance(x, str):
        return {"str": cps(x)}
    if isinstance(x, datetime.datetime):
        return {"date": [x.year, x.month, x.day, x.hour, x.minute, x.second]}
    if isinstance(x, float):
        return {"float": struct.unpack("<Q", struct.pack("<d", x))[0]}
    raise TypeError(type(x))


def do_cast(dt, s):
    try:
        with warnings.catch_warnings():
            warnings.simplefilter("ignore")
            return j_val(tsdb.cast(dt, s))
    except tsdb.TSDBError:
        return {"err": "TSDBError"}
    except ValueError:
        return {"err": "ValueError"}
    except KeyError:
        return {"err": "KeyError"}


def well_escaped(t):
    i = 0
    while i < len(t):
        if t[i] == "\\":
            if i + 1 >= len(t) or t[i + 1] not in "\\sn":
                return False
            i += 2
        else:
            i += 1
    return True


def gen_row(rng):
    n = rng.randrange(1, 6)
    types, names, vals = [], [], []
    for i in range(n):
        t = rng.choice([":integer", ":string", ":date", ":string"])
        types.append(t)
        names.append(rng.choice(["i-id", "i-input", "i-date", "a", "b", "c%d" % i]))
        r = rng.random()
        if r < 0.2:
            vals.append(None)
        elif t == ":integer":
            vals.append({"int": str(gen_int(rng))})
        elif t == ":string":
            vals.append({"str": cps(gen_string(rng, 5))})
        else:
            vals.append({"date": gen_dt(rng)})
    k = rng.random()
    ri = lambda: rng.choice([None, None] + list(range(-n - 2, n + 3)))
    if k < 0.15:
        q = {"kind": "iter"}
    elif k < 0.25:
        q = {"kind": "data"}
    elif k < 0.5:
        q = {"kind": "idx", "i": rng.randrange(-n - 2, n + 2)}
    elif k < 0.7:
        q = {"kind": "name", "k": cps(rng.choice(names + ["zz"]))}
    else:
        q = {"kind": "slice", "start": ri(), "stop": ri(), "step": rng.choice([None, None, 1, 2, -1, -2, 3, -3])}
    return {"kind": "row", "op": "row", "types": types, "names": [cps(x) for x in names], "vals": vals, "q": q}


class C08(Check):
    pid = "C08"
    quick_cases = 6000
    thorough_cases = 150000
    rule = ("strings over an alphabet weighted towards \\ @ s n LF CR plus arbitrary Unicode (exhaustive over "
            "{\\,@,s,n,LF,a} up to length 4 quick / 5 thorough); records of 1-6 values or None; integers incl. "
            "huge/negative; finite floats from random bit patterns; date-times 1000-9999 in every documented "
            "spelling; rows addressed by index, slice, name, iteration. A case is non-trivial if its input is "
            "non-empty; distinct by its JSON text.")
    assumptions = [
        "float clause is decided by the direct oracle only (CPython repr is not modelled)",
        "castInt models [+-]?[0-9]+; other int() spellings are answered 'unmodelled' and not compared",
        "date fields in generated cases are ASCII (\\w, \\s, \\d of the regexes on non-ASCII input are not modelled)",
    ]
    trusted_base = ["hand-written model lean/Verif/C08/Model.lean, tied to delphin.tsdb/itsdb by the correspondence run",
                    "generated tables tsdbEscapes, fieldDelimiter, monthNames, monthNumbers read from the live module"]

    def tables(self):
        """Pins: the string/number constants of the anchored functions that the hand-written model mirrors
        (regex patterns, strptime format, year-window constants, escape characters), read from the code objects."""
        from .common import tables as T

        import re as _re

        def strs(fn):
            out = []
            for c in fn.__code__.co_consts:
                if not isinstance(c, str) or c == (fn.__doc__ or None) or c.lower().startswith("invalid"):
                    continue        # docstrings and message texts are not pinned
                if "(?P<" in c:
                    c = _re.sub(r"\s+", "", c)   # re.VERBOSE patterns: layout is irrelevant
                out.append(c)
            return out
        pd = strs(tsdb._parse_datetime)
        df = [c for c in tsdb._date_fix.__code__.co_consts if isinstance(c, (str, int)) and not isinstance(c, bool)]
        fm = [c for c in tsdb.format.__code__.co_consts if isinstance(c, str) and c != tsdb.format.__doc__]
        lit = T.lean_strlit
        return [
            "def c08ParseDatetimeConsts : List String := [%s]" % ", ".join(lit(c) for c in pd),
            "def c08DateFixConsts : List String := [%s]" % ", ".join(lit(str(c)) for c in df),
            "def c08FormatConsts : List String := [%s]" % ", ".join(lit(c) for c in fm),
            "def c08EscapeConsts : List String := [%s]" % ", ".join(lit(c) for c in strs(tsdb.escape)),
            "def c08UnescapeConsts : List String := [%s]" % ", ".join(lit(c) for c in strs(tsdb.unescape)),
        ]

    def cases(self, rng, tier, n):
        L = 4 if tier == "quick" else 5
        alpha = ["\\", "@", "s", "n", "\n", "a"]
        exh = []
        for k in range(0, L + 1):
            for tup in itertools.product(alpha, repeat=k):
                exh.append("".join(tup))
        for s in exh:
            yield {"kind": "escape", "op": "escape", "s": cps(s)}
            yield {"kind": "unescape", "op": "unescape", "s": cps(s)}
        for s in exh[:: (1 if tier == "thorough" else 3)]:
            yield {"kind": "split", "op": "split", "s": cps(s)}
        # every documented spelling of the boundary instants and of a few random ones
        instants = [[1993, 1, 1, 0, 0, 0], [2092, 12, 31, 23, 59, 59], [2000, 2, 29, 12, 0, 0],
                    [1999, 9, 8, 7, 5, 9], [1000, 10, 10, 10, 10, 10], [9999, 12, 31, 0, 0, 1]]
        instants += [gen_dt(rng) for _ in range(3 if tier == "quick" else 40)]
        for dt in instants:
            for text, inst in spellings(dt, rng):
                yield {"kind": "spelling", "op": "cast", "dt": ":date", "s": cps(text), "denotes": inst}
        yield from self.random_cases(rng, n)

    def random_cases(self, rng, n, kinds=None):
        bounds = {"escape": (0, .12), "unescape": (.12, .24), "split": (.24, .34), "join": (.34, .5),
                  "int": (.5, .58), "castint": (.58, .64), "float": (.64, .70), "date": (.70, .78),
                  "castdate": (.78, .86), "str": (.86, .90), "row": (.90, 1.0)}
        for _ in range(n):
            r = rng.random()
            if kinds:
                lo, hi = bounds[rng.choice(kinds)]
                r = lo + (hi - lo) * rng.random() * 0.999
            if r < 0.12:
                yield {"kind": "escape", "op": "escape", "s": cps(gen_string(rng, 12))}
            elif r < 0.24:
                yield {"kind": "unescape", "op": "unescape", "s": cps(gen_string(rng, 12))}
            elif r < 0.34:
                s = gen_string(rng, 10) + rng.choice(["", "\n", "\n\n", "@", "@\n"])
                yield {"kind": "split", "op": "split", "s": cps(s)}
            elif r < 0.5:
                k = rng.randrange(1, 7)
                vs = [None if rng.random() < 0.2 else cps(gen_string(rng, 6)) for _ in range(k)]
                yield {"kind": "join", "op": "join", "vs": vs}
            elif r < 0.58:
                yield {"kind": "int", "op": "format", "dt": ":integer", "v": {"int": str(gen_int(rng))}}
            elif r < 0.64:
                s = rng.choice(["", "+", "-", "+5", "-0", "007", "1_0", " 1", "1 ", "a", "1a", "--1", "٣", "1.0", "1e3"]
                               + [str(gen_int(rng))])
                yield {"kind": "castint", "op": "cast", "dt": ":integer", "s": cps(s)}
            elif r < 0.70:
                yield {"kind": "float", "v": {"float": struct.unpack("<Q", struct.pack("<d", gen_float(rng)))[0]}}
            elif r < 0.78:
                yield {"kind": "date", "op": "format", "dt": ":date", "v": {"date": gen_dt(rng)}}
            elif r < 0.86:
                # random date-like text (mostly invalid) for the parseDate correspondence
                if rng.random() < 0.5:
                    text, _ = rng.choice(spellings(gen_dt(rng), rng))
                    t = list(text)
                    for _ in range(rng.randrange(0, 3)):
                        i = rng.randrange(len(t) + 1)
                        op = rng.random()
                        if op < 0.4 and t:
                            t[min(i, len(t) - 1)] = rng.choice(DATE_ALPHA)
                        elif op < 0.7:
                            t.insert(i, rng.choice(DATE_ALPHA))
                        elif t:
                            del t[min(i, len(t) - 1)]
                    text = "".join(t)
                else:
                    text = "".join(rng.choice(DATE_ALPHA) for _ in range(rng.randrange(1, 14)))
                yield {"kind": "castdate", "op": "cast", "dt": ":date", "s": cps(text)}
            elif r < 0.90:
                yield {"kind": "str", "op": "format", "dt": ":string", "v": {"str": cps(gen_string(rng, 8))}}
            else:
                yield gen_row(rng)

    def search_cases(self, rng, tier, n, seeds):
        kinds = sorted({c["kind"] for c in seeds if c["kind"] in
                        ("escape", "unescape", "split", "join", "int", "castint", "float", "date", "castdate",
                         "str", "row")})
        if any(c["kind"] in ("castdate", "spelling", "date") for c in seeds):
            kinds = sorted(set(kinds) | {"date", "castdate"})
            for y in (1992, 1993, 1994, 2091, 2092, 2093, 2000, 1900, 1000, 9999):
                for (mo, d) in ((1, 1), (12, 31), (2, 28), (9, 8)):
                    for text, inst in spellings([y, mo, d, 23, 59, 58], rng):
                        yield {"kind": "spelling", "op": "cast", "dt": ":date", "s": cps(text), "denotes": inst}
        yield from self.random_cases(rng, n, kinds or None)

    # ---- implementation
    def impl(self, case):
        k = case["kind"]
        if k == "escape":
            return cps(tsdb.escape(uncps(case["s"])))
        if k == "unescape":
            try:
                return {"ok": cps(tsdb.unescape(uncps(case["s"])))}
            except tsdb.TSDBError:
                return {"err": "TSDBError"}
        if k == "split":
            try:
                return {"ok": [None if v is None else cps(v) for v in tsdb.split(uncps(case["s"]))]}
            except tsdb.TSDBError:
                return {"err": "TSDBError"}
        if k == "join":
            vs = [None if v is None else uncps(v) for v in case["vs"]]
            return cps(tsdb.join(vs))
        if k in ("int", "date", "str"):
            return cps(tsdb.format(case["dt"], py_val(case["v"])))
        if k in ("castint", "castdate", "spelling"):
            return do_cast(case["dt"], uncps(case["s"]))
        if k == "float":
            x = py_val(case["v"])
            return cps(tsdb.format(":float", x))
        if k == "row":
            fields = [tsdb.Field(uncps(nm), t) for nm, t in zip(case["names"], case["types"])]
            row = itsdb.Row(fields, [py_val(v) for v in case["vals"]])
            q = case["q"]

            def jc(f):
                try:
                    with warnings.catch_warnings():
                        warnings.simplefilter("ignore")
                        return f()
                except IndexError:
                    return {"err": "IndexError"}
                except KeyError:
                    return {"err": "KeyError"}
                except ValueError:
                    return {"err": "ValueError"}
            if q["kind"] == "iter":
                return jc(lambda: [j_val(x) for x in row])
            if q["kind"] == "data":
                return [cps(x) for x in row.data]
            if q["kind"] == "idx":
                return jc(lambda: j_val(row[q["i"]]))
            if q["kind"] == "name":
                return jc(lambda: j_val(row[uncps(q["k"])]))
            if q["kind"] == "slice":
                return jc(lambda: [j_val(x) for x in row[slice(q["start"], q["stop"], q["step"])]])
        raise ValueError(k)

    def model_request(self, case):
        if case["kind"] == "float":
            return None
        return {k: v for k, v in case.items() if k not in ("kind", "denotes")}

    def model_compare(self, case, expected, answer):
        if isinstance(answer, dict) and answer.get("err") == "unmodelled":
            return None
        if isinstance(answer, list) and any(isinstance(a, dict) and a.get("err") == "unmodelled" for a in answer):
            return None
        return super().model_compare(case, expected, answer)

    # ---- direct oracle
    def oracle(self, case, res):
        k = case["kind"]
        fails = []

        def fail(clause, detail):
            fails.append({"clause": clause, "detail": detail})
        if k == "escape":
            s = uncps(case["s"])
            e = uncps(res)
            if "\n" in e or "@" in e:
                fail("escape output contains a raw newline or delimiter", repr(e))
            try:
                if tsdb.unescape(e) != s:
                    fail("unescape(escape(s)) != s", repr((s, e, tsdb.unescape(e))))
            except tsdb.TSDBError as ex:
                fail("unescape(escape(s)) raises", repr((s, e, str(ex))))
        elif k == "unescape":
            t = uncps(case["s"])
            we = well_escaped(t)
            if "ok" in res:
                if not we:
                    fail("unescape accepts a malformed escape", repr(t))
                r = uncps(res["ok"])
                if "\n" not in t and "@" not in t and tsdb.escape(r) != t:
                    fail("escape(unescape(t)) != t on the image of escape", repr((t, r)))
            else:
                if we:
                    fail("unescape rejects a well-formed string", repr(t))
        elif k == "split":
            pass   # split on arbitrary text: correspondence only (the property clause is split∘join)
        elif k == "join":
            vs = [None if v is None else uncps(v) for v in case["vs"]]
            line = uncps(res)
            if "\n" in line:
                fail("joined line contains a raw newline", repr(line))
            if line.count("@") != len(vs) - 1:
                fail("joined line does not have exactly one delimiter per column boundary", repr((vs, line)))
            want = tuple(None if v in (None, "") else v for v in vs)
            for suffix in ("", "\n"):
                try:
                    got = tsdb.split(line + suffix)
                except tsdb.TSDBError as ex:
                    fail("split(join(vs)) raises", repr((vs, line, str(ex))))
                    continue
                if tuple(got) != want:
                    fail("split(join(vs)) != vs", repr((vs, line, got)))
        elif k == "int":
            n = py_val(case["v"])
            back = tsdb.cast(":integer", uncps(res))
            if back != n or type(back) is not int:
                fail("cast(format(int)) != int", repr((n, uncps(res), back)))
        elif k == "str":
            s = py_val(case["v"])
            back = tsdb.cast(":string", uncps(res))
            if (back or "") != s:
                fail("cast(format(str)) != str", repr((s, back)))
        elif k == "float":
            x = py_val(case["v"])
            back = tsdb.cast(":float", uncps(res))
            if not (isinstance(back, float) and struct.pack("<d", back) == struct.pack("<d", x)):
                fail("cast(format(float)) != float", repr((x, uncps(res), back)))
        elif k == "date":
            d = py_val(case["v"])
            with warnings.catch_warnings():
                warnings.simplefilter("ignore")
                back = tsdb.cast(":date", uncps(res))
            if back != d:
                fail("cast(format(datetime)) != datetime", repr((d, uncps(res), back)))
        elif k == "spelling":
            want = {"date": case["denotes"]}
            if res != want:
                fail("a documented date spelling does not denote its instant",
                     repr((uncps(case["s"]), case["denotes"], res)))
        elif k == "row":
            # the row exposes exactly the cast of its stored raw data
            fields = [tsdb.Field(uncps(nm), t) for nm, t in zip(case["names"], case["types"])]
            vals = [py_val(v) for v in case["vals"]]
            raws = [tsdb.format(f.datatype, v) for f, v in zip(fields, vals)]

            def c(i):
                return do_cast(fields[i].datatype, raws[i])
            q = case["q"]
            n = len(fields)
            if q["kind"] == "iter":
                want = [c(i) for i in range(n)]
            elif q["kind"] == "data":
                want = [cps(r) for r in raws]
            elif q["kind"] == "idx":
                want = c(range(n)[q["i"]]) if -n <= q["i"] < n else {"err": "IndexError"}
            elif q["kind"] == "name":
                nm = uncps(q["k"])
                idxs = [i for i, f in enumerate(fields) if f.name == nm]
                want = c(idxs[-1]) if idxs else {"err": "KeyError"}
            else:
                if q["step"] == 0:
                    want = {"err": "ValueError"}
                else:
                    want = [c(i) for i in range(n)[slice(q["start"], q["stop"], q["step"])]]
            if isinstance(want, list) and any(isinstance(w, dict) and "err" in w for w in want):
                want = next(w for w in want if isinstance(w, dict) and "err" in w)
            if res != want:
                fail("row access differs from the cast of its stored raw data", repr((q, want, res)))
        return fails

    def nontrivial_key(self, case, res):
        body = case.get("s") or case.get("vs") or case.get("v") or case.get("vals")
        if not body:
            return None
        return super().nontrivial_key(case, res)


CHECK = C08()
