"""C08 — TSDB record encoding: generators, implementation runner, direct oracle."""
import datetime
import gzip as _gzip
import itertools
import json
import math
import os
import re
import shutil
import struct
import tempfile
import warnings

from .common import paths
from .common.runner import Check

paths.ensure_repo_on_path()
from delphin import itsdb, tsdb  # noqa: E402


def cps(s):
    return [ord(c) for c in s]


def uncps(a):
    return "".join(chr(x) for x in a)


SPECIAL = ["\\", "@", "s", "n", "\n", "\r", "a", " ", "\\\\", "\\s", "\\n", "@@", "é", " ", "\U0001F600", "x",
           "\x1f", "\x1c", "\x85", "\x00"]
DATE_ALPHA = "0123456789-: ()abcdefgjlmnoprstuvyJSDX"


def gen_string(rng, maxlen=8):
    n = rng.choice([0, 1, 1, 2, 2, 3, 3, 4, 5, 6, maxlen])
    out = []
    for _ in range(n):
        r = rng.random()
        if r < 0.8:
            out.append(rng.choice(SPECIAL))
        else:
            cp = rng.choice([rng.randrange(32, 127), rng.randrange(0xA0, 0x800), rng.randrange(0x1F600, 0x1F640),
                             rng.randrange(0, 32)])
            out.append(chr(cp))
    return "".join(out)


def gen_int(rng):
    r = rng.random()
    if r < 0.3:
        return rng.randrange(-3, 12)
    if r < 0.6:
        return rng.randrange(-10**6, 10**6)
    if r < 0.8:
        return rng.choice([-1, 1]) * rng.randrange(10**18, 10**30)
    return rng.choice([0, -1, 9, 10, -10, 99, 100, 2**63, -2**63, 10**20])


def gen_float(rng):
    r = rng.random()
    if r < 0.5:
        while True:
            x = struct.unpack("<d", struct.pack("<Q", rng.getrandbits(64)))[0]
            if math.isfinite(x):
                return x
    if r < 0.8:
        return rng.choice([0.0, -0.0, 1.0, 0.1, 1e22, 1e-7, 5e-324, 1.7976931348623157e308, 2.5, -3.75, 1 / 3])
    return rng.uniform(-1000, 1000)


def gen_dt(rng):
    y = rng.choice([1000, 1001, 1899, 1900, 1992, 1993, 1994, 1999, 2000, 2004, 2024, 2092, 2093, 2100, 9999,
                    rng.randrange(1000, 10000), rng.randrange(1000, 10000)])
    mo = rng.randrange(1, 13)
    dim = [31, 29 if (y % 4 == 0 and y % 100 != 0) or y % 400 == 0 else 28, 31, 30, 31, 30, 31, 31, 30, 31, 30, 31][mo - 1]
    d = rng.choice([1, dim, rng.randrange(1, dim + 1)])
    if rng.random() < 0.4:
        H = M = S = 0
    else:
        H = rng.choice([0, 23, rng.randrange(24)])
        M = rng.choice([0, 59, rng.randrange(60)])
        S = rng.choice([0, 59, rng.randrange(60)])
    return [y, mo, d, H, M, S]


MONTHS = ["jan", "feb", "mar", "apr", "may", "jun", "jul", "aug", "sep", "oct", "nov", "dec"]


def case_variants(name):
    """all 8 upper/lower-case variants of a three-letter month name"""
    out = []
    for mask in range(8):
        out.append("".join(c.upper() if mask >> i & 1 else c for i, c in enumerate(name)))
    return out


def spellings(dt, rng):
    """documented spellings of the instant `dt` together with the instant they denote.

    Exactly the family of lean/Verif/C08/Spelling.lean (theorem `spellings_agree`): order D-M-Y or
    YYYY-M-D; day str(d) / zero-padded / absent; month str(mo) / zero-padded / the name in all 8 letter
    cases; year 4 digits, or 2 digits in D-M-Y order for 1993..2092; time absent, HH:MM or HH:MM:SS, bare
    or parenthesised, after 1, 2 or (random) 3..6 spaces.
    """
    y, mo, d, H, M, S = dt
    out = []
    seen = set()

    def add(text, inst):
        if text not in seen:
            seen.add(text)
            out.append((text, inst))
    mons = [str(mo), "%02d" % mo] + case_variants(MONTHS[mo - 1])
    days = [str(d), "%02d" % d]
    years4 = ["%04d" % y]
    years = list(years4)
    if 1993 <= y <= 2092:
        years.append("%02d" % (y % 100))
    times = [("", (0, 0, 0))]
    for body, val in (("%02d:%02d" % (H, M), (H, M, 0)), ("%02d:%02d:%02d" % (H, M, S), (H, M, S))):
        for paren in (False, True):
            clock = "(%s)" % body if paren else body
            for gap in (1, 2, rng.randrange(3, 7)):
                times.append((" " * gap + clock, val))
    for mon in mons:
        for t, (h, m_, s) in times:
            for yy in years:
                for dd in days:
                    add("%s-%s-%s%s" % (dd, mon, yy, t), [y, mo, d, h, m_, s])
                add("%s-%s%s" % (mon, yy, t), [y, mo, 1, h, m_, s])
            for yy in years4:
                for dd in days:
                    add("%s-%s-%s%s" % (yy, mon, dd, t), [y, mo, d, h, m_, s])
                add("%s-%s%s" % (yy, mon, t), [y, mo, 1, h, m_, s])
    return out


def py_val(v):
    """JSON value → Python value"""
    if v is None:
        return None
    if "int" in v:
        return int(v["int"])
    if "str" in v:
        return uncps(v["str"])
    if "date" in v:
        return datetime.datetime(*v["date"])
    if "dateonly" in v:
        return datetime.date(*v["dateonly"])
    if "float" in v:
        return struct.unpack("<d", struct.pack("<Q", v["float"]))[0]
    raise ValueError(v)


def j_val(x):
    """Python value (as cast returns) → JSON in the driver's shape"""
    if x is None:
        return None
    if isinstance(x, bool):
        raise TypeError
    if isinstance(x, int):
        return {"int": str(x)}
    if isinstance(x, str):
        return {"str": cps(x)}
    if isinstance(x, datetime.datetime):
        return {"date": [x.year, x.month, x.day, x.hour, x.minute, x.second]}
    if isinstance(x, float):
        return {"float": struct.unpack("<Q", struct.pack("<d", x))[0]}
    raise TypeError(type(x))


def do_cast(dt, s):
    try:
        with warnings.catch_warnings():
            warnings.simplefilter("ignore")
            return j_val(tsdb.cast(dt, s))
    except tsdb.TSDBError:
        return {"err": "TSDBError"}
    except ValueError:
        return {"err": "ValueError"}
    except KeyError:
        return {"err": "KeyError"}


def well_escaped(t):
    i = 0
    while i < len(t):
        if t[i] == "\\":
            if i + 1 >= len(t) or t[i + 1] not in "\\sn":
                return False
            i += 2
        else:
            i += 1
    return True


TODAY_NOW = re.compile(r":?(today|now)")


def gen_row(rng):
    n = rng.randrange(1, 6)
    types, names, vals = [], [], []
    for i in range(n):
        t = rng.choice([":integer", ":string", ":date", ":string"])
        types.append(t)
        names.append(rng.choice(["i-id", "i-input", "i-date", "i-wf", "a", "b", "c%d" % i]))
        r = rng.random()
        if r < 0.2:
            vals.append(None)
        elif r < 0.92:
            vals.append(gen_fitting(rng, t))
        else:
            # a value whose Python type does not fit the column: stored as str(value), cast on access
            v = gen_fitting(rng, rng.choice([":integer", ":string", ":date"]))
            if "str" in v and TODAY_NOW.match(uncps(v["str"])):
                v = None
            vals.append(v)
    if rng.random() < 0.04:
        # Row.__init__ rejects a count mismatch
        if rng.random() < 0.5:
            vals = vals[:-1]
        else:
            vals = vals + [None]
    k = rng.random()
    ri = lambda: rng.choice([None, None] + list(range(-n - 2, n + 3)))
    if k < 0.12:
        q = {"kind": "iter"}
    elif k < 0.2:
        q = {"kind": "data"}
    elif k < 0.3:
        q = {"kind": rng.choice(["str", "str", "str", "len", "keys"])}
    elif k < 0.5:
        q = {"kind": "idx", "i": rng.randrange(-n - 2, n + 2)}
    elif k < 0.7:
        q = {"kind": "name", "k": cps(rng.choice(names + ["zz"]))}
    else:
        q = {"kind": "slice", "start": ri(), "stop": ri(), "step": rng.choice([None, None, 1, 2, -1, -2, 3, -3])}
    return {"kind": "row", "op": "row", "types": types, "names": [cps(x) for x in names], "vals": vals, "q": q}


CODED = {"i-wf": "1", "i-difficulty": "1", "polarity": "-1"}   # the documented coded attributes, restated
FIELD_NAMES = ["i-id", "i-input", "i-date", "i-wf", "i-difficulty", "polarity", "a", "b", "I-WF", "POLARITY"]
DTYPES = [":integer", ":string", ":date"]


def jfields(fields):
    return [{"name": cps(n), "dt": t} for n, t in fields]


def gen_fitting(rng, t):
    if t == ":integer":
        return {"int": str(gen_int(rng))}
    if t == ":string":
        return {"str": cps(gen_string(rng, 5))}
    return {"date": gen_dt(rng)}


def gen_typed(rng):
    """typed join / split: column counts right and wrong, None in every datatype with and without a coded
    default, values whose Python type does not fit the column, the empty field list (untyped branch)."""
    n = rng.choice([0, 1, 1, 2, 3, 3, 4, 5])
    fields = [(rng.choice(FIELD_NAMES), rng.choice(DTYPES)) for _ in range(n)]
    m = n if rng.random() < 0.75 else max(0, n + rng.choice([-2, -1, 1, 2]))
    vals = []
    for i in range(m):
        t = fields[i][1] if i < n else rng.choice(DTYPES)
        r = rng.random()
        if r < 0.25:
            vals.append(None)
        elif r < 0.9:
            vals.append(gen_fitting(rng, t))
        else:
            vals.append(gen_fitting(rng, rng.choice(DTYPES)))
    if rng.random() < 0.5:
        return {"kind": "tjoin", "op": "tjoin", "fields": jfields(fields), "vals": vals}
    # a line: the encoding of such values (possibly another column count), sometimes damaged, sometimes arbitrary
    r = rng.random()
    if r < 0.6:
        cols = []
        for i, v in enumerate(vals):
            pv = py_val(v)
            if pv is None:
                cols.append(rng.choice(["", "-1", "1"]))
            elif isinstance(pv, datetime.datetime):
                cols.append(tsdb.format(":date", pv))
            else:
                cols.append(tsdb.escape(str(pv)))
        line = "@".join(cols)
        if rng.random() < 0.3 and line:
            i = rng.randrange(len(line))
            line = line[:i] + rng.choice(["@", "\\", "\\x", "", "1", "\x1f", " "]) + line[i + 1:]
    elif r < 0.8:
        cols = []
        for i in range(m):
            cols.append(rng.choice(["", "", "1", "-1", "1_0", " 7", "x", "\\s", "1-2-2003", "apr-95 10:51", "2002-06",
                                    "32-1-2000", "1-foo-2000", "\x1f", "today"]) if rng.random() < 0.7
                        else tsdb.escape(gen_string(rng, 4)))
        line = "@".join(cols)
    else:
        line = gen_string(rng, 8)
    line += rng.choice(["", "", "\n"])
    return {"kind": "tsplit", "op": "tsplit", "fields": jfields(fields), "s": cps(line)}


BIG_INTS = [2**31 - 1, 2**31, 2**32 + 1, 2**53 - 1, 2**53, 2**53 + 1, 2**63 - 1, 2**63, 2**63 + 1, 2**64 - 1, 2**64,
            2**64 + 1, 10**18 + 1, 10**19, 10**30 + 7, 2**127 + 1, 12345678901234567890123]
BIG_INTS = BIG_INTS + [-x for x in BIG_INTS]
# every combination of zero / non-zero hour, minute, second (only 0:0:0 drops the time part), with boundary values
HMS_COMBOS = [(h, m, s_) for h in (0, 1, 23) for m in (0, 1, 59) for s_ in (0, 1, 30, 59)]
# what may follow a backslash besides \ s n: controls (incl. raw newline), other line boundaries, near misses
AFTER_BS = [chr(c) for c in range(0, 32)] + ["\x7f", "\x85", "\xa0", "\u2028", "\u2029", "S", "N", "t", "r", "0", "@", " ",
                                           "/", "\U0001F600"]


def gen_file(rng):
    """records written with tsdb.write and read back through tsdb.open / Database (plain and gzip, one call or
    write + append), right and (rarely) wrong column counts, fitting and non-fitting values, 0..6 records"""
    n = rng.choice([0, 1, 1, 2, 3, 3, 4])
    fields = [(rng.choice(FIELD_NAMES), rng.choice(DTYPES)) for _ in range(n)]
    k = rng.choice([0, 1, 1, 2, 3, 4, 6])
    recs = []
    for _ in range(k):
        m = n if rng.random() < 0.96 else max(0, n + rng.choice([-1, 1]))
        if n == 0:
            m = rng.randrange(0, 4)
        rec = []
        for i in range(m):
            t = fields[i][1] if i < n else rng.choice(DTYPES)
            r = rng.random()
            if r < 0.2:
                rec.append(None)
            elif r < 0.93:
                rec.append(gen_fitting(rng, t))
            else:
                v = gen_fitting(rng, rng.choice(DTYPES))
                if "str" in v and TODAY_NOW.match(uncps(v["str"])):
                    v = None
                rec.append(v)
        recs.append(rec)
    gz = rng.random() < 0.3
    enc = rng.choice([None, None, None, "utf-8", "latin-1", "utf-16-le", "utf-32-be"])
    if enc == "latin-1" and any(c > 255 for r in recs for v in r if v and "str" in v for c in v["str"]):
        enc = "utf-16-le"
    return {"kind": "file", "op": "file", "fields": jfields(fields), "recs": recs, "gzip": gz,
            "append": None if gz or rng.random() < 0.6 else rng.randrange(0, k + 1),
            "via": rng.choice(["open", "db"]) if n else "open", "encoding": enc}


def gen_mkrec(rng):
    n = rng.choice([0, 1, 2, 3, 3, 4, 5])
    fields = [(rng.choice(FIELD_NAMES), rng.choice(DTYPES)) for _ in range(n)]
    keys = [k for k in FIELD_NAMES + ["zz", "", "I-ID", "i-id "] if rng.random() < 0.45]
    rng.shuffle(keys)
    colmap = []
    for k in keys:
        r = rng.random()
        colmap.append({"k": cps(k), "v": None if r < 0.2 else gen_fitting(rng, rng.choice(DTYPES))})
    return {"kind": "mkrec", "op": "mkrec", "fields": jfields(fields), "colmap": colmap}


def gen_fmt(rng):
    """tsdb.format with an explicit default and with values that do not fit the datatype"""
    dt = rng.choice(DTYPES)
    v = None if rng.random() < 0.4 else gen_fitting(rng, rng.choice(DTYPES))
    d = rng.choice([None, None, "", "1", "-1", "0", "x@y", "\n"])
    return {"kind": "fmt", "op": "format", "dt": dt, "v": v, "default": None if d is None else cps(d)}


def gen_lines(rng):
    """text with line-boundary look-alikes, read back line by line through tsdb.open"""
    parts = []
    for _ in range(rng.randrange(0, 7)):
        parts.append(rng.choice(["\n", "\n", "\r", "\r\n", "\x0b", "\x0c", "\x1c", "\x1d", "\x1e", "\x85", "\u2028", "\u2029",
                                 "a", "@", "\\n", "b@c", ""]))
    return {"kind": "lines", "op": "lines", "s": cps("".join(parts)), "gzip": rng.random() < 0.3}


def seq_cases():
    """several calls in one case: an error path followed by normal calls (state left behind by a raise would show in the
    later answers), repeated calls (purity); long inputs"""
    def u(t):
        return {"kind": "unescape", "op": "unescape", "s": cps(t)}
    f2 = jfields([("i-id", ":integer"), ("a", ":string")])
    row = {"kind": "row", "op": "row", "types": [":integer", ":string"], "names": [cps("i-id"), cps("a")],
           "vals": [{"int": "3"}, {"str": cps("s@")}]}
    errs = [u("a\\"), u("x" * 50 + "\\"), u("\\s" * 30 + "\\\\\\"), u("\\x"), u("ab\\\nc"),
            {"kind": "split", "op": "split", "s": cps("a@\\")},
            {"kind": "split", "op": "split", "s": cps("y" * 4100 + "\\\n")},
            {"kind": "tsplit", "op": "tsplit", "fields": f2, "s": cps("1@a@b")},
            {"kind": "tsplit", "op": "tsplit", "fields": f2, "s": cps("x@a")},
            {"kind": "tsplit", "op": "tsplit", "fields": f2, "s": cps("1@\\")},
            {"kind": "tjoin", "op": "tjoin", "fields": f2, "vals": [None]},
            {"kind": "castint", "op": "cast", "dt": ":integer", "s": cps("1x")},
            {"kind": "castdate", "op": "cast", "dt": ":date", "s": cps("1-foo-2003")},
            {"kind": "castdate", "op": "cast", "dt": ":date", "s": cps("31-2-2003")},
            dict(row, vals=[None], q={"kind": "iter"}), dict(row, q={"kind": "idx", "i": 5}),
            dict(row, q={"kind": "name", "k": cps("zz")}),
            dict(row, vals=[{"str": cps("q")}, None], q={"kind": "str"})]
    normals = [u("sx"), u("nx"), u("\\\\s"), u("a"), u("\\sx"), u(""),
               {"kind": "split", "op": "split", "s": cps("s@n@\\\\")},
               {"kind": "join", "op": "join", "vs": [cps("a@"), None, cps("\\")]},
               {"kind": "escape", "op": "escape", "s": cps("s@\n\\")},
               {"kind": "castint", "op": "cast", "dt": ":integer", "s": cps("12")},
               {"kind": "castdate", "op": "cast", "dt": ":date", "s": cps("1-2-2003 00:00:07")},
               {"kind": "date", "op": "format", "dt": ":date", "v": {"date": [2003, 2, 1, 0, 0, 7]}},
               {"kind": "tjoin", "op": "tjoin", "fields": f2, "vals": [None, {"str": cps("s")}]},
               {"kind": "tsplit", "op": "tsplit", "fields": f2, "s": cps("7@n\\s\n")},
               dict(row, q={"kind": "iter"}), dict(row, q={"kind": "str"}), dict(row, q={"kind": "name", "k": cps("a")})]
    out = []
    for e in errs:
        out.append({"kind": "seq", "op": "seq", "steps": normals[:6] + [e] + normals + [e, e] + normals[:8]})
    out.append({"kind": "seq", "op": "seq", "steps": errs + normals + errs[::-1] + normals[::-1]})
    # long values and long records (look-ahead / chunk boundaries play no part here, but fast paths might)
    for n in (41, 1000, 4097, 20000):
        body = ("ab@\\\n s\\sn" * (n // 10 + 1))[:n]
        enc = naive_escape(body)
        out.append({"kind": "escape", "op": "escape", "s": cps(body)})
        out.append({"kind": "unescape", "op": "unescape", "s": cps(enc)})
        out.append({"kind": "unescape", "op": "unescape", "s": cps(enc + "\\")})
        out.append({"kind": "unescape", "op": "unescape", "s": cps("\\q" + enc)})
        out.append({"kind": "join", "op": "join", "vs": [cps(body), None, cps(body[::-1])]})
        out.append({"kind": "split", "op": "split", "s": cps(enc + "@@" + enc + "\n")})
    out.append({"kind": "join", "op": "join", "vs": [cps(str(i % 7) * (i % 3)) if i % 5 else None for i in range(1500)]})
    out.append({"kind": "split", "op": "split", "s": cps("@".join("\\s" * (i % 3) for i in range(1500)))})
    return out


def fits(fields, vals):
    return all(v is None or (t == ":integer" and type(v) is int) or (t == ":string" and type(v) is str)
               or (t == ":date" and type(v) is datetime.datetime) for (_, t), v in zip(fields, vals))


def read_back(fields, vals):
    """what a fitting record reads back as: None -> the cast of the column default (coded attributes restated by hand),
    '' -> None, everything else itself"""
    want = []
    for (name, t), v in zip(fields, vals):
        if v is None:
            d = CODED.get(name, "-1" if t == ":integer" else "")
            want.append(int(d) if t == ":integer" else (d or None) if t == ":string" else None)
        else:
            want.append(None if v == "" else v)
    return want


def naive_format(name, t, v, coded=True):
    """the documented text of a value in a column, restated: None -> default; a date-time in :date -> D-mon-YYYY with
    ' HH:MM:SS' unless the time is midnight; everything else str(value)"""
    if v is None:
        dflt = "-1" if t == ":integer" else ""
        return CODED.get(name, dflt) if coded else dflt
    if t == ":date" and isinstance(v, datetime.datetime):
        text = "%d-%s-%04d" % (v.day, MONTHS[v.month - 1], v.year)
        if v.hour or v.minute or v.second:
            text += " %02d:%02d:%02d" % (v.hour, v.minute, v.second)
        return text
    return str(v)


def naive_escape(text):
    return "".join({"\\": "\\\\", "\n": "\\n", "@": "\\s"}.get(c, c) for c in text)


def fixed_cases():
    """batteries that are in every run (inputs on which seeded changes were missed at first)."""
    out = []
    bs = "\\"
    # unescape: runs of backslashes at the end (odd >= 3 = invalid, even = valid), backslash before a raw newline
    for pre in ("", "a", "s", "n", "@", "\\s"):
        for k in (1, 2, 3, 4, 5, 6, 7, 9):
            out.append({"kind": "unescape", "op": "unescape", "s": cps(pre + bs * k)})
            out.append({"kind": "split", "op": "split", "s": cps(pre + bs * k)})
            out.append({"kind": "split", "op": "split", "s": cps(pre + bs * k + "\n")})
    for t in ("a\\\nb", "\\\n", "\\\nx", "ab\\\n\\n", "\\\n\\\n", "x\\\n@y", "\\\\\n", "\\\\\\\nz", "\\\r", "\\\x1f"):
        out.append({"kind": "unescape", "op": "unescape", "s": cps(t)})
        out.append({"kind": "split", "op": "split", "s": cps(t)})
        out.append({"kind": "escape", "op": "escape", "s": cps(t)})
    # U+001F (and its neighbours) inside values, through every operation
    for t in ("\x1f", "a\x1fb", "\x1f@", "\\\x1f", "\x1c\x1d\x1e\x1f", "\x1f\n", "1\x1f", "\x1f1"):
        out.append({"kind": "escape", "op": "escape", "s": cps(t)})
        out.append({"kind": "unescape", "op": "unescape", "s": cps(t)})
        out.append({"kind": "split", "op": "split", "s": cps(t)})
        out.append({"kind": "join", "op": "join", "vs": [cps(t), None, cps(t)]})
        out.append({"kind": "str", "op": "format", "dt": ":string", "v": {"str": cps(t)}})
        out.append({"kind": "castint", "op": "cast", "dt": ":integer", "s": cps(t)})
        out.append({"kind": "castdate", "op": "cast", "dt": ":date", "s": cps(t)})
        out.append({"kind": "tjoin", "op": "tjoin", "fields": jfields([("a", ":string"), ("i-id", ":integer")]),
                    "vals": [{"str": cps(t)}, None]})
        out.append({"kind": "tsplit", "op": "tsplit", "fields": jfields([("a", ":string"), ("i-id", ":integer")]),
                    "s": cps(t + "@5")})
    # int() spellings
    for t in ("1_0", "1__0", "_1", "1_", "+1_0", "0_7", "1_000_000", "-_1", "+_1", "1_a", " 1", "1 ", "\t1\n", " -1_2 ",
              "\x1f1", "1\x1f", "\x1c1", "- 1", "+-1", "--1", "1\x0b", "\x0c1", "\r1\r", " ", "\n", "+", "-", " + 1",
              "1 2", "0x10", "-0", "+0", "007", "-007", "1\x00", "\x001", "1.0", "1e3", "a", "٣", "\xa01", "1 ",
              "१_२", "1\x85", "９"):
        out.append({"kind": "castint", "op": "cast", "dt": ":integer", "s": cps(t)})
    # dates: day-less numeric months, \s separators, today/now, nothing matching, trailing text
    for text, inst in (("6-2002", [2002, 6, 1, 0, 0, 0]), ("06-2002", [2002, 6, 1, 0, 0, 0]),
                       ("2002-06", [2002, 6, 1, 0, 0, 0]), ("2002-6", [2002, 6, 1, 0, 0, 0]),
                       ("4-95 10:51", [1995, 4, 1, 10, 51, 0]), ("4-95", [1995, 4, 1, 0, 0, 0]),
                       ("12-02", [2002, 12, 1, 0, 0, 0]), ("10-12", [2012, 10, 1, 0, 0, 0]),
                       ("2002-06 10:51:09", [2002, 6, 1, 10, 51, 9]), ("6-2002 (10:51)", [2002, 6, 1, 10, 51, 0]),
                       ("04-1995  (10:51:09)", [1995, 4, 1, 10, 51, 9]), ("2002-12 (23:59)", [2002, 12, 1, 23, 59, 0]),
                       ("1-1-2001 00:00:05", [2001, 1, 1, 0, 0, 5]), ("1-jan-2001 00:07:00", [2001, 1, 1, 0, 7, 0]),
                       ("10-6-2002", [2002, 6, 10, 0, 0, 0]), ("8-sep-1999", [1999, 9, 8, 0, 0, 0]),
                       ("apr-95", [1995, 4, 1, 0, 0, 0]), ("01-dec-02 (15:31:01)", [2002, 12, 1, 15, 31, 1]),
                       ("2008-10-12 10:51", [2008, 10, 12, 10, 51, 0])):
        out.append({"kind": "spelling", "op": "cast", "dt": ":date", "s": cps(text), "denotes": inst})
    for t in ("1-2-2003\x1f10:51", "2003-1-2\x1c(10:51:02)", "1-2-2003\x1d\x1e 10:51", "1-2-2003\t\n\r\x0b\x0c10:51",
              "1-2-2003\x8510:51", "1-2-2003\xa010:51", "today", ":today", "now", ":now x", "now-95", "today-12-2002",
              "tod", "1", "x", "-", "2003", "2003-", "1-2-2003xyz", "1-2-20034", "1-2-200", "1-2-3", "31-2-2003",
              "1-13-2003", "1-foo-2003", "1-2-2003 24:00", "1-2-2003 10:60", "1-2-2003 10:51:60", "1-2-2003 1:51",
              "0-1-2003", "1-0-2003", "29-2-1900", "29-2-2000", "1-2-0000", "0000-1-1", "1-2-93", "1-2-92"):
        out.append({"kind": "castdate", "op": "cast", "dt": ":date", "s": cps(t)})
    # datetimes whose time is 00:00:SS / 00:MM:00 / HH:00:00 (only (0,0,0) drops the time part)
    for hms in ((0, 0, 1), (0, 0, 59), (0, 1, 0), (0, 59, 0), (1, 0, 0), (23, 0, 0), (0, 0, 0), (0, 59, 59)):
        for ymd in ((2001, 1, 1), (1999, 12, 31)):
            out.append({"kind": "date", "op": "format", "dt": ":date", "v": {"date": list(ymd) + list(hms)}})
    # rows: negative / reversed slices, None and '' in :string (and the other) columns by every access path
    types = [":integer", ":string", ":date", ":string", ":string"]
    names = ["i-id", "i-input", "i-date", "i-input", "b"]       # a repeated name: the last one wins
    for vals in ([{"int": "7"}, {"str": cps("x@y")}, {"date": [2001, 1, 1, 0, 0, 5]}, {"str": cps("\x1f")},
                  {"str": cps("z")}],
                 [None, None, None, None, None],
                 [{"int": "-1"}, {"str": []}, None, {"str": []}, None],
                 [None, {"str": cps("a")}, {"date": [1999, 9, 8, 0, 0, 0]}, None, {"str": []}]):
        qs = [{"kind": "iter"}, {"kind": "data"}]
        qs += [{"kind": "idx", "i": i} for i in range(-7, 7)]
        qs += [{"kind": "name", "k": cps(k)} for k in ("i-id", "i-input", "i-date", "b", "zz", "")]
        for start in (None, -6, -5, -2, -1, 0, 2, 5):
            for stop in (None, -6, -3, -1, 0, 3, 6):
                for step in (None, 1, 2, -1, -2, -5):
                    qs.append({"kind": "slice", "start": start, "stop": stop, "step": step})
        qs.append({"kind": "slice", "start": None, "stop": None, "step": 0})
        for q in qs:
            out.append({"kind": "row", "op": "row", "types": types, "names": [cps(x) for x in names], "vals": vals,
                        "q": q})
    # typed join / split: every datatype x {None, fitting value} x {plain name, coded name}; wrong column counts
    for name in ("a", "i-wf", "i-difficulty", "polarity"):
        for t in DTYPES:
            f = [(name, t)]
            fit = {":integer": {"int": "5"}, ":string": {"str": cps("v@\n\\")},
                   ":date": {"date": [2001, 1, 1, 0, 0, 5]}}[t]
            for vals in ([None], [fit], [{"str": []}], [], [None, None], [fit, fit]):
                out.append({"kind": "tjoin", "op": "tjoin", "fields": jfields(f), "vals": vals})
            for line in ("", "\n", "5", "x", "-1", "1", "@", "5@", "@@", "1-1-2001", "\\", "\\x@", "a@b@c"):
                out.append({"kind": "tsplit", "op": "tsplit", "fields": jfields(f), "s": cps(line)})
    f3 = [("i-id", ":integer"), ("i-input", ":string"), ("i-date", ":date")]
    for vals in ([{"int": "1"}, {"str": cps("a")}, {"date": [2001, 1, 1, 0, 0, 0]}], [None, None, None],
                 [{"int": "1"}, {"str": cps("a")}], [{"int": "1"}, {"str": cps("a")}, None, None], [],
                 [{"str": cps("a")}, {"int": "1"}, {"int": "3"}], [{"date": [2001, 1, 1, 1, 2, 3]}] * 3):
        out.append({"kind": "tjoin", "op": "tjoin", "fields": jfields(f3), "vals": vals})
        out.append({"kind": "tjoin", "op": "tjoin", "fields": [], "vals": vals})
    for line in ("1@a@1-1-2001", "1@a@1-1-2001\n", "@@", "@@\n", "1@a", "1@a@1-1-2001@", "x@a@b", "1@a@32-1-2001",
                 "1@a@1-foo-2001", "x@\\x@", "\\@@", "1_0@ @2001-06", "", "\n", "\n\n", "1@a@b\n\n"):
        out.append({"kind": "tsplit", "op": "tsplit", "fields": jfields(f3), "s": cps(line)})
        out.append({"kind": "tsplit", "op": "tsplit", "fields": [], "s": cps(line)})
    out.extend(round6_cases())
    out.extend(seq_cases())
    return out


def round6_cases():
    """round 6: integers beyond 2^53 / 2^63, every zero/non-zero combination of hour, minute, second, a backslash
    before a raw newline or another control character — each through format->cast, typed join/split, a row and a
    file round trip; make_record; Row.__str__/__len__/keys and a count mismatch; format with default; line reading."""
    out = []
    fi = [("i-id", ":integer"), ("a", ":string"), ("i-wf", ":integer")]
    for n in BIG_INTS:
        out.append({"kind": "int", "op": "format", "dt": ":integer", "v": {"int": str(n)}})
        out.append({"kind": "tjoin", "op": "tjoin", "fields": jfields(fi),
                    "vals": [{"int": str(n)}, {"str": cps(str(n))}, {"int": str(-n)}]})
        out.append({"kind": "tsplit", "op": "tsplit", "fields": jfields(fi), "s": cps("%d@%d@%d\n" % (n, n, n + 1))})
        for t in (str(n), "+%d" % abs(n), "00%d" % abs(n), " %d " % n):
            out.append({"kind": "castint", "op": "cast", "dt": ":integer", "s": cps(t)})
        out.append({"kind": "row", "op": "row", "types": [t for _, t in fi], "names": [cps(x) for x, _ in fi],
                    "vals": [{"int": str(n)}, {"str": cps(str(n))}, {"int": str(n + 1)}], "q": {"kind": "iter"}})
    recs = [[{"int": str(n)}, {"str": cps(str(n))}, {"int": str(n - 1)}] for n in BIG_INTS]
    for gz, via, app in ((False, "open", None), (True, "db", None), (False, "db", 7)):
        out.append({"kind": "file", "op": "file", "fields": jfields(fi), "recs": recs, "gzip": gz, "append": app,
                    "via": via})
    fd = [("i-date", ":date"), ("a", ":string"), ("b", ":date")]
    drecs = []
    for (h, m, s_) in HMS_COMBOS:
        for ymd in ((2001, 1, 1), (1999, 12, 31), (1000, 2, 28), (9999, 10, 9)):
            d = list(ymd) + [h, m, s_]
            out.append({"kind": "date", "op": "format", "dt": ":date", "v": {"date": d}})
        d = [2004, 2, 29, h, m, s_]
        d2 = [1993, 11, 3, s_ % 24, h, m]
        out.append({"kind": "tjoin", "op": "tjoin", "fields": jfields(fd), "vals": [{"date": d}, None, {"date": d2}]})
        for q in ({"kind": "iter"}, {"kind": "data"}, {"kind": "str"}, {"kind": "idx", "i": -1}):
            out.append({"kind": "row", "op": "row", "types": [t for _, t in fd], "names": [cps(x) for x, _ in fd],
                        "vals": [{"date": d}, {"str": cps("x")}, {"date": d2}], "q": q})
        out.append({"kind": "fmt", "op": "format", "dt": ":string", "v": {"date": d}, "default": None})
        drecs.append([{"date": d}, {"str": cps("%d:%d:%d" % (h, m, s_))}, {"date": d2}])
    for gz, via, app in ((False, "db", None), (True, "open", None), (False, "open", 1)):
        out.append({"kind": "file", "op": "file", "fields": jfields(fd), "recs": drecs, "gzip": gz, "append": app,
                    "via": via})
    for y, mo, d in ((2001, 1, 1), (1999, 12, 31), (2000, 2, 29), (1000, 1, 1), (9999, 12, 31)):
        out.append({"kind": "dateobj", "op": "format", "dt": ":date", "v": {"date": [y, mo, d, 0, 0, 0]}})
    # a backslash followed by a raw newline / control character / near miss, at the start, inside, at the end
    fs = [("a", ":string")]
    for c in AFTER_BS:
        for t in ("\\" + c, "a\\" + c + "b", "\\" + c + "\\" + c, "\\\\" + c, "x@\\" + c + "@y", "\\" + c + "\n",
                  "\\s\\" + c + "\\n"):
            out.append({"kind": "unescape", "op": "unescape", "s": cps(t)})
            out.append({"kind": "split", "op": "split", "s": cps(t)})
        out.append({"kind": "tsplit", "op": "tsplit", "fields": jfields(fs), "s": cps("q\\" + c + "r")})
        out.append({"kind": "escape", "op": "escape", "s": cps("\\" + c)})
        out.append({"kind": "join", "op": "join", "vs": [cps("\\" + c), cps(c + "\\")]})
    # strings with every line-boundary look-alike through a file (a value must never create or merge records)
    nasty = ["a\nb", "\n", "\r", "a\r\nb", "\x0b\x0c", "\x1c\x1d\x1e\x1f", "\x85", "\u2028x\u2029", "@", "\\", "\\n", "\\s@",
             "", "x\n\n", "\n@\n"]
    srecs = [[{"str": cps(a)}, {"str": cps(b)}] for a, b in zip(nasty, nasty[1:] + nasty[:1])]
    f2 = [("i-input", ":string"), ("b", ":string")]
    for gz, via, app in ((False, "open", None), (False, "db", None), (True, "db", None), (False, "db", 3),
                         (False, "open", 0), (False, "open", len(srecs))):
        out.append({"kind": "file", "op": "file", "fields": jfields(f2), "recs": srecs, "gzip": gz, "append": app,
                    "via": via})
    # the encoding option through every writing and reading path (write, open, Database[...], select_from, _select_raw)
    for enc in ("utf-8", "utf-16-le", "utf-32-be"):
        for gz, via, app in ((False, "db", None), (True, "open", None), (False, "db", 2)):
            out.append({"kind": "file", "op": "file", "fields": jfields(f2), "recs": srecs, "gzip": gz, "append": app,
                        "via": via, "encoding": enc})
    lrecs = [[{"str": cps(a)}, {"str": cps(b)}] for a, b in
             (("\xe9", "\xff"), ("\x85", "\xa0"), ("a\nb", "\r"), ("\xc3\xa9", "@\\"), ("", "\x80"))]
    for gz, via, app in ((False, "db", None), (True, "db", None), (False, "open", 1)):
        out.append({"kind": "file", "op": "file", "fields": jfields(f2), "recs": lrecs, "gzip": gz, "append": app,
                    "via": via, "encoding": "latin-1"})
    # repeated field names: columns are addressed by position, never merged by name
    fdup = [("a", ":integer"), ("a", ":string"), ("i-wf", ":integer"), ("a", ":date"), ("i-wf", ":string")]
    vdup = [{"int": "1"}, {"str": cps("x")}, None, {"date": [2001, 2, 3, 0, 0, 4]}, None]
    out.append({"kind": "tjoin", "op": "tjoin", "fields": jfields(fdup), "vals": vdup})
    out.append({"kind": "tsplit", "op": "tsplit", "fields": jfields(fdup), "s": cps("1@x@@3-feb-2001 00:00:04@\n")})
    out.append({"kind": "tsplit", "op": "tsplit", "fields": jfields(fdup[:2]), "s": cps("1@x")})
    for via in ("open", "db"):
        out.append({"kind": "file", "op": "file", "fields": jfields(fdup), "recs": [vdup, [None] * 5, vdup], "gzip": False,
                    "append": None, "via": via})
    out.append({"kind": "mkrec", "op": "mkrec", "fields": jfields(fdup),
                "colmap": [{"k": cps("a"), "v": {"int": "1"}}, {"k": cps("i-wf"), "v": None}]})
    # boundary shapes of a file: no record, one record, one column, None everywhere, wrong counts at every position
    for recs_ in ([], [[None, None]], [[{"str": []}, {"str": []}]], [[None, None]] * 3,
                  [[{"str": cps("a")}]], [[{"str": cps("a")}, None, None]],
                  [[None, None], [None]], [[None], [None, None]], [[None, None], [None, None], []]):
        for gz in (False, True):
            out.append({"kind": "file", "op": "file", "fields": jfields(f2), "recs": recs_, "gzip": gz,
                        "append": None, "via": "db"})
        out.append({"kind": "file", "op": "file", "fields": jfields(f2), "recs": recs_, "gzip": False,
                    "append": 1, "via": "open"})
        out.append({"kind": "file", "op": "file", "fields": [], "recs": recs_, "gzip": False, "append": None,
                    "via": "open"})
    for name in ("i-wf", "polarity", "a"):
        for t in DTYPES:
            out.append({"kind": "file", "op": "file", "fields": jfields([(name, t)]),
                        "recs": [[None], [{"str": []}], [{"int": "0"}], [None]], "gzip": False, "append": None,
                        "via": "db"})
    for text in ("", "\n", "a", "a\n", "a\nb", "\n\n", "a\rb\n", "a\r\nb", "a\x85b\u2028c\n", "\x0b\x0c\x1c\x1d\x1e\n\x1f",
                 "@\n@", "\r", "\r\r\n\r"):
        for gz in (False, True):
            out.append({"kind": "lines", "op": "lines", "s": cps(text), "gzip": gz})
    # make_record: missing, present, present-with-None, extra keys, repeated field names, empty ends
    f4 = [("i-id", ":integer"), ("i-input", ":string"), ("i-id", ":integer"), ("i-date", ":date")]
    pairs = [("i-input", {"str": cps("x@y")}), ("i-id", {"int": "7"}), ("zz", {"int": "1"}), ("i-date", None),
             ("", {"str": cps("e")})]
    for k in range(len(pairs) + 1):
        for flds in (f4, f4[:1], [], [("", ":string"), ("zz", ":integer")]):
            out.append({"kind": "mkrec", "op": "mkrec", "fields": jfields(flds),
                        "colmap": [{"k": cps(a), "v": b} for a, b in pairs[:k]]})
            out.append({"kind": "mkrec", "op": "mkrec", "fields": jfields(flds),
                        "colmap": [{"k": cps(a), "v": b} for a, b in reversed(pairs[k:])]})
    # Row: __str__, __len__, keys, count mismatch; None in coded-attribute columns; a value of the wrong type
    types = [":integer", ":string", ":date", ":integer", ":string"]
    names = ["i-id", "i-difficulty", "i-date", "i-wf", "polarity"]
    for vals in ([{"int": "7"}, {"str": cps("x@y\n\\")}, {"date": [2001, 1, 1, 0, 0, 5]}, {"int": "0"}, {"str": cps("z")}],
                 [None] * 5, [{"int": "-1"}, {"str": []}, None, None, {"str": []}],
                 [{"str": cps("x")}, {"int": "5"}, {"int": "5"}, {"date": [2001, 1, 1, 0, 0, 0]}, {"date": [2001, 1, 1, 0, 0, 0]}],
                 [None] * 4, [None] * 6, []):
        for q in ({"kind": "str"}, {"kind": "len"}, {"kind": "keys"}, {"kind": "iter"}, {"kind": "data"},
                  {"kind": "idx", "i": 0}, {"kind": "name", "k": cps("i-wf")}):
            out.append({"kind": "row", "op": "row", "types": types, "names": [cps(x) for x in names], "vals": vals,
                        "q": q})
    # names that are NOT coded attributes although they look like one (case, blanks): the plain default applies
    for name in ("I-WF", "Polarity", "i-wf ", " i-difficulty", "i_wf", "i-wf\n"):
        for t in DTYPES:
            out.append({"kind": "tjoin", "op": "tjoin", "fields": jfields([(name, t), ("i-wf", t)]), "vals": [None, None]})
            out.append({"kind": "row", "op": "row", "types": [t], "names": [cps(name)], "vals": [None],
                        "q": {"kind": "str"}})
    # falsy values that are not None: 0 and '' through format, typed and untyped join, make_record, a row, a file
    small = [{"int": str(i)} for i in range(-3, 13)]
    for v in small:
        out.append({"kind": "int", "op": "format", "dt": ":integer", "v": v})
    fz = [("i-id", ":integer"), ("i-wf", ":integer"), ("i-difficulty", ":string"), ("b", ":string")]
    zero = [{"int": "0"}, {"int": "0"}, {"str": []}, {"str": cps("0")}]
    out.append({"kind": "tjoin", "op": "tjoin", "fields": jfields(fz), "vals": zero})
    out.append({"kind": "tjoin", "op": "tjoin", "fields": [], "vals": zero + [None]})
    out.append({"kind": "row", "op": "row", "types": [t for _, t in fz], "names": [cps(x) for x, _ in fz], "vals": zero,
                "q": {"kind": "iter"}})
    out.append({"kind": "row", "op": "row", "types": [t for _, t in fz], "names": [cps(x) for x, _ in fz], "vals": zero,
                "q": {"kind": "str"}})
    out.append({"kind": "mkrec", "op": "mkrec", "fields": jfields(fz),
                "colmap": [{"k": cps(n_), "v": v} for (n_, _), v in zip(fz, zero)]})
    for flds in (fz, []):
        out.append({"kind": "file", "op": "file", "fields": jfields(flds), "recs": [zero, [None] * 4, zero],
                    "gzip": False, "append": None, "via": "open"})
    # values ending in blanks / tabs / CR in the last column of a record, through a file
    tails = [" ", "x ", "\t", "x\t", "\r", "x\r", " x", "\x0c", "x\x1f", "\xa0", "x\u2003"]
    trecs = [[{"str": cps(t_)}, {"str": cps(t_)}] for t_ in tails]
    for via in ("open", "db"):
        out.append({"kind": "file", "op": "file", "fields": jfields([("a", ":string"), ("b", ":string")]), "recs": trecs,
                    "gzip": False, "append": None, "via": via})
    for t_ in tails:
        out.append({"kind": "join", "op": "join", "vs": [cps(t_), cps(t_)]})
        out.append({"kind": "str", "op": "format", "dt": ":string", "v": {"str": cps(t_)}})
    # cast: an unknown datatype is a TSDBError (but '' / None are None before the datatype is looked at), a raw value
    # that is not a string is a TypeError — never a guess
    for dt in (":foo", "", ":Integer", "integer", ":date ", ":float"):
        for raw in ("1", "", "x", None, 1):
            out.append({"kind": "castbad", "dt": dt, "raw": raw})
    for dt in DTYPES:
        out.append({"kind": "castbad", "dt": dt, "raw": 1})
        out.append({"kind": "castbad", "dt": dt, "raw": None})
    # format: explicit default for None in every datatype; default ignored for a value; non-fitting values
    for dt in DTYPES:
        for d in (None, "", "1", "-1", "x@y"):
            for v in (None, {"int": "5"}, {"str": []}, {"str": cps("s")}, {"date": [2001, 1, 1, 0, 0, 0]},
                      {"date": [2001, 1, 1, 0, 0, 7]}):
                out.append({"kind": "fmt", "op": "format", "dt": dt, "v": v, "default": None if d is None else cps(d)})
    return out


class C08(Check):
    pid = "C08"
    quick_cases = 9000
    thorough_cases = 150000
    rule = ("fixed batteries in every run (backslash runs 1-9 at the end of a value, backslash before a raw newline, "
            "U+001C-001F inside values through every operation, int() spellings with blanks/underscores/signs, "
            "day-less numeric-month dates, \\s separators, today/now, times 00:00:SS, rows with a repeated name and "
            "None/'' in every column by every index -7..6, every name, 337 slices incl. negative and reversed, "
            "iteration; typed join/split for every datatype x {None, fitting, ''} x {plain, coded-attribute name} and "
            "wrong column counts; round 6: integers around 2^31/2^53/2^63/2^64/2^127 and -3..12 through format->cast, "
            "typed join/split, a row and a file; all 36 zero/non-zero combinations of hour/minute/second with boundary "
            "values likewise; a backslash before each control character 0-31, DEL, NEL, NBSP, LS, PS and near misses "
            "S N t r 0 @ in unescape/split/typed split; relation files written by tsdb.write (one call / write+append, "
            "plain / gzip, encodings default utf-8 latin-1 utf-16-le utf-32-be) and read back by tsdb.open+split, "
            "Database[...] raw and autocast, select_from(cast) and _select_raw, with values holding LF CR VT FF FS-US NEL "
            "LS PS, trailing blanks, 0 and '' , repeated field names, 0/1/many records and wrong counts at every "
            "position; line reading of arbitrary text; make_record with missing/extra/None/falsy entries; Row str/len/"
            "keys/==, count mismatch, look-alike names of coded attributes; format with explicit default and "
            "non-fitting values; date objects; sequences of calls in one case (each error path followed by normal "
            "calls, repeated calls must agree); values of 41-20000 characters and records of 1500 columns); then strings over an alphabet weighted towards \\ @ s n LF CR U+001F NEL NUL plus "
            "arbitrary Unicode (exhaustive over {\\,@,s,n,LF,a} up to length 4 quick / 5 thorough); records of 1-6 "
            "values or None; integers incl. huge/negative; int() texts over digits _ + - blank TAB LF VT U+001F a NBSP; "
            "finite floats from random bit patterns; date-times 1000-9999 in every documented spelling (the proved "
            "family of Spelling.lean); typed records of 0-5 fields with right/wrong counts and fitting/non-fitting "
            "values; rows addressed by index, slice, name, iteration, str, len, keys (some with non-fitting values or a "
            "count mismatch); random files, make_record, format-with-default and line-reading cases. A case is non-trivial if its input is "
            "non-empty; distinct by its JSON text.")
    assumptions = [
        "float clause is decided by the direct oracle only (CPython repr is not modelled)",
        "int() and date casts of text containing a non-ASCII character (Unicode blanks/digits, \\w \\s \\d of the "
        "regexes) and dates starting with today/now are answered 'unmodelled' and not compared: counted in "
        "coverage.tie as unmodelled:<kind>",
        ":float columns are not part of the typed split/join model",
    ]
    trusted_base = ["hand-written model lean/Verif/C08/Model.lean, tied to delphin.tsdb/itsdb by the correspondence run",
                    "generated tables tsdbEscapes, fieldDelimiter, monthNames, monthNumbers read from the live module",
                    "source translator harness/common/py2lean.py + lean/Verif/Common/PyRt.lean (TRANSLATOR.md) for the "
                    "*_translated theorems (escape, unescape, untyped split/join, make_record)",
                    "file system, gzip and codecs: a relation file is modelled as its decoded text (writeText/linesOf)"]

    props_modules = ["Verif.C08.Props", "Verif.C08.PropsFile", "Verif.C08.Translated", "Verif.C08.TranslatedTyped"]

    def translation_specs(self):
        from .common import py2lean as P
        raw = P.Lst(P.Opt(P.STR))
        return [
            P.Spec(tsdb.escape, "escape", [("string", P.STR)], P.STR),
            P.Spec(tsdb.unescape, "unescape", [("string", P.STR)], P.STR),
            P.Spec(tsdb.split, "split", [("line", P.STR)], raw, fixed={"fields": None}),
            P.Spec(tsdb.join, "join", [("values", raw)], P.STR, fixed={"fields": None}),
            # make_record: the value type is opaque (the model's Val, declared in Model.lean), a field is the mirror
            # structure PyField (attribute names = Lean field names)
            P.Spec(tsdb.make_record, "make_record",
                   [("colmap", P.Dict(P.STR, P.Struct("Verif.C08.Val", {}))),
                    ("fields", P.Lst(P.Struct("Verif.C08.PyField", {"name": P.STR, "datatype": P.STR})))],
                   P.Lst(P.Opt(P.Struct("Verif.C08.Val", {})))),
        ] + self.typed_specs()

    def typed_specs(self):
        """the TYPED branches of split/join (call shape: `fields` non-empty); tsdb.cast / tsdb.format are OPAQUE callees
        (explicit function parameters, instantiated with the model's castPy / formatPy in the theorems); the columns /
        fields arguments of _mismatched_counts are only read inside its unevaluated message"""
        from .common import py2lean as P
        val = P.Struct("Verif.C08.Val", {})
        fld = P.Struct("Verif.C08.PyFieldD", {"name": P.STR, "datatype": P.STR, "default": P.STR})
        cast_o = P.Opaque(tsdb.cast, "castO", [("datatype", P.STR), ("raw_value", P.Opt(P.STR))], val)
        format_o = P.Opaque(tsdb.format, "formatO", [("datatype", P.STR), ("value", val), ("default", P.Opt(P.STR))],
                            P.STR)
        return [
            P.Spec(tsdb._mismatched_counts, "mismatched_counts", [("columns", P.UNUSED), ("fields", P.UNUSED)], P.NONE),
            P.Spec(tsdb.split, "split_typed", [("line", P.STR), ("fields", P.Lst(fld))], P.Lst(val),
                   opaque=[cast_o], assume={"fields": True}),
            P.Spec(tsdb.join, "join_typed", [("values", P.Lst(val)), ("fields", P.Lst(fld))], P.STR,
                   opaque=[format_o], assume={"fields": True}),
        ]

    def translations(self):
        """Source translation (harness/common/py2lean.py, TRANSLATOR.md): the current source text of these functions
        becomes lean/Verif/Generated/TransC08.lean; lean/Verif/C08/Translated.lean proves each equal to the model's."""
        from .common import py2lean as P
        return P.translate_module(self.translation_specs(), "Verif.Trans.C08",
                                  imports=["Verif.C08.Model", "Verif.C08.TypedTypes"])

    def tables(self):
        """Pins: the string/number constants of the anchored functions that the hand-written model mirrors
        (regex patterns, strptime format, year-window constants, escape characters), read from the code objects."""
        from .common import tables as T

        import re as _re

        def strs(fn):
            out = []
            for c in fn.__code__.co_consts:
                if not isinstance(c, str) or c == (fn.__doc__ or None) or c.lower().startswith("invalid"):
                    continue        # docstrings and message texts are not pinned
                if "(?P<" in c:
                    c = _re.sub(r"\s+", "", c)   # re.VERBOSE patterns: layout is irrelevant
                out.append(c)
            return out
        pd = strs(tsdb._parse_datetime)
        df = [c for c in tsdb._date_fix.__code__.co_consts if isinstance(c, (str, int)) and not isinstance(c, bool)]
        fm = [c for c in tsdb.format.__code__.co_consts if isinstance(c, str) and c != tsdb.format.__doc__]
        lit = T.lean_strlit
        return [
            "def c08ParseDatetimeConsts : List String := [%s]" % ", ".join(lit(c) for c in pd),
            "def c08DateFixConsts : List String := [%s]" % ", ".join(lit(str(c)) for c in df),
            "def c08FormatConsts : List String := [%s]" % ", ".join(lit(c) for c in fm),
            # escape/unescape are no longer pinned by their constants: their whole source text is translated to Lean
            # on every run and proved equal to the model (Verif/C08/Translated.lean), which subsumes the constants and
            # does not fire on a harmless reordering of disjoint tests.
        ]

    def cases(self, rng, tier, n):
        yield from fixed_cases()
        L = 4 if tier == "quick" else 5
        alpha = ["\\", "@", "s", "n", "\n", "a"]
        exh = []
        for k in range(0, L + 1):
            for tup in itertools.product(alpha, repeat=k):
                exh.append("".join(tup))
        for s in exh:
            yield {"kind": "escape", "op": "escape", "s": cps(s)}
            yield {"kind": "unescape", "op": "unescape", "s": cps(s)}
        for s in exh[:: (1 if tier == "thorough" else 3)]:
            yield {"kind": "split", "op": "split", "s": cps(s)}
        # every documented spelling of the boundary instants and of a few random ones
        instants = [[1993, 1, 1, 0, 0, 0], [2092, 12, 31, 23, 59, 59], [2000, 2, 29, 12, 0, 0],
                    [1999, 9, 8, 7, 5, 9], [1000, 10, 10, 10, 10, 10], [9999, 12, 31, 0, 0, 1],
                    [2001, 6, 1, 0, 0, 5]]
        instants += [gen_dt(rng) for _ in range(3 if tier == "quick" else 40)]
        for dt in instants:
            for text, inst in spellings(dt, rng):
                yield {"kind": "spelling", "op": "cast", "dt": ":date", "s": cps(text), "denotes": inst}
        yield from self.random_cases(rng, n)

    def random_cases(self, rng, n, kinds=None):
        bounds = {"escape": (0, .12), "unescape": (.12, .24), "split": (.24, .34), "join": (.34, .5),
                  "int": (.5, .58), "castint": (.58, .64), "float": (.64, .70), "date": (.70, .78),
                  "castdate": (.78, .86), "str": (.86, .89), "row": (.89, .95),
                  "typed": (.95, .975), "file": (.975, 1.0)}
        for _ in range(n):
            r = rng.random()
            if kinds:
                lo, hi = bounds[rng.choice(kinds)]
                r = lo + (hi - lo) * rng.random() * 0.999
            if r < 0.12:
                yield {"kind": "escape", "op": "escape", "s": cps(gen_string(rng, 12))}
            elif r < 0.24:
                yield {"kind": "unescape", "op": "unescape", "s": cps(gen_string(rng, 12))}
            elif r < 0.34:
                s = gen_string(rng, 10) + rng.choice(["", "\n", "\n\n", "@", "@\n"])
                yield {"kind": "split", "op": "split", "s": cps(s)}
            elif r < 0.5:
                k = rng.randrange(1, 7)
                vs = [None if rng.random() < 0.2 else cps(gen_string(rng, 6)) for _ in range(k)]
                yield {"kind": "join", "op": "join", "vs": vs}
            elif r < 0.58:
                yield {"kind": "int", "op": "format", "dt": ":integer", "v": {"int": str(gen_int(rng))}}
            elif r < 0.64:
                s = rng.choice(["", "+", "-", "+5", "-0", "007", "1_0", " 1", "1 ", "a", "1a", "--1", "٣", "1.0", "1e3"]
                               + [str(gen_int(rng))] * 3
                               + ["".join(rng.choice("0123456789012_+- \t\n\x0b\x1fa\xa0")
                                          for _ in range(rng.randrange(1, 7)))] * 6)
                yield {"kind": "castint", "op": "cast", "dt": ":integer", "s": cps(s)}
            elif r < 0.70:
                yield {"kind": "float", "v": {"float": struct.unpack("<Q", struct.pack("<d", gen_float(rng)))[0]}}
            elif r < 0.78:
                yield {"kind": "date", "op": "format", "dt": ":date", "v": {"date": gen_dt(rng)}}
            elif r < 0.86:
                # random date-like text (mostly invalid) for the parseDate correspondence
                if rng.random() < 0.5:
                    text, _ = rng.choice(spellings(gen_dt(rng), rng))
                    t = list(text)
                    for _ in range(rng.randrange(0, 3)):
                        i = rng.randrange(len(t) + 1)
                        op = rng.random()
                        if op < 0.4 and t:
                            t[min(i, len(t) - 1)] = rng.choice(DATE_ALPHA)
                        elif op < 0.7:
                            t.insert(i, rng.choice(DATE_ALPHA))
                        elif t:
                            del t[min(i, len(t) - 1)]
                    text = "".join(t)
                    if rng.random() < 0.1:
                        text = text.replace(" ", rng.choice(["\x1f", "\t", "\x1c ", "\n", "\x85"]))
                else:
                    text = "".join(rng.choice(DATE_ALPHA) for _ in range(rng.randrange(1, 14)))
                yield {"kind": "castdate", "op": "cast", "dt": ":date", "s": cps(text)}
            elif r < 0.89:
                yield {"kind": "str", "op": "format", "dt": ":string", "v": {"str": cps(gen_string(rng, 8))}}
            elif r < 0.95:
                yield gen_row(rng)
            elif r < 0.975:
                yield gen_typed(rng)
            else:
                r2 = rng.random()
                yield (gen_file(rng) if r2 < 0.45 else gen_mkrec(rng) if r2 < 0.7 else gen_fmt(rng) if r2 < 0.9
                       else gen_lines(rng))

    def search_cases(self, rng, tier, n, seeds):
        # every one-character escape: a newly accepted (or newly rejected) escape letter has a two-character witness
        for cp in range(0, 128):
            yield {"kind": "unescape", "op": "unescape", "s": cps("\\" + chr(cp))}
        # the typed branches of split/join (translated: split_typed / join_typed): every column count around the field
        # count, columns whose datatypes / defaults / values all differ (a swapped pairing, a wrong attribute handed to
        # cast/format or a dropped count check has a witness here), None in every position
        tf = [("i-id", ":integer"), ("i-wf", ":integer"), ("i-input", ":string"), ("polarity", ":string"),
              ("i-date", ":date")]
        tv = [{"int": "7"}, {"int": "0"}, {"str": cps("a@b\\")}, {"str": cps("")}, {"date": [2001, 2, 3, 4, 5, 6]}]
        for k in range(1, len(tf) + 1):
            for rot in range(k):
                f = (tf[:k])[rot:] + (tf[:k])[:rot]
                v = (tv[:k])[rot:] + (tv[:k])[:rot]
                for vals in (v, [None] * k, v[:-1], v + [None], v[::-1], [None] + v[1:], v[:-1] + [None]):
                    yield {"kind": "tjoin", "op": "tjoin", "fields": jfields(f), "vals": vals}
                cols = {":integer": "12", ":string": "x\\sy", ":date": "3-feb-2001"}
                line = "@".join(cols[t] for _, t in f)
                for ln in (line, line + "\n", line + "@", "@" + line, "@".join([""] * k), line.replace("12", "zz", 1),
                           "@".join(cols[t] for _, t in f[::-1])):
                    yield {"kind": "tsplit", "op": "tsplit", "fields": jfields(f), "s": cps(ln)}
        kinds = sorted({c["kind"] for c in seeds if c["kind"] in
                        ("escape", "unescape", "split", "join", "int", "castint", "float", "date", "castdate",
                         "str", "row")})
        if any(c["kind"] in ("tjoin", "tsplit", "file", "mkrec", "fmt", "lines", "dateobj") for c in seeds):
            kinds = sorted(set(kinds) | {"typed", "join", "split", "file", "date", "int"})
        if any(c["kind"] in ("castdate", "spelling", "date") for c in seeds):
            kinds = sorted(set(kinds) | {"date", "castdate"})
            for y in (1992, 1993, 1994, 2091, 2092, 2093, 2000, 1900, 1000, 9999):
                for (mo, d) in ((1, 1), (12, 31), (2, 28), (9, 8)):
                    for text, inst in spellings([y, mo, d, 23, 59, 58], rng):
                        yield {"kind": "spelling", "op": "cast", "dt": ":date", "s": cps(text), "denotes": inst}
        yield from self.random_cases(rng, n, kinds or None)

    # ---- implementation
    def impl(self, case):
        k = case["kind"]
        if k == "seq":
            return [self.impl(step) for step in case["steps"]]
        if k == "escape":
            return cps(tsdb.escape(uncps(case["s"])))
        if k == "unescape":
            try:
                return {"ok": cps(tsdb.unescape(uncps(case["s"])))}
            except tsdb.TSDBError:
                return {"err": "TSDBError"}
        if k == "split":
            try:
                return {"ok": [None if v is None else cps(v) for v in tsdb.split(uncps(case["s"]))]}
            except tsdb.TSDBError:
                return {"err": "TSDBError"}
        if k == "join":
            vs = [None if v is None else uncps(v) for v in case["vs"]]
            return cps(tsdb.join(vs))
        if k in ("int", "date", "str"):
            return cps(tsdb.format(case["dt"], py_val(case["v"])))
        if k == "castbad":
            try:
                r = tsdb.cast(case["dt"], case["raw"])
                return None if r is None else {"float": True} if isinstance(r, float) else j_val(r)
            except tsdb.TSDBError:
                return {"err": "TSDBError"}
            except TypeError:
                return {"err": "TypeError"}
            except ValueError:
                return {"err": "ValueError"}
        if k == "dateobj":
            y, mo, d = case["v"]["date"][:3]
            return cps(tsdb.format(case["dt"], datetime.date(y, mo, d)))
        if k == "fmt":
            d = case["default"]
            return cps(tsdb.format(case["dt"], py_val(case["v"]), default=None if d is None else uncps(d)))
        if k == "mkrec":
            fields = [tsdb.Field(uncps(f["name"]), f["dt"]) for f in case["fields"]]
            colmap = {uncps(p_["k"]): py_val(p_["v"]) for p_ in case["colmap"]}
            rec = tsdb.make_record(colmap, fields)
            try:
                line = {"ok": cps(tsdb.join(rec, fields))}
            except tsdb.TSDBError:
                line = {"err": "TSDBError"}
            return {"rec": [j_val(x) for x in rec], "line": line}
        if k == "file":
            rich = self.file_rich(case)
            self._rich = (id(case), rich)
            if "err" in rich:
                return {"err": rich["err"]}
            return {"text": cps(rich["text"]), "lines": rich["lines"], "raw": rich[case["via"] + "_raw"],
                    "typed": rich[case["via"] + "_typed"]}
        if k == "lines":
            d = tempfile.mkdtemp(dir="/var/tmp", prefix="c08-")
            try:
                data = uncps(case["s"]).encode("utf-8")
                if case.get("gzip"):
                    with _gzip.open(os.path.join(d, "rel.gz"), "wb") as f:
                        f.write(data)
                else:
                    with open(os.path.join(d, "rel"), "wb") as f:
                        f.write(data)
                with tsdb.open(d, "rel") as f:
                    return [cps(line) for line in f]
            finally:
                shutil.rmtree(d, ignore_errors=True)
        if k in ("castint", "castdate", "spelling"):
            r = do_cast(case["dt"], uncps(case["s"]))
            if case["dt"] == ":date" and re.match(r":?(today|now)", uncps(case["s"])) and isinstance(r, dict) \
                    and "date" in r:
                return {"now": True}      # the current time: not a function of the input
            return r
        if k == "tjoin":
            fields = [tsdb.Field(uncps(f["name"]), f["dt"]) for f in case["fields"]]
            try:
                return {"ok": cps(tsdb.join([py_val(v) for v in case["vals"]], fields))}
            except tsdb.TSDBError:
                return {"err": "TSDBError"}
        if k == "tsplit":
            fields = [tsdb.Field(uncps(f["name"]), f["dt"]) for f in case["fields"]]
            try:
                with warnings.catch_warnings():
                    warnings.simplefilter("ignore")
                    rec = tsdb.split(uncps(case["s"]), fields)
                if any(isinstance(x, datetime.datetime) and x.microsecond for x in rec):
                    return {"now": True}
                return {"ok": [j_val(x) for x in rec]}
            except tsdb.TSDBError:
                return {"err": "TSDBError"}
            except ValueError:
                return {"err": "ValueError"}
            except KeyError:
                return {"err": "KeyError"}
        if k == "float":
            x = py_val(case["v"])
            return cps(tsdb.format(":float", x))
        if k == "row":
            fields = [tsdb.Field(uncps(nm), t) for nm, t in zip(case["names"], case["types"])]
            try:
                row = itsdb.Row(fields, [py_val(v) for v in case["vals"]])
            except tsdb.TSDBError:       # itsdb.ITSDBError: count mismatch
                return {"err": "TSDBError"}
            q = case["q"]

            def jc(f):
                try:
                    with warnings.catch_warnings():
                        warnings.simplefilter("ignore")
                        return f()
                except IndexError:
                    return {"err": "IndexError"}
                except KeyError:
                    return {"err": "KeyError"}
                except ValueError:
                    return {"err": "ValueError"}
            if q["kind"] == "iter":
                return jc(lambda: [j_val(x) for x in row])
            if q["kind"] == "str":
                r = jc(lambda: {"ok": cps(str(row))})
                return r
            if q["kind"] == "len":
                return len(row)
            if q["kind"] == "keys":
                return [cps(x) for x in row.keys()]
            if q["kind"] == "data":
                return [cps(x) for x in row.data]
            if q["kind"] == "idx":
                return jc(lambda: j_val(row[q["i"]]))
            if q["kind"] == "name":
                return jc(lambda: j_val(row[uncps(q["k"])]))
            if q["kind"] == "slice":
                return jc(lambda: [j_val(x) for x in row[slice(q["start"], q["stop"], q["step"])]])
        raise ValueError(k)

    def file_rich(self, case):
        """write the records with tsdb.write (one call, or write + append; plain or gzip) and read the relation back
        through every reading path; everything observed, for the observation (impl) and for the oracle."""
        fields = [tsdb.Field(uncps(f["name"]), f["dt"]) for f in case["fields"]]
        recs = [[py_val(v) for v in r] for r in case["recs"]]
        d = tempfile.mkdtemp(dir="/var/tmp", prefix="c08-")

        def guard(f):
            try:
                with warnings.catch_warnings():
                    warnings.simplefilter("ignore")
                    return {"ok": f()}
            except tsdb.TSDBError:
                return {"err": "TSDBError"}
            except ValueError:
                return {"err": "ValueError"}
            except KeyError:
                return {"err": "KeyError"}
            except IndexError:
                return {"err": "IndexError"}
            except UnicodeError:
                return {"err": "UnicodeError"}

        def jrec(rec):
            return [j_val(x) for x in rec]

        def typed(recs_):
            recs_ = list(recs_)
            if any(isinstance(x, datetime.datetime) and x.microsecond for r in recs_ for x in r):
                raise KeyError("now")       # never generated; keeps the observation a function of the input
            return [jrec(r) for r in recs_]
        try:
            if fields:
                tsdb.write_schema(d, {"rel": fields})
            enc = case.get("encoding")
            ekw = {"encoding": enc} if enc else {}
            try:
                if case["append"] is None:
                    tsdb.write(d, "rel", recs, fields, gzip=case["gzip"], **ekw)
                else:
                    tsdb.write(d, "rel", recs[:case["append"]], fields, **ekw)
                    tsdb.write(d, "rel", recs[case["append"]:], fields, append=True, **ekw)
            except tsdb.TSDBError:
                return {"err": "TSDBError", "left": sorted(x for x in os.listdir(d) if x != "relations")}
            names = sorted(x for x in os.listdir(d) if x != "relations")
            if names == ["rel.gz"]:
                with _gzip.open(os.path.join(d, "rel.gz"), "rb") as f:
                    data = f.read()
            elif names == ["rel"]:
                with open(os.path.join(d, "rel"), "rb") as f:
                    data = f.read()
            else:
                data = b""
            text = data.decode(enc or "utf-8")
            out = {"text": text, "names": names}
            with tsdb.open(d, "rel", **ekw) as f:
                lines = list(f)
            out["lines"] = len(lines)
            out["open_raw"] = guard(lambda: [[None if x is None else cps(x) for x in tsdb.split(ln)] for ln in lines])
            out["open_typed"] = guard(lambda: typed(tsdb.split(ln, fields) for ln in lines))
            if fields:
                out["db_raw"] = guard(lambda: [[None if x is None else cps(x) for x in r]
                                               for r in tsdb.Database(d, **ekw)["rel"]])
                out["db_typed"] = guard(lambda: typed(tsdb.Database(d, autocast=True, **ekw)["rel"]))
                out["select"] = guard(lambda: typed(tsdb.Database(d, **ekw).select_from("rel", cast=True)))
                out["select_auto"] = guard(lambda: typed(tsdb.Database(d, autocast=True, **ekw).select_from("rel")))
                out["select_raw"] = guard(lambda: [[None if x is None else cps(x) for x in r]
                                                   for r in tsdb.Database(d, **ekw)._select_raw("rel")])
            return out
        except UnicodeError:
            return {"err": "UnicodeError"}      # a reading path that ignores the encoding it was given
        finally:
            shutil.rmtree(d, ignore_errors=True)

    def setup(self):
        self.tie = {}

    def _count(self, key):
        self.tie[key] = self.tie.get(key, 0) + 1

    def model_request(self, case):
        if case["kind"] in ("float", "castbad"):
            self._count("no-request:" + case["kind"])
            return None
        if case["kind"] == "seq":
            return {"op": "seq", "steps": [self.model_request(step) for step in case["steps"]]}
        if case["kind"] == "file":
            return {"op": "file", "fields": case["fields"], "recs": case["recs"]}
        return {k: v for k, v in case.items() if k not in ("kind", "denotes", "gzip")}

    def model_compare(self, case, expected, answer):
        if case["kind"] == "seq":
            if not (isinstance(answer, list) and isinstance(expected, list) and len(answer) == len(expected)
                    == len(case["steps"])):
                return "seq: shapes differ"
            for i, (st, e, a) in enumerate(zip(case["steps"], expected, answer)):
                d = self.model_compare(st, e, a)
                if d:
                    return "step %d (%s): %s" % (i, st["kind"], d)
            return None
        kind = case["kind"] + (":" + case["q"]["kind"] if case["kind"] == "row" else "")
        unmod = (isinstance(answer, dict) and answer.get("err") == "unmodelled") or \
                (isinstance(answer, list) and any(isinstance(a, dict) and a.get("err") == "unmodelled" for a in answer))
        if case["kind"] == "file" and isinstance(answer, dict) and answer.get("typed") == {"err": "unmodelled"}:
            # a typed cell outside the cast model (non-ASCII digits ...): text, line count and raw records are compared
            self._count("unmodelled:file-typed")
            expected = dict(expected, typed=None) if isinstance(expected, dict) else expected
            answer = dict(answer, typed=None)
        if unmod:
            # the model declines: counted per kind together with what the implementation did there
            self._count("unmodelled:" + kind)
            what = expected.get("err", "value") if isinstance(expected, dict) and "err" in expected else \
                ("now" if isinstance(expected, dict) and "now" in expected else "value")
            self._count("unmodelled:%s:impl=%s" % (kind, what))
            return None
        self._count("compared")
        self._count("compared:" + kind)
        return super().model_compare(case, expected, answer)

    def extra_evidence(self):
        tie = dict(sorted(getattr(self, "tie", {}).items()))
        return {"tie": tie,
                "tie_note": "compared = model answer compared with the implementation's; unmodelled:<kind> = the model "
                            "answered 'unmodelled' (non-ASCII text in int()/date casts, today/now) and nothing was "
                            "compared; no-request:<kind> = no model request exists (float: direct oracle only)"}

    # ---- direct oracle
    def oracle(self, case, res):
        k = case["kind"]
        fails = []

        def fail(clause, detail):
            fails.append({"clause": clause, "detail": detail})
        if k == "seq":
            seen = {}
            for i, (st, r) in enumerate(zip(case["steps"], res)):
                for f in self.oracle(st, r):
                    fail(f["clause"], "step %d of a sequence of calls: %s" % (i, f["detail"]))
                key = json.dumps(st, sort_keys=True)
                if key in seen and seen[key] != r:
                    fail("the same call gives different answers within one process",
                         repr((i, st, seen[key], r)))
                seen.setdefault(key, r)
            return fails
        if k == "escape":
            s = uncps(case["s"])
            e = uncps(res)
            if "\n" in e or "@" in e:
                fail("escape output contains a raw newline or delimiter", repr(e))
            try:
                if tsdb.unescape(e) != s:
                    fail("unescape(escape(s)) != s", repr((s, e, tsdb.unescape(e))))
            except tsdb.TSDBError as ex:
                fail("unescape(escape(s)) raises", repr((s, e, str(ex))))
        elif k == "unescape":
            t = uncps(case["s"])
            we = well_escaped(t)
            if "ok" in res:
                if not we:
                    fail("unescape accepts a malformed escape", repr(t))
                r = uncps(res["ok"])
                if "\n" not in t and "@" not in t and tsdb.escape(r) != t:
                    fail("escape(unescape(t)) != t on the image of escape", repr((t, r)))
            else:
                if we:
                    fail("unescape rejects a well-formed string", repr(t))
        elif k == "split":
            pass   # split on arbitrary text: correspondence only (the property clause is split∘join)
        elif k == "join":
            vs = [None if v is None else uncps(v) for v in case["vs"]]
            line = uncps(res)
            if "\n" in line:
                fail("joined line contains a raw newline", repr(line))
            if line.count("@") != len(vs) - 1:
                fail("joined line does not have exactly one delimiter per column boundary", repr((vs, line)))
            want = tuple(None if v in (None, "") else v for v in vs)
            for suffix in ("", "\n"):
                try:
                    got = tsdb.split(line + suffix)
                except tsdb.TSDBError as ex:
                    fail("split(join(vs)) raises", repr((vs, line, str(ex))))
                    continue
                if tuple(got) != want:
                    fail("split(join(vs)) != vs", repr((vs, line, got)))
        elif k == "int":
            n = py_val(case["v"])
            back = tsdb.cast(":integer", uncps(res))
            if back != n or type(back) is not int:
                fail("cast(format(int)) != int", repr((n, uncps(res), back)))
        elif k == "str":
            s = py_val(case["v"])
            back = tsdb.cast(":string", uncps(res))
            if (back or "") != s:
                fail("cast(format(str)) != str", repr((s, back)))
        elif k == "float":
            x = py_val(case["v"])
            back = tsdb.cast(":float", uncps(res))
            if not (isinstance(back, float) and struct.pack("<d", back) == struct.pack("<d", x)):
                fail("cast(format(float)) != float", repr((x, uncps(res), back)))
        elif k == "date":
            d = py_val(case["v"])
            with warnings.catch_warnings():
                warnings.simplefilter("ignore")
                back = tsdb.cast(":date", uncps(res))
            if back != d:
                fail("cast(format(datetime)) != datetime", repr((d, uncps(res), back)))
        elif k == "spelling":
            want = {"date": case["denotes"]}
            if res != want:
                fail("a documented date spelling does not denote its instant",
                     repr((uncps(case["s"]), case["denotes"], res)))
        elif k == "tjoin":
            fields = [(uncps(f["name"]), f["dt"]) for f in case["fields"]]
            vals = [py_val(v) for v in case["vals"]]
            if fields and len(vals) != len(fields):
                if res != {"err": "TSDBError"}:
                    fail("typed join accepts a wrong number of values", repr((fields, vals, res)))
            elif "ok" not in res:
                fail("typed join rejects a record with the right number of values", repr((fields, vals, res)))
            else:
                line = uncps(res["ok"])
                if "\n" in line:
                    fail("joined line contains a raw newline", repr(line))
                if vals and line.count("@") != len(vals) - 1:
                    fail("joined line does not have exactly one delimiter per column boundary", repr((vals, line)))
                if fields:
                    wline = "@".join(naive_escape(naive_format(n_, t_, v_)) for (n_, t_), v_ in zip(fields, vals))
                    if line != wline:
                        fail("typed join differs from the documented text of its values", repr((fields, vals, line, wline)))
                if fields and fits(fields, vals):
                    want = read_back(fields, vals)
                    tf = [tsdb.Field(a_, b_) for a_, b_ in fields]
                    for suffix in ("", "\n"):
                        try:
                            with warnings.catch_warnings():
                                warnings.simplefilter("ignore")
                                got = tsdb.split(line + suffix, tf)
                        except Exception as ex:
                            fail("typed split(join(vals)) raises", repr((fields, vals, line, type(ex).__name__)))
                            continue
                        if list(got) != want or [type(x) for x in got] != [type(x) for x in want]:
                            fail("typed split(join(vals)) != vals up to the default for None",
                                 repr((fields, vals, line, got, want)))
        elif k == "tsplit":
            fields = case["fields"]
            line = uncps(case["s"])
            cols = line.rstrip("\n").split("@")
            if all(well_escaped(c) for c in cols):
                if fields and len(cols) != len(fields) and res != {"err": "TSDBError"}:
                    fail("typed split accepts a wrong number of columns", repr((fields, line, res)))
                if not fields and "ok" not in res:
                    fail("untyped split rejects a well-escaped line", repr((line, res)))
            elif res != {"err": "TSDBError"}:
                fail("typed split accepts a malformed escape", repr((line, res)))
        elif k == "row":
            # the row exposes exactly the cast of its stored raw data
            fields = [tsdb.Field(uncps(nm), t) for nm, t in zip(case["names"], case["types"])]
            vals = [py_val(v) for v in case["vals"]]
            q = case["q"]
            n = len(fields)
            if len(vals) != n:
                if res != {"err": "TSDBError"}:
                    fail("Row accepts a wrong number of values", repr((n, len(vals), res)))
                return fails
            raws = [naive_format(f.name, f.datatype, v, coded=False) for f, v in zip(fields, vals)]

            def c(i):
                return do_cast(fields[i].datatype, raws[i])

            def first_err(want):
                if isinstance(want, list) and any(isinstance(w, dict) and "err" in w for w in want):
                    return next(w for w in want if isinstance(w, dict) and "err" in w)
                return want
            if q["kind"] == "iter":
                want = [c(i) for i in range(n)]
            elif q["kind"] == "data":
                want = [cps(r) for r in raws]
            elif q["kind"] == "len":
                want = n
            elif q["kind"] == "keys":
                want = [cps(f.name) for f in fields]
            elif q["kind"] == "str":
                cells = first_err([c(i) for i in range(n)])
                if isinstance(cells, dict):
                    want = cells
                else:
                    with warnings.catch_warnings():
                        warnings.simplefilter("ignore")
                        cast_vals = [tsdb.cast(f.datatype, r) for f, r in zip(fields, raws)]
                    want = {"ok": cps("@".join(naive_escape(naive_format(f.name, f.datatype, v))
                                               for f, v in zip(fields, cast_vals)))}
            elif q["kind"] == "idx":
                want = c(range(n)[q["i"]]) if -n <= q["i"] < n else {"err": "IndexError"}
            elif q["kind"] == "name":
                nm = uncps(q["k"])
                idxs = [i for i, f in enumerate(fields) if f.name == nm]
                want = c(idxs[-1]) if idxs else {"err": "KeyError"}
            else:
                if q["step"] == 0:
                    want = {"err": "ValueError"}
                else:
                    want = [c(i) for i in range(n)[slice(q["start"], q["stop"], q["step"])]]
            want = first_err(want)
            if res != want:
                fail("row access differs from the cast of its stored raw data", repr((q, want, res)))
            if q["kind"] == "iter" and isinstance(res, list):
                # equality and length go through the same iteration
                row = itsdb.Row(fields, vals)
                with warnings.catch_warnings():
                    warnings.simplefilter("ignore")
                    tup = tuple(tsdb.cast(f.datatype, r) for f, r in zip(fields, raws))
                    if not (row == tup) or not (row == list(tup)) or row == tup + (None,) or len(row) != n \
                            or (n and row == tup[:-1]):
                        fail("row equality / length differ from its iteration", repr((tup, len(row))))
        elif k == "castbad":
            dt, raw = case["dt"], case["raw"]
            if raw is None or raw == "":
                want = None
            elif not isinstance(raw, str):
                want = {"err": "TypeError"}
            elif dt == ":float":
                want = {"float": True} if raw == "1" else {"err": "ValueError"}
            elif dt in DTYPES:
                want = res
            else:
                want = {"err": "TSDBError"}
            if res != want:
                fail("cast guesses on an unknown datatype or a non-string raw value", repr((dt, raw, res, want)))
        elif k == "dateobj":
            y, mo, d = case["v"]["date"][:3]
            with warnings.catch_warnings():
                warnings.simplefilter("ignore")
                back = tsdb.cast(":date", uncps(res))
            if back != datetime.datetime(y, mo, d):
                fail("cast(format(date)) is not midnight of that date", repr((y, mo, d, uncps(res), back)))
        elif k == "fmt":
            v = py_val(case["v"])
            dflt = None if case["default"] is None else uncps(case["default"])
            t = case["dt"]
            if v is None:
                want = dflt if dflt is not None else ("-1" if t == ":integer" else "")
            else:
                want = naive_format("", t, v)
            if uncps(res) != want:
                fail("format differs from the documented text", repr((t, v, dflt, uncps(res), want)))
        elif k == "mkrec":
            fields = [(uncps(f["name"]), f["dt"]) for f in case["fields"]]
            pairs = [(uncps(p_["k"]), p_["v"]) for p_ in case["colmap"]]
            want = []
            for name, _ in fields:
                hit = [v for k_, v in pairs if k_ == name]
                want.append(hit[-1] if hit else None)
            if res["rec"] != want:
                fail("make_record does not pick the column values by field name", repr((fields, pairs, res["rec"])))
            if fields and "ok" not in res["line"]:
                fail("join rejects a made record", repr((fields, pairs, res)))
        elif k == "lines":
            text = uncps(case["s"])
            lines = [uncps(x) for x in res]
            want = re.findall(r"[^\n]*\n|[^\n]+", text)       # cut after each newline, and only there
            if lines != want:
                fail("file lines are not the text cut after each newline and only there", repr((text, lines)))
        elif k == "file":
            fields = [(uncps(f["name"]), f["dt"]) for f in case["fields"]]
            recs = [[py_val(v) for v in r] for r in case["recs"]]
            rich = self._rich[1] if getattr(self, "_rich", (None,))[0] == id(case) else self.file_rich(case)
            bad_count = bool(fields) and any(len(r) != len(fields) for r in recs)
            if bad_count:
                if res != {"err": "TSDBError"}:
                    fail("write accepts a record with a wrong number of values", repr((fields, recs, res)))
                elif case["append"] is None and rich.get("left"):
                    fail("a rejected write leaves a relation file behind", repr((recs, rich.get("left"))))
                return fails
            if res == {"err": "UnicodeError"}:
                fail("a writing or reading path ignores the encoding it was given", repr((case.get("encoding"), recs)))
                return fails
            if "err" in res:
                fail("write rejects records with the right number of values", repr((fields, recs, res)))
                return fails
            text = rich["text"]
            if text.count("\n") != len(recs) or res["lines"] != len(recs):
                fail("a relation file does not hold exactly one line per record", repr((recs, text, res["lines"])))
            want_gz = bool(case["gzip"] and recs)
            if rich["names"] != (["rel.gz"] if want_gz else ["rel"]):
                fail("write leaves other files than the requested one", repr(rich["names"]))
            for ln, rec in zip(text.split("\n"), recs):
                if rec and ln.count("@") != len(rec) - 1:
                    fail("joined line does not have exactly one delimiter per column boundary", repr((rec, ln)))
            if fields:
                # every reading path tells the same
                pairs_ = [("open_raw", "db_raw"), ("open_typed", "db_typed")]
                if len({n_ for n_, _ in fields}) == len(fields):
                    # select_from addresses columns by name: only comparable when the names are distinct
                    pairs_ += [("open_raw", "select_raw"), ("open_typed", "select"), ("open_typed", "select_auto")]
                for a, b in pairs_:
                    if rich[a] != rich[b]:
                        fail("reading paths disagree", repr((a, b, rich[a], rich[b])))
                wraw = {"ok": [[(cps(x) if x else None) for x in
                                (naive_format(n_, t_, v_) for (n_, t_), v_ in zip(fields, rec))] for rec in recs]}
                if rich["open_raw"] != wraw:
                    fail("raw records read from the file differ from the formatted values written",
                         repr((fields, recs, rich["open_raw"], wraw)))
                if all(fits(fields, rec) for rec in recs):
                    want = {"ok": [[j_val(x) for x in read_back(fields, rec)] for rec in recs]}
                    if rich["open_typed"] != want:
                        fail("records read from the file differ from the records written (up to the default for None)",
                             repr((fields, recs, rich["open_typed"], want)))
            else:
                wraw = {"ok": [[(cps(str(v)) if v is not None and str(v) != "" else None) for v in rec] or [None]
                               for rec in recs]}
                if rich["open_raw"] != wraw:
                    fail("raw records read from the file differ from the values written", repr((recs, rich["open_raw"])))
        return fails

    def stats(self, case, res, counters):
        def inc(key):
            counters[key] = counters.get(key, 0) + 1
        k = case["kind"]
        inc("kind:" + k)
        if k == "seq":
            inc("seq:steps=%s" % (len(case["steps"]) if len(case["steps"]) < 10 else "10+"))
            for st, r in zip(case["steps"], res):
                self.stats(st, r, counters)
            return
        if isinstance(res, dict) and "err" in res:
            inc("%s:err=%s" % (k, res["err"]))
        if k == "row":
            inc("row:q=" + case["q"]["kind"])
            if len(case["vals"]) != len(case["types"]):
                inc("row:count-mismatch")
        elif k == "file":
            inc("file:%s:%s:via=%s" % ("gzip" if case["gzip"] else "plain",
                                       "one-call" if case["append"] is None else "append", case["via"]))
            inc("file:encoding=%s" % (case.get("encoding") or "default"))
            inc("file:records=%s" % (len(case["recs"]) if len(case["recs"]) < 4 else "4+"))
            if not case["fields"]:
                inc("file:no-fields")
        elif k == "mkrec":
            names = {tuple(f["name"]) for f in case["fields"]}
            keys = {tuple(p_["k"]) for p_ in case["colmap"]}
            inc("mkrec:%s" % ("all-present" if names <= keys else "none-present" if not names & keys else "some-missing"))
        elif k == "fmt":
            inc("fmt:%s:%s" % ("None" if case["v"] is None else next(iter(case["v"])),
                               "default" if case["default"] is not None else "no-default"))
        vals = []
        if k in ("int", "date", "fmt") and case.get("v"):
            vals = [case["v"]]
        elif k in ("tjoin", "row"):
            vals = [v for v in case["vals"] if v]
        elif k == "file":
            vals = [v for r in case["recs"] for v in r if v]
        for v in vals:
            if "int" in v:
                a = abs(int(v["int"]))
                if a >= 2**63:
                    inc(k + ":int>=2^63")
                elif a >= 2**53:
                    inc(k + ":int>=2^53")
            elif "date" in v:
                h, m, s_ = v["date"][3:]
                inc("%s:hms=%s%s%s" % (k, "H" if h else "0", "M" if m else "0", "S" if s_ else "0"))
        if k in ("unescape", "split", "tsplit"):
            t = case["s"]
            for i in range(len(t) - 1):
                if t[i] == 92 and (t[i + 1] < 32 or t[i + 1] == 127):
                    inc(k + ":backslash+control")
                    break

    def nontrivial_key(self, case, res):
        body = case.get("s") or case.get("vs") or case.get("v") or case.get("vals") or case.get("recs") \
            or case.get("colmap") or case.get("fields") or case.get("steps") or case.get("dt")
        if not body:
            return None
        return super().nontrivial_key(case, res)


CHECK = C08()
