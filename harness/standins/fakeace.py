#!/venv/bin/python
"""Stand-in for the ACE binary (C19), used through the documented `executable=` parameter.

`-V`            prints `ACE version 0.9.30`.
otherwise       reads $FAKEACE_DIR/scenario.json, takes the next incarnation number from
                $FAKEACE_DIR/count, prints a `NOTE: tsdb run: (...)` line and then, for every line
                read from stdin, looks for a token `i<digits>x` in it and follows the scenario entry
                of that token: write the given chunks (with delays between them) and either go on
                serving or exit in one of three ways (see `die`).  Everything it reads, writes and
                does is appended to $FAKEACE_DIR/log.jsonl (one JSON object per line).

The answer bytes are fixed by the scenario (the harness knows exactly what was written); the
stand-in adds no logic of its own beyond the line protocol of ACE: one input per line.
"""
import os
import sys

if '-V' in sys.argv:
    sys.stdout.write('ACE version 0.9.30\n')
    sys.exit(0)

import json
import re
import select
import time

D = os.environ['FAKEACE_DIR']
with open(os.path.join(D, 'scenario.json'), encoding='utf-8') as f:
    SCEN = json.load(f)

cf = os.path.join(D, 'count')
try:
    with open(cf) as f:
        K = int(f.read().strip() or 0)
except OSError:
    K = 0
with open(cf, 'w') as f:
    f.write(str(K + 1))

LOGFD = os.open(os.path.join(D, 'log.jsonl'), os.O_WRONLY | os.O_APPEND | os.O_CREAT, 0o644)


def log(**kw):
    kw['k'] = K
    kw['pid'] = os.getpid()
    os.write(LOGFD, (json.dumps(kw) + '\n').encode('utf-8'))


def out(text):
    b = text.encode('utf-8')
    while b:
        n = os.write(1, b)
        b = b[n:]


def write_chunks(chunks):
    for delay, text in chunks:
        if delay:
            time.sleep(delay / 1000.0)
        if text:
            out(text)


_buf = b''
_eof = False


def readline():
    """one line from fd 0 without its newline; None at end of file"""
    global _buf, _eof
    while b'\n' not in _buf and not _eof:
        chunk = os.read(0, 65536)
        if not chunk:
            _eof = True
        else:
            _buf += chunk
    if b'\n' in _buf:
        line, _buf = _buf.split(b'\n', 1)
        return line
    if _buf:
        line, _buf = _buf, b''
        return line
    return None


log(ev='start', argv=sys.argv[1:])
if SCEN.get('runnote', True):
    out('NOTE: tsdb run: (:pid-tag . %d) (:grammar . "fake grammar")\n' % K)

while True:
    raw = readline()
    if raw is None:
        log(ev='eof')
        os._exit(int(SCEN.get('exit_ok', 0)))
    line = raw.decode('utf-8', 'replace')
    m = re.search(r'i(\d+)x', line)
    tok = m.group(0) if m else None
    spec = SCEN['items'].get(tok) if tok else None
    if spec is None:
        spec = SCEN.get('default') or {'chunks': [], 'die': None}
    log(ev='read', line=line, tok=tok)
    die = spec.get('die')
    if die and die.get('mode') == 'exit_first':
        # the exit becomes visible to the parent BEFORE the answer bytes arrive: a helper process
        # that inherited stdout writes them once this process is gone
        me = os.getpid()
        pid = os.fork()
        if pid != 0:
            log(ev='die', tok=tok, mode='exit_first', helper=pid)
            os._exit(int(die.get('code', 1)))
        try:
            os.close(0)
            t0 = time.time()
            while os.getppid() == me and time.time() - t0 < 5:
                time.sleep(0.002)
            time.sleep(0.02)
            write_chunks(spec['chunks'])
            log(ev='wrote', tok=tok, helper=True)
        finally:
            os._exit(0)
    if die and die.get('close_stdin'):
        # before the last bytes go out: whoever has seen the whole answer finds stdin already closed
        os.close(0)
    write_chunks(spec['chunks'])
    log(ev='wrote', tok=tok)
    if not die:
        continue
    if die.get('delay_close'):
        time.sleep(die['delay_close'] / 1000.0)
    os.close(1)
    if die.get('mode') == 'linger_stdin':
        # stays alive (stdin open) until the next input or end of input arrives, then exits
        # without answering
        r, _, _ = select.select([0], [], [], 5.0)
        got = None
        if r:
            nxt = readline()
            got = None if nxt is None else nxt.decode('utf-8', 'replace')
        log(ev='die', tok=tok, mode='linger_stdin', swallowed=got)
        os._exit(int(die.get('code', 1)))
    log(ev='die', tok=tok, mode='plain')
    if die.get('delay_exit'):
        time.sleep(die['delay_exit'] / 1000.0)
    os._exit(int(die.get('code', 1)))
