"""C18 — EDM scores are the weighted triple-overlap ratios: generators, implementation runner, direct oracle.

A case is one call of `edm.compute`:
  {"kind", "golds": [G|null…], "tests": [G|null…], "w": [[num,den]×5 as strings], "ig": bool, "it": bool, "alt": int}
  G = {"t": "eds"|"dmrs", "top": id|null, "nodes": [N…], "links": [[start,end,role-cps,post-cps]…]}
  N = {"id": int, "pred": cps, "lnk": null|["c",cfrom,cto]|["o",a,b], "props": [[cps,cps]…], "carg": cps|null,
       "edges": [[role-cps, target-id]…]}            (edges: EDS only; links: DMRS only, may start at 0 = top link)
EDS node ids are the strings '_<id>' on the Python side (an injective spelling of the model's numbers).
The implementation is run with `fractions.Fraction` weights, so every number compared with the model is exact.
"""
import copy
import itertools
import json
import random
from fractions import Fraction

from .common import paths, tables
from .common.runner import Check

paths.ensure_repo_on_path()
from delphin import dmrs as _dmrs  # noqa: E402
from delphin import edm, eds as _eds  # noqa: E402
from delphin.lnk import Lnk  # noqa: E402


def cps(s):
    return [ord(c) for c in s]


def uncps(a):
    return "".join(chr(x) for x in a)


# ---------------------------------------------------------------------------------------------
# building the real objects

def mk_lnk(l):
    if l is None:
        return None
    if l[0] == "c":
        return Lnk.charspan(l[1], l[2])
    k = abs(l[1]) % 3
    if k == 0:
        return Lnk.chartspan(l[1], l[2])
    if k == 1:
        return Lnk.tokens([l[1], l[2]])
    return Lnk.edge(l[1])


def eid(k):
    return "_%d" % k


def build(G):
    if G is None:
        return None
    if G["t"] == "eds":
        nodes = []
        for n in G["nodes"]:
            nodes.append(_eds.Node(eid(n["id"]), uncps(n["pred"]), type=n.get("type"),
                                   edges={uncps(r): eid(t) for r, t in n["edges"]},
                                   properties={uncps(f): uncps(v) for f, v in n["props"]},
                                   carg=None if n["carg"] is None else uncps(n["carg"]),
                                   lnk=mk_lnk(n["lnk"])))
        return _eds.EDS(top=None if G["top"] is None else eid(G["top"]), nodes=nodes)
    nodes = []
    for n in G["nodes"]:
        nodes.append(_dmrs.Node(n["id"], uncps(n["pred"]), type=n.get("type"),
                                properties={uncps(f): uncps(v) for f, v in n["props"]},
                                carg=None if n["carg"] is None else uncps(n["carg"]),
                                lnk=mk_lnk(n["lnk"])))
    links = [_dmrs.Link(s, e, uncps(r), uncps(p)) for s, e, r, p in G["links"]]
    return _dmrs.DMRS(top=G["top"], index=None, nodes=nodes, links=links)


def weights_of(case):
    return [Fraction(int(n), int(d)) for n, d in case["w"]]


def jfrac(x):
    x = Fraction(x)
    return [str(x.numerator), str(x.denominator)]


def run_compute(golds, tests, w, ig, it):
    """edm.compute with keyword weights on freshly built objects → canonical observation"""
    try:
        s = edm.compute([build(g) for g in golds], [build(t) for t in tests],
                        name_weight=w[0], argument_weight=w[1], property_weight=w[2],
                        constant_weight=w[3], top_weight=w[4],
                        ignore_missing_gold=ig, ignore_missing_test=it)
    except KeyError:
        return {"err": "KeyError"}
    except ZeroDivisionError:
        return {"err": "ZeroDivisionError"}
    p, r, f = s
    return [jfrac(p), jfrac(r), jfrac(f)]


def run_totals(golds, tests, ig, it):
    acc = getattr(edm, "_accumulate", None)
    if acc is None:
        return None
    try:
        m = acc([build(g) for g in golds], [build(t) for t in tests], ig, it)
    except KeyError:
        return {"err": "KeyError"}
    return [[int(x) for x in c] for c in m]


# ---------------------------------------------------------------------------------------------
# naive re-statement of the definition, straight from the case (never touches delphin)

def o_span(n):
    l = n["lnk"]
    if l is not None and l[0] == "c":
        return (l[1], l[2])
    return (-1, -1)


def wellformed(G):
    """inside the property's input space: distinct node ids, every real DMRS link starts at a node"""
    if G is None:
        return True
    ids = [n["id"] for n in G["nodes"]]
    if len(set(ids)) != len(ids):
        return False
    if G["t"] == "dmrs":
        if 0 in ids:
            return False
        for s, e, r, p in G["links"]:
            if s != 0 and s not in ids:
                return False
    return True


def o_triples(G):
    """the five triple lists of a well-formed structure"""
    if G is None:
        return [[], [], [], [], []]
    byid = {n["id"]: n for n in G["nodes"]}
    names = [(o_span(n), uncps(n["pred"])) for n in G["nodes"]]
    args = []
    top = G["top"]
    if G["t"] == "eds":
        for n in G["nodes"]:
            for r, t in n["edges"]:
                if t in byid:
                    args.append((o_span(n), uncps(r), o_span(byid[t])))
    else:
        for s, e, r, p in G["links"]:
            if s == 0:
                if top is None:
                    top = e
                continue
            if uncps(r) == "MOD":
                continue
            if e in byid:
                args.append((o_span(byid[s]), uncps(r), o_span(byid[e])))
    props = [(o_span(n), uncps(f), uncps(v)) for n in G["nodes"] for f, v in n["props"]]
    consts = [(o_span(n), uncps(n["carg"])) for n in G["nodes"] if n["carg"]]
    tops = [o_span(byid[top])] if (top is not None and top in byid) else []
    return [names, args, props, consts, tops]


def o_inter(a, b):
    """size of the multiset intersection by crossing off matched members"""
    b = list(b)
    k = 0
    for x in a:
        if x in b:
            b.remove(x)
            k += 1
    return k


def o_pairs(golds, tests, ig, it):
    n = max(len(golds), len(tests))
    out = []
    for i in range(n):
        g = golds[i] if i < len(golds) else None
        t = tests[i] if i < len(tests) else None
        if g is None and t is None:
            continue
        if g is None and ig:
            continue
        if t is None and it:
            continue
        out.append((g, t))
    return out


def o_totals(golds, tests, ig, it):
    tot = [[0, 0, 0] for _ in range(5)]
    for g, t in o_pairs(golds, tests, ig, it):
        tg, tt = o_triples(g), o_triples(t)
        for c in range(5):
            tot[c][0] += len(tg[c])
            tot[c][1] += len(tt[c])
            tot[c][2] += o_inter(tg[c], tt[c])
    return tot


def o_score(tot, w):
    G = sum(Fraction(tot[c][0]) * w[c] for c in range(5))
    T = sum(Fraction(tot[c][1]) * w[c] for c in range(5))
    B = sum(Fraction(tot[c][2]) * w[c] for c in range(5))
    if G == 0 or T == 0 or B == 0:
        return G, T, B, (Fraction(0), Fraction(0), Fraction(0))
    p, r = B / T, B / G
    return G, T, B, (p, r, 2 * p * r / (p + r))


def alt_graph(G, rng):
    """the same structure with node identifiers renamed injectively and everything reordered"""
    if G is None:
        return None
    H = copy.deepcopy(G)
    ids = sorted({n["id"] for n in H["nodes"]} | {t for n in H["nodes"] for _, t in n["edges"]}
                 | {x for l in H["links"] for x in l[:2]} | ({H["top"]} if H["top"] is not None else set()))
    fresh = rng.sample(range(1, 40000), len(ids))
    ren = dict(zip(ids, fresh))
    if H["t"] == "dmrs":
        ren[0] = 0
    for n in H["nodes"]:
        n["id"] = ren[n["id"]]
        n["edges"] = [[r, ren[t]] for r, t in n["edges"]]
        rng.shuffle(n["edges"])
        rng.shuffle(n["props"])
    H["links"] = [[ren[s], ren[e], r, p] for s, e, r, p in H["links"]]
    # a top given by a 0-link is the FIRST such link: keep the relative order of those
    zero = [l for l in H["links"] if l[0] == 0]
    rest = [l for l in H["links"] if l[0] != 0]
    rng.shuffle(rest)
    pos = sorted(rng.sample(range(len(rest) + len(zero)), len(zero)))
    out, zi, ri = [], 0, 0
    for i in range(len(rest) + len(zero)):
        if zi < len(zero) and pos[zi] == i:
            out.append(zero[zi])
            zi += 1
        else:
            out.append(rest[ri])
            ri += 1
    H["links"] = out
    if H["top"] is not None:
        H["top"] = ren[H["top"]]
    rng.shuffle(H["nodes"])
    return H


# ---------------------------------------------------------------------------------------------
# generators

PREDS = ["_a_n_1", "_b_v_1", "_the_q", "named", "_a_n_1", "udef_q", "_B_v_1"]
ROLES = ["ARG1", "ARG2", "BV", "RSTR", "MOD", "L-INDEX", "ARG1"]
POSTS = ["EQ", "NEQ", "H", "HEQ"]
PROPS = [("NUM", ["sg", "pl"]), ("PERS", ["1", "3"]), ("TENSE", ["past", "pres"]), ("carg", ["Kim"])]
CARGS = ["Kim", "Lee", "", "Kim"]
SPANS = [["c", 0, 3], ["c", 0, 3], ["c", 4, 7], ["c", 4, 7], ["c", 0, 7], ["c", 8, 9], ["c", -1, -1],
         ["c", 3, 0]]
WPOOL = ["0", "0", "1", "1", "1/2", "2", "3/7", "1/3", "5", "1/1000", "1000000", "7/2"]
WNEG = ["-1", "1", "-1/2", "2", "0", "-3", "1/3"]


def wstr(s):
    f = Fraction(s)
    return [str(f.numerator), str(f.denominator)]


def collision_families():
    """groups of DISTINCT character spans that typical packings / hashes of a (cfrom, cto) pair would
    identify: bit-packing `cfrom << k | cto` (k = 8, 15, 16, 31, 32, 63, 64), truncation to k bits,
    decimal packing `cfrom * 10**k + cto`, conversion to float32/float64,
    CPython's int hash modulus 2**61-1, decimal concatenation, sum / xor / order-insensitive keys.
    Offsets around 2**8, 2**15, 2**16 (65530-65545), 2**31, 2**32, 2**63, 2**64 all occur."""
    fams = []
    for k in (8, 15, 16, 31, 32, 63, 64):
        K = 1 << k
        fams.append([[K - 6, K + 5], [K - 5, K + 5], [K - 6, K + 6]])      # same cto, cfrom differs by 1 near 2**k
        fams.append([[0, K + 5], [1, 5]])                                   # (a << k | b) == (c << k | d)
        fams.append([[3, K + 7], [4, 7], [3, 7]])
        fams.append([[K - 1, K], [K, K + 1], [K - 1, K + 1]])
        fams.append([[5, 9], [5 + K, 9], [5, 9 + K], [5 + K, 9 + K]])       # differ only in the high bits
    for B in (1000, 10 ** 4, 10 ** 5, 10 ** 6, 10 ** 9, 10 ** 10):          # cfrom * 10**k + cto
        fams.append([[0, B + 5], [1, 5]])
        fams.append([[3, B + 7], [4, 7], [B - 1, B], [B, B + 1]])
    for K in (1 << 24, 1 << 53):                                            # float32 / float64 mantissa
        fams.append([[K, 2 * K], [K + 1, 2 * K], [K, 2 * K + 1]])
    M = (1 << 61) - 1
    fams.append([[2, 6], [2 + M, 6], [2, 6 + M], [2 + M, 6 + M]])           # hash(int) modulus
    fams.append([[1, 23], [12, 3]])                                         # str(cfrom) + str(cto)
    fams.append([[1, 4], [2, 3], [4, 1], [0, 5]])                           # cfrom + cto, cfrom ^ cto, unordered
    fams.append([[0, 65541], [1, 5], [65530, 65541], [65531, 65541]])
    fams.append([[-1, -1], [-1, 65535], [0, -1], [-1, 0]])                  # the "no span" default vs packings of -1
    return fams


FAMILIES = collision_families()


def partner_span(rng, lnk):
    """a different span that a lossy key would confuse with `lnk` (same family), or None"""
    if lnk is None or lnk[0] != "c":
        return None
    cur = [lnk[1], lnk[2]]
    fams = [f for f in FAMILIES if cur in f]
    if not fams:
        return None
    other = [x for x in rng.choice(fams) if x != cur]
    return ["c"] + list(rng.choice(other))


def big_span(rng):
    r = rng.random()
    if r < 0.6:
        return ["c"] + list(rng.choice(rng.choice(FAMILIES)))
    if r < 0.8:
        b = rng.choice([1 << 8, 1 << 15, 1 << 16, 1 << 31, 1 << 32, 1 << 63, 1 << 64]) + rng.randrange(-10, 10)
        return ["c", b, b + rng.choice([0, 1, 11, 1 << 16, 1 << 32])]
    a = rng.getrandbits(rng.choice([40, 70, 130, 200]))
    return ["c", a, a + rng.getrandbits(rng.choice([3, 20, 70]))]


def is_big(lnk):
    return lnk is not None and lnk[0] == "c" and (abs(lnk[1]) >= 256 or abs(lnk[2]) >= 256)


def gen_lnk(rng, odd=0.08, big=0.12):
    r = rng.random()
    if r < odd / 2:
        return None
    if r < odd:
        return ["o", rng.randrange(0, 9), rng.randrange(0, 9)]
    if r < odd + big:
        return big_span(rng)
    return list(rng.choice(SPANS))


def gen_node(rng, nid, odd):
    props = []
    for f, vs in PROPS:
        if rng.random() < 0.3:
            props.append([cps(f), cps(rng.choice(vs))])
    carg = None
    r = rng.random()
    if r < 0.3:
        carg = cps(rng.choice(CARGS))
    return {"id": nid, "pred": cps(rng.choice(PREDS)), "lnk": gen_lnk(rng, odd), "props": props, "carg": carg,
            "edges": []}


def gen_graph(rng, t=None, n=None, odd=0.08):
    """a structure of the C02/C03 spaces with character-span alignments from a small pool (so spans,
    predicates and whole triples repeat); `odd` is the rate of the unusual features (no/other lnk,
    dangling target, top missing/not a node, MOD links, top given as a 0-link)"""
    t = t or rng.choice(["eds", "dmrs"])
    if n is None:
        n = rng.choice([0, 1, 1, 2, 2, 2, 3, 3, 4, 5, 6])
    base = 10000 if (t == "dmrs" and rng.random() < 0.7) else 1
    ids = [base + i for i in range(n)]
    nodes = [gen_node(rng, i, odd) for i in ids]
    links = []
    targets = list(ids) + ([base + n + 5] if rng.random() < odd else [])
    if t == "eds":
        for nd in nodes:
            k = rng.choice([0, 0, 1, 1, 2, 3])
            roles = rng.sample(sorted(set(ROLES)), min(k, len(set(ROLES))))
            if targets:
                nd["edges"] = [[cps(r), rng.choice(targets)] for r in roles]
    else:
        if ids:
            for _ in range(rng.choice([0, 1, 2, 2, 3, 4, 6])):
                role = rng.choice(ROLES)
                if role == "MOD" and rng.random() > 3 * odd:
                    role = "ARG2"
                links.append([rng.choice(ids), rng.choice(targets), cps(role), cps(rng.choice(POSTS))])
    r = rng.random()
    top = None
    if ids:
        if r < 1 - 2 * odd:
            top = rng.choice(ids)
        elif r < 1 - odd:
            top = None
        else:
            top = base + n + 7
        if t == "dmrs" and rng.random() < odd:
            # legacy top link (start id 0), with or without an explicit top
            links.insert(rng.randrange(len(links) + 1), [0, rng.choice(ids), cps(""), cps("H")])
            if rng.random() < 0.6:
                top = None
            if rng.random() < 0.3:
                links.append([0, rng.choice(ids), cps(""), cps("H")])
    return {"t": t, "top": top, "nodes": nodes, "links": links}


def convert(G):
    """the same dependency structure in the other framework (same triples) where expressible"""
    H = copy.deepcopy(G)
    if G["t"] == "eds":
        H["t"] = "dmrs"
        H["links"] = [[n["id"], t, r, cps("NEQ")] for n in G["nodes"] for r, t in n["edges"]]
        for n in H["nodes"]:
            n["edges"] = []
        return H
    per = {}
    for s, e, r, p in G["links"]:
        if s == 0:
            return H
        per.setdefault(s, []).append((tuple(r), e))
    if any(len({r for r, _ in v}) != len(v) for v in per.values()):
        return H
    ids = {n["id"] for n in G["nodes"]}
    if not set(per) <= ids:
        return H
    H["t"] = "eds"
    H["links"] = []
    for n in H["nodes"]:
        n["edges"] = [[list(r), e] for r, e in per.get(n["id"], []) if uncps(list(r)) != "MOD"]
    return H


def mutate_graph(rng, G):
    """a test structure that overlaps a gold one: a few local edits"""
    H = copy.deepcopy(G)
    for _ in range(rng.choice([0, 1, 1, 2, 3])):
        nodes = H["nodes"]
        op = rng.randrange(14)
        if op >= 12 and nodes:
            n = rng.choice(nodes)
            if n["lnk"] is None or n["lnk"][0] != "c" or partner_span(rng, n["lnk"]) is None:
                n["lnk"] = ["c"] + list(rng.choice(rng.choice(FAMILIES)))
                # the gold side gets the same span, so that only the partner below differs
            n["lnk"] = partner_span(rng, n["lnk"]) or n["lnk"]
        elif op == 0 and nodes:
            rng.choice(nodes)["pred"] = cps(rng.choice(PREDS))
        elif op == 1 and nodes:
            rng.choice(nodes)["lnk"] = gen_lnk(rng)
        elif op == 2 and nodes:
            del nodes[rng.randrange(len(nodes))]         # leaves dangling edges/links TO it
            ids = {n["id"] for n in nodes}
            H["links"] = [l for l in H["links"] if l[0] in ids or l[0] == 0]
        elif op == 3 and nodes:
            n = copy.deepcopy(rng.choice(nodes))           # a second node with the same triples
            n["id"] = max(x["id"] for x in nodes) + 1
            nodes.insert(rng.randrange(len(nodes) + 1), n)
        elif op == 4 and nodes:
            n = rng.choice(nodes)
            if H["t"] == "eds":
                if n["edges"] and rng.random() < 0.5:
                    del n["edges"][rng.randrange(len(n["edges"]))]
                else:
                    have = {tuple(r) for r, _ in n["edges"]}
                    free = [r for r in sorted(set(ROLES)) if tuple(cps(r)) not in have]
                    if free:
                        n["edges"].append([cps(rng.choice(free)), rng.choice(nodes)["id"]])
            else:
                if H["links"] and rng.random() < 0.5:
                    del H["links"][rng.randrange(len(H["links"]))]
                else:
                    H["links"].append([n["id"], rng.choice(nodes)["id"], cps(rng.choice(ROLES[:4])),
                                       cps(rng.choice(POSTS))])
        elif op == 5 and nodes:
            n = rng.choice(nodes)
            if n["props"] and rng.random() < 0.6:
                i = rng.randrange(len(n["props"]))
                if rng.random() < 0.5:
                    del n["props"][i]
                else:
                    f = uncps(n["props"][i][0])
                    n["props"][i][1] = cps(rng.choice(dict(PROPS)[f]))
            else:
                have = {uncps(f) for f, _ in n["props"]}
                free = [(f, vs) for f, vs in PROPS if f not in have]
                if free:
                    f, vs = rng.choice(free)
                    n["props"].append([cps(f), cps(rng.choice(vs))])
        elif op == 6 and nodes:
            rng.choice(nodes)["carg"] = rng.choice([None, cps("Kim"), cps("Lee"), cps("")])
        elif op == 7 and nodes:
            H["top"] = rng.choice([None, rng.choice(nodes)["id"]])
        elif op == 8:
            rng.shuffle(nodes)
        elif op == 9:
            H = convert(H)
        elif op == 10 and H["links"]:
            l = rng.choice(H["links"])
            l[2] = cps(rng.choice(ROLES))
        elif op == 11 and nodes and H["t"] == "eds":
            n = rng.choice(nodes)
            if n["edges"]:
                rng.choice(n["edges"])[1] = rng.choice(nodes)["id"]
    return H


def gen_weights(rng):
    r = rng.random()
    if r < 0.3:
        return [wstr("1")] * 5
    if r < 0.34:
        return [wstr("0")] * 5
    if r < 0.5:
        w = [wstr("0")] * 5
        w[rng.randrange(5)] = wstr(rng.choice(WPOOL[2:]))
        return w
    return [wstr(rng.choice(WPOOL)) for _ in range(5)]


def mk_case(kind, golds, tests, w, ig, it, rng):
    return {"kind": kind, "op": "compute", "golds": golds, "tests": tests, "w": w, "ig": ig, "it": it,
            "alt": rng.randrange(1 << 30)}


def family_cases(rng):
    """deterministic block: for every pair of distinct spans of a collision family, a gold and a test
    structure (EDS and DMRS alternating) that differ ONLY in that span — on a node that is top, has a
    property and a constant, and is source and target of an argument — next to an ordinary small-span
    node.  Correct scores: the name/property/constant/top triples of that node and both argument triples
    do not match.  A second shape puts both spans into ONE structure with the same predicate against a
    structure that has one of them twice (multiset counts would merge)."""
    k = 0
    one = [wstr("1")] * 5
    for fam in FAMILIES:
        for i in range(len(fam)):
            for j in range(len(fam)):
                if i == j:
                    continue
                s1, s2 = ["c"] + list(fam[i]), ["c"] + list(fam[j])
                t = ("eds", "dmrs")[k % 2]
                t2 = ("eds", "dmrs")[(k // 2) % 2]
                k += 1

                def mk(t, sp, sp_b=None):
                    a = {"id": 1, "pred": cps("_a_n_1"), "lnk": list(sp), "props": [[cps("NUM"), cps("sg")]],
                         "carg": cps("Kim"), "edges": []}
                    b = {"id": 2, "pred": cps("_b_v_1"), "lnk": ["c", 0, 3], "props": [], "carg": None, "edges": []}
                    nodes = [a, b]
                    if sp_b is not None:
                        nodes.append({"id": 3, "pred": cps("_a_n_1"), "lnk": list(sp_b),
                                      "props": [[cps("NUM"), cps("sg")]], "carg": cps("Kim"), "edges": []})
                    g = {"t": t, "top": 1, "nodes": nodes, "links": []}
                    if t == "eds":
                        a["edges"] = [[cps("ARG1"), 2]]
                        b["edges"] = [[cps("ARG2"), 1]]
                    else:
                        g["links"] = [[1, 2, cps("ARG1"), cps("NEQ")], [2, 1, cps("ARG2"), cps("NEQ")]]
                    return g
                yield mk_case("family", [mk(t, s1)], [mk(t2, s2)], one, False, False, rng)
                if i < j:
                    yield mk_case("family", [mk(t, s1, s2)], [mk(t2, s1, s1)], one, False, False, rng)
                    yield mk_case("family", [mk(t, s1), mk(t2, s2)], [mk(t2, s2), mk(t, s1)],
                                  [wstr("1"), wstr("0"), wstr("0"), wstr("0"), wstr("1/2")], False, False, rng)


def corner_cases(rng):
    """deterministic block of corners that independent property-breaking changes went through (kept every run):
    structures that are `==` as Python objects (Node.__eq__ ignores lnk) but have different spans; a missing
    member that must be counted (flag False) with the top weight as the only weight; fractional weights
    1/2, 1/4, 1/10; gold without a top against a test with one; present-but-empty EDS()/DMRS() members with
    both ignore flags on (empty is not missing); zero-width spans <3:3> vs <5:5>; DMRS MOD links with every
    post label (never arguments) against the same links with a real role."""
    def nd(i, pred, lnk, props=(), carg=None):
        return {"id": i, "pred": cps(pred), "lnk": list(lnk) if lnk else None,
                "props": [[cps(f), cps(v)] for f, v in props], "carg": None if carg is None else cps(carg), "edges": []}

    def gr(t, top, nodes, links=()):
        g = {"t": t, "top": top, "nodes": copy.deepcopy(nodes), "links": []}
        for s_, e, r, p_ in links:
            if t == "eds":
                next(n for n in g["nodes"] if n["id"] == s_)["edges"].append([cps(r), e])
            else:
                g["links"].append([s_, e, cps(r), cps(p_)])
        return g
    one = [wstr("1")] * 5
    flags = [(False, False), (True, False), (False, True), (True, True)]
    wsets = [one, [wstr("0")] * 4 + [wstr("1")], [wstr("0")] * 4 + [wstr("1/2")],
             [wstr("1/2"), wstr("1/4"), wstr("1/10"), wstr("1/4"), wstr("1/2")],
             [wstr("1/10"), wstr("0"), wstr("1/2"), wstr("1/4"), wstr("0")]]
    a03 = nd(1, "_a_n_1", ["c", 0, 3], [("NUM", "sg")], "Kim")
    a47 = nd(1, "_a_n_1", ["c", 4, 7], [("NUM", "sg")], "Kim")
    b = nd(2, "_b_v_1", ["c", 8, 9])
    z3 = nd(1, "_a_n_1", ["c", 3, 3], [("NUM", "sg")], "Kim")
    z5 = nd(1, "_a_n_1", ["c", 5, 5], [("NUM", "sg")], "Kim")
    for t1 in ("eds", "dmrs"):
        for t2 in ("eds", "dmrs"):
            L = [(1, 2, "ARG1", "NEQ"), (2, 1, "ARG2", "H")]
            for w in wsets:
                # == as objects, different spans; zero-width spans
                yield mk_case("corner", [gr(t1, 1, [a03, b], L)], [gr(t2, 1, [a47, b], L)], w, False, False, rng)
                yield mk_case("corner", [gr(t1, 1, [z3, b], L)], [gr(t2, 1, [z5, b], L)], w, False, False, rng)
                yield mk_case("corner", [gr(t1, 1, [z3, b], L)], [gr(t2, 1, [z3, b], L)], w, False, False, rng)
                # gold without a top vs test with one (and the reverse)
                yield mk_case("corner", [gr(t1, None, [a03, b], L)], [gr(t2, 1, [a03, b], L)], w, False, False, rng)
                yield mk_case("corner", [gr(t1, 2, [a03, b], L)], [gr(t2, None, [a03, b], L)], w, False, False, rng)
                for ig, it in flags:
                    # a missing member (None or short list) next to a full pair
                    full = gr(t1, 1, [a03, b], L)
                    yield mk_case("corner", [full, gr(t2, 2, [a47, b], L)], [full, None], w, ig, it, rng)
                    yield mk_case("corner", [full, None], [full, gr(t2, 2, [a47, b], L)], w, ig, it, rng)
                    yield mk_case("corner", [full], [full, gr(t2, 1, [a47, b])], w, ig, it, rng)
                    yield mk_case("corner", [full, gr(t2, 1, [a47, b])], [full], w, ig, it, rng)
                    # present but empty is not missing
                    yield mk_case("corner", [full, gr(t2, None, [])], [full, gr(t1, 1, [a47, b], L)], w, ig, it, rng)
                    yield mk_case("corner", [full, gr(t1, 1, [a47, b], L)], [full, gr(t2, None, [])], w, ig, it, rng)
                    yield mk_case("corner", [gr(t1, None, [])], [gr(t2, None, [])], w, ig, it, rng)
    # DMRS MOD links are never arguments, whatever the post label
    for post in POSTS:
        for other in ("ARG1", "MOD"):
            g = gr("dmrs", 1, [a03, b], [(1, 2, "MOD", post), (2, 1, "ARG1", "NEQ")])
            t = gr("dmrs", 1, [a03, b], [(1, 2, other, post), (2, 1, "ARG1", "NEQ")])
            e = gr("eds", 1, [a03, b], [(2, 1, "ARG1", "NEQ")])
            for w in (one, [wstr("0"), wstr("1"), wstr("0"), wstr("0"), wstr("0")]):
                yield mk_case("corner", [g], [t], w, False, False, rng)
                yield mk_case("corner", [g], [e], w, False, False, rng)
                yield mk_case("corner", [t], [e], w, False, False, rng)


def tiny_graphs():
    """all structures with at most 2 nodes over 2 spans × 2 predicates, optional ARG1 edge 1→2, top ∈ {None,1}"""
    sp = [["c", 0, 3], ["c", 4, 7]]
    pr = ["_a_n_1", "_b_v_1"]
    out = [None]
    for t in ("eds", "dmrs"):
        out.append({"t": t, "top": None, "nodes": [], "links": []})
    for t in ("eds", "dmrs"):
        for s1, p1 in itertools.product(sp, pr[:1] + pr[1:]):
            n1 = {"id": 1, "pred": cps(p1), "lnk": s1, "props": [], "carg": None, "edges": []}
            for top in (None, 1):
                out.append({"t": t, "top": top, "nodes": [copy.deepcopy(n1)], "links": []})
            for s2 in sp:
                n2 = {"id": 2, "pred": cps(pr[0]), "lnk": s2, "props": [[cps("NUM"), cps("sg")]], "carg": cps("Kim"),
                      "edges": []}
                for edge in (False, True):
                    g = {"t": t, "top": 1, "nodes": [copy.deepcopy(n1), copy.deepcopy(n2)], "links": []}
                    if edge:
                        if t == "eds":
                            g["nodes"][0]["edges"] = [[cps("ARG1"), 2]]
                        else:
                            g["links"] = [[1, 2, cps("ARG1"), cps("NEQ")]]
                    out.append(g)
    return out


class C18(Check):
    pid = "C18"
    quick_cases = 4000
    thorough_cases = 40000
    rule = ("one case = one call of edm.compute on paired lists of 0-6 EDS/DMRS structures (0-6 nodes each; spans, "
            "predicates, roles, properties and constants from small pools so that spans, predicates and whole triples "
            "repeat; test structures mostly derived from the gold ones by local edits, conversion EDS<->DMRS, node "
            "duplication; None entries, unequal list lengths, both ignore flags; Fraction weights incl. zeros). "
            "Deterministic part: all pairs of tiny structures (<=2 nodes over 2 spans x 2 predicates) under 4 flag "
            "settings (quick: a fixed stride). A case is non-trivial when at least one pair is counted and has a "
            "triple; distinct by JSON text.")
    assumptions = [
        "IEEE rounding of the float path is not modelled; the float results are compared with the exact ones "
        "(1e-9 relative) on generated cases only",
        "EDS node identifiers are the strings '_<n>' on the Python side and the numbers n in the model",
        "structures with duplicate node ids, DMRS links starting at a non-node, or negative weights are outside the "
        "property's input space: they go through the model correspondence only, not through the oracle",
    ]
    trusted_base = ["hand-written model lean/Verif/C18/Model.lean, tied to delphin.edm by the correspondence run "
                    "(exact rationals via fractions.Fraction; _accumulate totals and compute scores)"]

    LOG_NAMES = ("logger", "logging", "info", "debug", "INFO", "isEnabledFor")

    def pins(self):
        """(key, values) pairs read from the live code objects: parameter names and defaults, the numeric /
        string constants and the global / attribute names (co_consts, co_names, nested code objects included)
        of every function the model mirrors.  Left out as semantically irrelevant: docstrings, the texts
        handed to the logger (all string constants of `compute` and `_accumulate` are such texts) and the
        names of the logging machinery."""
        import types
        from delphin import lnk as L, sembase as S
        from delphin.dmrs import _dmrs as D
        from delphin.eds import _eds as E

        def walk(code, prefix):
            yield prefix, code
            for c in code.co_consts:
                if isinstance(c, types.CodeType):
                    yield from walk(c, prefix + "." + c.co_name)

        out = []

        def fn_pins(key, fn, strings=True, params=False):
            fn = getattr(fn, "__func__", fn)
            if params:
                code = fn.__code__
                out.append((key + ".params", list(code.co_varnames[:code.co_argcount + code.co_kwonlyargcount])))
                out.append((key + ".defaults", [repr(x) for x in (fn.__defaults__ or ())]
                            + ["%s=%r" % kv for kv in sorted((fn.__kwdefaults__ or {}).items())]))
            for k, code in walk(fn.__code__, key):
                consts = [c for c in code.co_consts if not isinstance(c, types.CodeType)
                          and not (isinstance(c, str) and (c == fn.__doc__ or not strings))]
                out.append((k + ".consts", [repr(c) for c in consts]))
                out.append((k + ".names", [n for n in code.co_names if n not in self.LOG_NAMES]))

        fn_pins("edm.compute", edm.compute, strings=False, params=True)
        fn_pins("edm._accumulate", edm._accumulate, strings=False, params=True)
        for nm in ("_match", "_count", "_prf", "_span", "_names", "_arguments", "_properties", "_constants"):
            fn_pins("edm." + nm, getattr(edm, nm), params=True)
        fn_pins("edm._Count.add", edm._Count.add)
        fn_pins("edm._Match.add", edm._Match.add)
        out.append(("edm._Count._fields", list(edm._Count._fields)))
        out.append(("edm._Match._fields", list(edm._Match._fields)))
        out.append(("edm._Score._fields", list(edm._Score._fields)))
        fn_pins("dmrs.DMRS.arguments", D.DMRS.arguments, params=True)
        fn_pins("dmrs._normalize_top_and_links", D._normalize_top_and_links, params=True)
        out.append(("dmrs.constants", ["BARE_EQ_ROLE=%r" % D.BARE_EQ_ROLE, "TOP_NODE_ID=%r" % D.TOP_NODE_ID,
                                       "H_POST=%r" % D.H_POST, "HEQ_POST=%r" % D.HEQ_POST]))
        fn_pins("eds.EDS.arguments", E.EDS.arguments, params=True)
        fn_pins("dmrs.DMRS.__init__", D.DMRS.__init__, params=True)
        fn_pins("dmrs.Node.__init__", D.Node.__init__, params=True)
        fn_pins("dmrs.Link.__init__", D.Link.__init__, params=True)
        fn_pins("eds.EDS.__init__", E.EDS.__init__, params=True)
        fn_pins("eds.Node.__init__", E.Node.__init__, params=True)
        fn_pins("sembase.SemanticStructure.__init__", S.SemanticStructure.__init__, params=True)
        fn_pins("sembase.SemanticStructure.__contains__", S.SemanticStructure.__contains__)
        fn_pins("sembase.SemanticStructure.__getitem__", S.SemanticStructure.__getitem__)
        fn_pins("lnk.LnkMixin.cfrom", L.LnkMixin.cfrom.fget)
        fn_pins("lnk.LnkMixin.cto", L.LnkMixin.cto.fget)
        fn_pins("lnk.Lnk.charspan", L.Lnk.charspan)
        out.append(("lnk.Lnk.types", ["%s=%r" % (k, getattr(L.Lnk, k))
                                      for k in ("UNSPECIFIED", "CHARSPAN", "CHARTSPAN", "TOKENS", "EDGE")]))
        return out

    def tables(self):
        """the constants of the code the model depends on, read from the live module"""
        from delphin.dmrs import _dmrs as d
        lit = tables.lean_strlit
        lines = ["/-- `dmrs.BARE_EQ_ROLE`: links with this role are not arguments -/",
                 "def c18BareEqRole : List Char := %s" % tables.lean_str(d.BARE_EQ_ROLE),
                 "/-- `dmrs.TOP_NODE_ID`: start id of the legacy top link -/",
                 "def c18TopNodeId : Nat := %d" % int(d.TOP_NODE_ID),
                 "/-- parameters, defaults, constants and names of the functions the C18 model mirrors -/",
                 "def c18Pins : List (String × List String) := ["]
        pins = self.pins()
        for i, (k, vs) in enumerate(pins):
            lines.append("  (%s, [%s])%s" % (lit(k), ", ".join(lit(v) for v in vs), "," if i + 1 < len(pins) else ""))
        lines.append("]")
        return lines

    # ---- generation
    def cases(self, rng, tier, n):
        tiny = tiny_graphs()
        flags = [(False, False), (True, False), (False, True), (True, True)]
        one = [wstr("1")] * 5
        pairs = list(itertools.product(range(len(tiny)), repeat=2))
        stride = 1 if tier == "thorough" else 7
        for k, (i, j) in enumerate(pairs):
            if k % stride:
                continue
            ig, it = flags[k % 4] if (tiny[i] is None or tiny[j] is None) else (False, False)
            yield mk_case("tiny", [copy.deepcopy(tiny[i])], [copy.deepcopy(tiny[j])], one, ig, it, rng)
        # list-shape corners with one fixed non-empty structure
        g = tiny[-1]
        for golds, tests in [([], []), ([g], []), ([], [g]), ([None], [g]), ([g], [None]), ([None], [None]),
                             ([g, None], [None, g]), ([g, g], [g]), ([g], [g, g]), ([None, g], [g])]:
            for ig, it in flags:
                yield mk_case("shape", copy.deepcopy(golds), copy.deepcopy(tests), one, ig, it, rng)
        yield from family_cases(rng)
        yield from corner_cases(rng)
        yield from self.random_cases(rng, n)

    def random_cases(self, rng, n, kinds=None):
        for _ in range(n):
            r = rng.random()
            kind = rng.choice(kinds) if kinds else (
                "derived" if r < 0.45 else "indep" if r < 0.58 else "identical" if r < 0.68 else
                "missing" if r < 0.83 else "malformed" if r < 0.93 else "negw")
            yield self.gen_case(rng, kind)

    def gen_case(self, rng, kind):
        npairs = rng.choice([0, 1, 1, 1, 2, 2, 3, 4, 6])
        odd = 0.08
        golds = [gen_graph(rng, odd=odd) for _ in range(npairs)]
        w = gen_weights(rng)
        ig = it = False
        if rng.random() < 0.2:
            ig, it = rng.random() < 0.5, rng.random() < 0.5
        if kind == "derived" or kind == "negw" or kind == "malformed":
            tests = [mutate_graph(rng, g) for g in golds]
        elif kind == "indep":
            tests = [gen_graph(rng, odd=odd) for _ in range(npairs)]
        elif kind == "identical":
            golds = [g if rng.random() > 0.15 else None for g in golds]
            if rng.random() < 0.5:
                golds = [g for g in golds if g is None or wellformed(g)]
            tests = copy.deepcopy(golds)
            if rng.random() < 0.5:
                w = [wstr(rng.choice(WPOOL[2:])) for _ in range(5)]
        elif kind == "missing":
            tests = [mutate_graph(rng, g) for g in golds]
            golds = [None if rng.random() < 0.25 else g for g in golds]
            tests = [None if rng.random() < 0.25 else t for t in tests]
            r = rng.random()
            if r < 0.3:
                tests = tests[:rng.randrange(len(tests) + 1)]
            elif r < 0.6:
                golds = golds[:rng.randrange(len(golds) + 1)]
            elif r < 0.7:
                tests = tests + [gen_graph(rng) for _ in range(rng.randrange(1, 3))]
            ig, it = rng.random() < 0.5, rng.random() < 0.5
        else:
            raise ValueError(kind)
        if kind == "negw":
            w = [wstr(rng.choice(WNEG)) for _ in range(5)]
        if kind == "malformed":
            # outside the input space: duplicate ids / a DMRS link that starts nowhere
            if not golds:
                golds, tests = [gen_graph(rng, n=2)], [gen_graph(rng, n=2)]
            side = rng.choice([golds, tests])
            G = side[rng.randrange(len(side))]
            if G["nodes"] and rng.random() < 0.55:
                n = copy.deepcopy(rng.choice(G["nodes"]))
                n["lnk"] = gen_lnk(rng)
                n["pred"] = cps(rng.choice(PREDS))
                if G["t"] == "eds":
                    n["edges"] = n["edges"][:1] + ([[cps("ARG3"), rng.choice(G["nodes"])["id"]]]
                                                 if rng.random() < 0.5 else [])
                G["nodes"].insert(rng.randrange(len(G["nodes"]) + 1), n)
            else:
                G2 = gen_graph(rng, t="dmrs", n=rng.choice([1, 2, 3]))
                G2["links"].insert(rng.randrange(len(G2["links"]) + 1),
                                   [77, G2["nodes"][0]["id"], cps(rng.choice(["ARG1", "MOD"])), cps("NEQ")])
                side[side.index(G)] = G2
            if rng.random() < 0.3:
                ig, it = rng.random() < 0.5, rng.random() < 0.5
                side[rng.randrange(len(side))] = None
        return mk_case(kind, golds, tests, w, ig, it, rng)

    def search_cases(self, rng, tier, n, seeds):
        yield from self.random_cases(rng, n, ["derived", "derived", "missing", "identical", "indep"])

    # ---- implementation
    def impl(self, case):
        w = weights_of(case)
        return {"totals": run_totals(case["golds"], case["tests"], case["ig"], case["it"]),
                "score": run_compute(case["golds"], case["tests"], w, case["ig"], case["it"])}

    def model_request(self, case):
        return {"op": "compute", "golds": case["golds"], "tests": case["tests"], "w": case["w"],
                "ig": case["ig"], "it": case["it"]}

    def model_compare(self, case, expected, answer):
        if isinstance(expected, dict) and expected.get("totals") is None and isinstance(answer, dict):
            answer = dict(answer)
            answer["totals"] = None          # edm._accumulate not observable: compare the scores only
        return super().model_compare(case, expected, answer)

    # ---- direct oracle
    def in_space(self, case):
        return (all(wellformed(g) for g in case["golds"]) and all(wellformed(t) for t in case["tests"])
                and all(Fraction(int(n), int(d)) >= 0 for n, d in case["w"]))

    def oracle(self, case, res):
        fails = []

        def fail(clause, detail):
            fails.append({"clause": clause, "detail": detail})
        golds, tests, ig, it = case["golds"], case["tests"], case["ig"], case["it"]
        w = weights_of(case)
        score = res["score"]
        # (0) purity: the same call twice, with calls on other arguments in between, gives the same answer
        first = run_compute(golds, tests, w, ig, it)
        run_compute(golds, golds, [Fraction(1)] * 5, False, False)       # gold-only material on both sides
        run_compute(tests, golds, [Fraction(2), Fraction(0), Fraction(1), Fraction(1), Fraction(3)], not ig, not it)
        tot_between = run_totals(tests, tests, False, False)
        second = run_compute(golds, tests, w, ig, it)
        if not (first == second == score):
            fail("repeating the call (with other calls in between) changes the result",
                 {"observed": score, "first": first, "second": second})
        if res.get("totals") is not None and run_totals(golds, tests, ig, it) != res["totals"]:
            fail("repeating the call (with other calls in between) changes the accumulated counts",
                 {"observed": res["totals"], "between": tot_between})
        if not self.in_space(case):
            return fails
        # (1) the defining equation
        tot = o_totals(golds, tests, ig, it)
        G, T, B, want = o_score(tot, w)
        want_j = [jfrac(x) for x in want]
        if score != want_j:
            fail("scores differ from the weighted multiset-intersection ratios",
                 {"want": want_j, "got": score, "gold_total": str(G), "test_total": str(T), "both_total": str(B)})
        if isinstance(score, dict):
            return fails
        p, r, f = [Fraction(int(a), int(b)) for a, b in score]
        # (2) range
        if not (0 <= p <= 1 and 0 <= r <= 1 and 0 <= f <= 1):
            fail("a score lies outside [0,1]", {"got": score})
        # (3) identical lists with at least one (positively weighted) triple score 1
        if golds == tests and G > 0:
            if (p, r, f) != (1, 1, 1):
                fail("identical lists with at least one triple do not score 1", {"got": score})
        if case["kind"] == "identical" and not ig and not it:
            objs = [build(g) for g in golds]
            try:
                s = edm.compute(objs, objs, *w)           # literally the same objects
                same = [jfrac(x) for x in s]
            except (KeyError, ZeroDivisionError) as e:
                same = {"err": type(e).__name__}
            if same != score:
                fail("passing the same list object twice differs from passing two equal lists",
                     {"same": same, "equal": score})
        # (4) exchanging gold and test swaps precision and recall
        sw = run_compute(tests, golds, w, it, ig)
        if sw != [score[1], score[0], score[2]]:
            fail("exchanging gold and test does not swap precision and recall", {"got": score, "swapped": sw})
        # (5) renaming node identifiers / reordering nodes changes nothing
        arng = random.Random(case.get("alt", 0))
        ag = [alt_graph(g, arng) for g in golds]
        at = [alt_graph(t, arng) for t in tests]
        for nm, a, b in (("gold", ag, tests), ("test", golds, at), ("both", ag, at)):
            alt = run_compute(a, b, w, ig, it)
            if alt != score:
                fail("renaming node identifiers or reordering nodes changes the scores",
                     {"side": nm, "got": score, "after": alt, "alt_golds": a, "alt_tests": b})
                break
        # (6) the float path (positional arguments; defaults when all weights are 1) agrees with the exact value
        try:
            if all(x == 1 for x in w) and not ig and not it:
                fs = edm.compute([build(g) for g in golds], [build(t) for t in tests])
            else:
                fs = edm.compute([build(g) for g in golds], [build(t) for t in tests],
                                 *[float(x) for x in w], ig, it)
            fs = [float(x) for x in fs]
        except (KeyError, ZeroDivisionError) as e:
            fs = {"err": type(e).__name__}
        if isinstance(fs, dict):
            fail("float weights raise where exact weights do not", {"float": fs, "exact": score})
        else:
            # sums of float products may round, so a total that is exactly zero stays zero (all terms are >= 0)
            for x, y in zip(fs, (p, r, f)):
                if abs(x - float(y)) > 1e-9 * max(1.0, abs(float(y))):
                    fail("float scores differ from the exact ratios by more than 1e-9", {"float": fs, "exact": score})
                    break
        return fails

    def classify(self, case, failure):
        return None

    # ---- bookkeeping
    def nontrivial_key(self, case, res):
        if not self.in_space(case):
            return super().nontrivial_key(case, res)
        tot = o_totals(case["golds"], case["tests"], case["ig"], case["it"])
        if sum(c[0] + c[1] for c in tot) == 0:
            return None
        return super().nontrivial_key(case, res)

    def stats(self, case, res, counters):
        def inc(k, by=1):
            counters[k] = counters.get(k, 0) + by
        inc("kind:" + case["kind"])
        inc("pairs:%d" % max(len(case["golds"]), len(case["tests"])))
        if len(case["golds"]) != len(case["tests"]):
            inc("unequal_list_lengths")
        inc("flags:ig=%d,it=%d" % (case["ig"], case["it"]))
        for g, t in itertools.zip_longest(case["golds"], case["tests"]):
            if g is None and t is None:
                inc("branch:both_missing")
            elif g is None:
                inc("branch:gold_missing_%s" % ("skipped" if case["ig"] else "counted"))
            elif t is None:
                inc("branch:test_missing_%s" % ("skipped" if case["it"] else "counted"))
            else:
                inc("branch:pair_%s_%s" % (g["t"], t["t"]))
            for x in (g, t):
                if x is not None:
                    inc("nodes:%d" % min(len(x["nodes"]), 7))
                    if not wellformed(x):
                        inc("structure_outside_space")
                    if any(l[0] == 0 for l in x["links"]):
                        inc("dmrs_top_link")
                    if any(n["lnk"] is None or n["lnk"][0] != "c" for n in x["nodes"]):
                        inc("node_without_charspan")
                    if any(is_big(n["lnk"]) for n in x["nodes"]):
                        inc("structure_with_offset>=256")
                        if any(not is_big(n["lnk"]) for n in x["nodes"]):
                            inc("structure_mixing_small_and_large_offsets")
                    if any(n["lnk"] is not None and n["lnk"][0] == "c" and max(abs(n["lnk"][1]), abs(n["lnk"][2])) >= 65536
                           for n in x["nodes"]):
                        inc("structure_with_offset>=2^16")
                    if any(n["lnk"] is not None and n["lnk"][0] == "c" and max(abs(n["lnk"][1]), abs(n["lnk"][2])) >= 2 ** 63
                           for n in x["nodes"]):
                        inc("structure_with_offset>=2^63")
            if g is not None and t is not None:
                sg = [n["lnk"][1:] for n in g["nodes"] if n["lnk"] is not None and n["lnk"][0] == "c"]
                st = [n["lnk"][1:] for n in t["nodes"] if n["lnk"] is not None and n["lnk"][0] == "c"]
                if any(a != b and any(a in f and b in f for f in FAMILIES) for a in sg for b in st):
                    inc("pair_with_collision_prone_spans")
        ws = weights_of(case)
        inc("weights:" + ("all_one" if all(x == 1 for x in ws) else "all_zero" if all(x == 0 for x in ws)
                          else "negative" if any(x < 0 for x in ws) else "some_zero" if any(x == 0 for x in ws)
                          else "positive"))
        if res is None:
            return
        sc = res["score"]
        if isinstance(sc, dict):
            inc("result:" + sc["err"])
            return
        p, r, f = [Fraction(int(a), int(b)) for a, b in sc]
        inc("result:" + ("all_zero" if (p, r, f) == (0, 0, 0) else "all_one" if (p, r, f) == (1, 1, 1)
                         else "p=1" if p == 1 else "r=1" if r == 1 else "strictly_between"))
        if self.in_space(case):
            tot = o_totals(case["golds"], case["tests"], case["ig"], case["it"])
            G, T, B, _ = o_score(tot, ws)
            if (p, r, f) == (0, 0, 0):
                inc("zero_guard:" + ("T=0" if T == 0 else "G=0" if G == 0 else "B=0"))
            rep = False
            for g, t in o_pairs(case["golds"], case["tests"], case["ig"], case["it"]):
                for x in (g, t):
                    for lst in o_triples(x)[:4]:
                        if len(set(lst)) != len(lst):
                            rep = True
            if rep:
                inc("has_repeated_triple")
            for c, nm in enumerate(("name", "argument", "property", "constant", "top")):
                if tot[c][2]:
                    inc("matched_category:" + nm)

    def shrink(self, case, still_fails):
        cur = case
        changed = True
        budget = 400
        while changed and budget > 0:
            changed = False
            for cand in self._smaller(cur):
                budget -= 1
                if budget <= 0:
                    break
                try:
                    ok = still_fails(cand)
                except Exception:
                    ok = False
                if ok:
                    cur = cand
                    changed = True
                    break
        return cur

    def _smaller(self, case):
        n = max(len(case["golds"]), len(case["tests"]))
        for i in range(n):
            c = copy.deepcopy(case)
            c["golds"] = c["golds"][:i] + c["golds"][i + 1:]
            c["tests"] = c["tests"][:i] + c["tests"][i + 1:]
            yield c
        for side in ("golds", "tests"):
            for gi, g in enumerate(case[side]):
                if g is None:
                    continue
                for ni in range(len(g["nodes"])):
                    c = copy.deepcopy(case)
                    del c[side][gi]["nodes"][ni]
                    ids = {x["id"] for x in c[side][gi]["nodes"]}
                    c[side][gi]["links"] = [l for l in c[side][gi]["links"] if l[0] in ids or l[0] == 0]
                    yield c
                for li in range(len(g["links"])):
                    c = copy.deepcopy(case)
                    del c[side][gi]["links"][li]
                    yield c
                for ni, nd in enumerate(g["nodes"]):
                    for key in ("edges", "props"):
                        for k in range(len(nd[key])):
                            c = copy.deepcopy(case)
                            del c[side][gi]["nodes"][ni][key][k]
                            yield c
                    if nd["carg"] is not None:
                        c = copy.deepcopy(case)
                        c[side][gi]["nodes"][ni]["carg"] = None
                        yield c
        if any(x != ["1", "1"] for x in case["w"]):
            c = copy.deepcopy(case)
            c["w"] = [["1", "1"]] * 5
            yield c


CHECK = C18()


def _selftest():
    """the canonical observation does not depend on dict/set order or on re-running"""
    rng = random.Random(5)
    chk = CHECK
    for case in itertools.islice(chk.cases(rng, "quick", 50), 0, 400, 5):
        a = chk.impl(case)
        b = chk.impl(json.loads(json.dumps(case)))
        assert a == b, (case, a, b)
    return True
