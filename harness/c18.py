"""C18 — EDM scores are the weighted triple-overlap ratios: generators, implementation runner, direct oracle.

A case is one call of `edm.compute`:
  {"kind", "golds": [G|null…], "tests": [G|null…], "w": [[num,den]×5 as strings], "ig": bool, "it": bool, "alt": int}
  G = {"t": "eds"|"dmrs", "top": id|null, "nodes": [N…], "links": [[start,end,role-cps,post-cps]…]}
  N = {"id": int, "pred": cps, "lnk": null|["c",cfrom,cto]|["o",a,b], "props": [[cps,cps]…], "carg": cps|null,
       "edges": [[role-cps, target-id]…]}            (edges: EDS only; links: DMRS only, may start at 0 = top link)
EDS node ids are the strings '_<id>' on the Python side (an injective spelling of the model's numbers).
The implementation is run with `fractions.Fraction` weights, so every number compared with the model is exact.
"""
import argparse
import contextlib
import copy
import io
import itertools
import json
import logging
import os
import random
import shutil
import sys
import tempfile
import warnings
from fractions import Fraction
from pathlib import Path

from .common import paths, tables
from .common.runner import Check

paths.ensure_repo_on_path()
from delphin import dmrs as _dmrs  # noqa: E402
from delphin import edm, eds as _eds  # noqa: E402
from delphin.lnk import Lnk  # noqa: E402


def cps(s):
    return [ord(c) for c in s]


def uncps(a):
    return "".join(chr(x) for x in a)


# ---------------------------------------------------------------------------------------------
# building the real objects

def mk_lnk(l):
    """the Lnk of a node; every second one (by parity of the numbers) through the string constructor
    `Lnk('<0:3>')` the codecs' users write, the others through the class methods"""
    if l is None:
        return None
    text = (l[1] + l[2]) % 2 == 1
    if l[0] == "c":
        return Lnk("<%d:%d>" % (l[1], l[2])) if text else Lnk.charspan(l[1], l[2])
    k = abs(l[1]) % 3
    if k == 0:
        return Lnk("<%d#%d>" % (l[1], l[2])) if text else Lnk.chartspan(l[1], l[2])
    if k == 1:
        return Lnk("<%d %d>" % (l[1], l[2])) if text else Lnk.tokens([l[1], l[2]])
    return Lnk("<@%d>" % l[1]) if text else Lnk.edge(l[1])


def _no_lnk(node, n):
    """a node built without lnk has `Lnk.default()`; every second one gets `lnk = None` instead (cfrom/cto
    then take their AttributeError branch)"""
    if n["lnk"] is None and n["id"] % 2:
        node.lnk = None
    return node


def eid(k):
    return "_%d" % k


def build(G):
    if G is None:
        return None
    if G["t"] == "eds":
        nodes = []
        for n in G["nodes"]:
            nodes.append(_no_lnk(_eds.Node(eid(n["id"]), uncps(n["pred"]), type=n.get("type"),
                                           edges={uncps(r): eid(t) for r, t in n["edges"]},
                                           properties={uncps(f): uncps(v) for f, v in n["props"]},
                                           carg=None if n["carg"] is None else uncps(n["carg"]),
                                           lnk=mk_lnk(n["lnk"])), n))
        return _eds.EDS(top=None if G["top"] is None else eid(G["top"]), nodes=nodes)
    nodes = []
    for n in G["nodes"]:
        nodes.append(_no_lnk(_dmrs.Node(n["id"], uncps(n["pred"]), type=n.get("type"),
                                        properties={uncps(f): uncps(v) for f, v in n["props"]},
                                        carg=None if n["carg"] is None else uncps(n["carg"]),
                                        lnk=mk_lnk(n["lnk"])), n))
    links = [_dmrs.Link(s, e, uncps(r), uncps(p)) for s, e, r, p in G["links"]]
    if not nodes and not links and G["top"] is None:
        return _dmrs.DMRS()                       # every argument defaulted (nodes=None)
    # `index` is not read by edm; every second structure has one (the constructor converts it)
    index = nodes[0].id if len(nodes) % 2 else None
    return _dmrs.DMRS(top=G["top"], index=index, nodes=nodes, links=links)


def weights_of(case):
    return [Fraction(int(n), int(d)) for n, d in case["w"]]


def jfrac(x):
    x = Fraction(x)
    return [str(x.numerator), str(x.denominator)]


def run_compute(golds, tests, w, ig, it):
    """edm.compute with keyword weights on freshly built objects → canonical observation"""
    try:
        s = edm.compute([build(g) for g in golds], [build(t) for t in tests],
                        name_weight=w[0], argument_weight=w[1], property_weight=w[2],
                        constant_weight=w[3], top_weight=w[4],
                        ignore_missing_gold=ig, ignore_missing_test=it)
    except KeyError:
        return {"err": "KeyError"}
    except ZeroDivisionError:
        return {"err": "ZeroDivisionError"}
    p, r, f = s
    return [jfrac(p), jfrac(r), jfrac(f)]


def run_totals(golds, tests, ig, it):
    acc = getattr(edm, "_accumulate", None)
    if acc is None:
        return None
    try:
        m = acc([build(g) for g in golds], [build(t) for t in tests], ig, it)
    except KeyError:
        return {"err": "KeyError"}
    return [[int(x) for x in c] for c in m]


# ---------------------------------------------------------------------------------------------
# the same call with the module logger enabled for INFO: the `if info:` branch of _accumulate is taken and
# the log records show, pair by pair, whether the pair was skipped or which 5x3 counts `_match` returned

class _Capture(logging.Handler):
    def __init__(self):
        super().__init__()
        self.recs = []

    def emit(self, r):
        self.recs.append((r.msg, r.args))


LOG_CATS = ("Names", "Arguments", "Properties", "Constants", "Tops")


@contextlib.contextmanager
def info_logging():
    lg = logging.getLogger("delphin.edm")
    h = _Capture()
    old_level, old_prop = lg.level, lg.propagate
    lg.addHandler(h)
    lg.setLevel(logging.INFO)
    lg.propagate = False
    try:
        yield h
    finally:
        lg.setLevel(old_level)
        lg.propagate = old_prop
        lg.removeHandler(h)


def trace_of(recs, err):
    """[null | [[g,t,b]x5] per pair] from the log records"""
    pairs = []
    cur = None
    for msg, args in recs:
        if msg == "pair %d":
            if cur is not None:
                pairs.append(cur)
            cur = {"n": args[0], "skip": False, "rows": []}
        elif cur is not None and isinstance(msg, str) and msg.endswith("skipping"):
            cur["skip"] = True
        elif cur is not None and args and args[0] in LOG_CATS:
            cur["rows"].append([args[0]] + [int(x) for x in args[1:4]])
    if cur is not None:
        pairs.append(cur)
    out = []
    for i, c in enumerate(pairs):
        if c["n"] != i + 1:
            out.append({"bad_pair_number": c["n"]})
        elif c["skip"] and not c["rows"]:
            out.append(None)
        elif [r[0] for r in c["rows"]] == list(LOG_CATS):
            out.append([r[1:] for r in c["rows"]])
        elif not c["rows"] and err is not None and i == len(pairs) - 1:
            continue                        # the pair whose _match raised: announced, never reported
        else:
            out.append({"bad_rows": c["rows"], "skip": c["skip"]})
    return {"pairs": out, "err": err}


def run_info(golds, tests, w, ig, it):
    """(score, trace) of edm.compute with INFO logging on"""
    err = None
    with info_logging() as h:
        try:
            s = edm.compute([build(g) for g in golds], [build(t) for t in tests],
                            name_weight=w[0], argument_weight=w[1], property_weight=w[2],
                            constant_weight=w[3], top_weight=w[4],
                            ignore_missing_gold=ig, ignore_missing_test=it)
            score = [jfrac(x) for x in s]
        except KeyError:
            score = {"err": "KeyError"}
            err = "KeyError"
        except ZeroDivisionError:
            score = {"err": "ZeroDivisionError"}
    return score, trace_of(h.recs, err)


# ---------------------------------------------------------------------------------------------
# the sub-command `delphin edm GOLD TEST` (delphin.cli.edm): collections read from files through a codec or
# from [incr tsdb()] profiles (MRS converted to EDS), option plumbing -N -A -P -C -T --ignore-missing -p -f

REL = """item:
  i-id :integer :key
  i-input :string

parse:
  parse-id :integer :key
  i-id :integer :key
  readings :integer

result:
  parse-id :integer :key
  result-id :integer
  mrs :string
"""


def _n(i, pred, a, b, props=(), carg=None, edges=()):
    return {"id": i, "pred": cps(pred), "lnk": ["c", a, b], "props": [[cps(f), cps(v)] for f, v in props],
            "carg": None if carg is None else cps(carg), "edges": [[cps(r), t] for r, t in edges]}


# MRS texts and, written out by hand, the EDS that `eds.from_mrs(m, predicate_modifiers=True)` is for them
# (ids: _1 -> 1, x3 -> 3, e2 -> 2); BAD cannot be converted (the sub-command then yields a missing item)
MRS_POOL = {
    "M1": ('[ TOP: h0 INDEX: e2 RELS: < [ _the_q<0:3> LBL: h4 ARG0: x3 [ x NUM: sg ] RSTR: h5 BODY: h6 ] '
           '[ _dog_n_1<4:7> LBL: h7 ARG0: x3 ] [ _bark_v_1<8:13> LBL: h1 ARG0: e2 [ e TENSE: pres ] ARG1: x3 ] > '
           'HCONS: < h0 qeq h1 h5 qeq h7 > ]',
           {"t": "eds", "top": 2, "links": [], "nodes": [
               _n(1, "_the_q", 0, 3, edges=[("BV", 3)]), _n(3, "_dog_n_1", 4, 7, props=[("NUM", "sg")]),
               _n(2, "_bark_v_1", 8, 13, props=[("TENSE", "pres")], edges=[("ARG1", 3)])]}),
    "M2": ('[ TOP: h0 INDEX: e2 RELS: < [ proper_q<0:3> LBL: h4 ARG0: x3 RSTR: h5 BODY: h6 ] '
           '[ named<0:3> LBL: h7 ARG0: x3 CARG: "Kim" ] [ _sleep_v_1<4:10> LBL: h1 ARG0: e2 ARG1: x3 ] > '
           'HCONS: < h0 qeq h1 h5 qeq h7 > ]',
           {"t": "eds", "top": 2, "links": [], "nodes": [
               _n(1, "proper_q", 0, 3, edges=[("BV", 3)]), _n(3, "named", 0, 3, carg="Kim"),
               _n(2, "_sleep_v_1", 4, 10, edges=[("ARG1", 3)])]}),
    "M3": ('[ TOP: h0 INDEX: e2 RELS: < [ _rain_v_1<3:8> LBL: h1 ARG0: e2 ] > HCONS: < h0 qeq h1 > ]',
           {"t": "eds", "top": 2, "links": [], "nodes": [_n(2, "_rain_v_1", 3, 8)]}),
    "M4": ('[ TOP: h0 INDEX: e2 RELS: < [ _the_q<0:3> LBL: h4 ARG0: x3 [ x NUM: pl ] RSTR: h5 BODY: h6 ] '
           '[ _dog_n_1<4:8> LBL: h7 ARG0: x3 ] [ _bark_v_1<9:13> LBL: h1 ARG0: e2 [ e TENSE: pres ] ARG1: x3 ] > '
           'HCONS: < h0 qeq h1 h5 qeq h7 > ]',
           {"t": "eds", "top": 2, "links": [], "nodes": [
               _n(1, "_the_q", 0, 3, edges=[("BV", 3)]), _n(3, "_dog_n_1", 4, 8, props=[("NUM", "pl")]),
               _n(2, "_bark_v_1", 9, 13, props=[("TENSE", "pres")], edges=[("ARG1", 3)])]}),
    "BAD": ('[ TOP: h0 INDEX: e2 RELS: < [ _a_v_1<0:1> LBL: h1 ARG0: e2 ARG1: e3 ] '
            '[ _b_v_1<2:3> LBL: h1 ARG0: e3 ARG1: e2 ] > HCONS: < h0 qeq h1 > ]', None),
}

CLI_FORMATS = {"edsjson": "eds", "eds": "eds", "dmrsjson": "dmrs", "simpledmrs": "dmrs"}
IM = ("none", "gold", "test", "both")


def text_clean(G):
    """can the structure be written in the native text formats without the codec normalising or rejecting it?
    (they fold the case of predicates and property names and have their own token syntax; the JSON formats
    keep every string as it is)"""
    import re
    for n in G["nodes"]:
        if not re.fullmatch(r"_?[a-z][a-z0-9_]*", uncps(n["pred"])) or uncps(n["pred"]).endswith("_rel"):
            return False
        if n["carg"] is not None and not re.fullmatch(r"[A-Za-z0-9]+", uncps(n["carg"])):
            return False
        if any(not re.fullmatch(r"[A-Z]+", uncps(f)) or not re.fullmatch(r"[a-z0-9]+", uncps(v))
               for f, v in n["props"]):
            return False
        if any(not re.fullmatch(r"[A-Z][A-Z0-9-]*", uncps(r)) for r, _ in n["edges"]):
            return False
    if any(not re.fullmatch(r"[A-Z][A-Z0-9-]*", uncps(l[2])) for l in G["links"]):
        return False
    return True


def cli_graphs(case, side):
    """the graphs the sub-command should see on that side, according to the case"""
    return case[side]


def write_cli_sources(case, tmp):
    """GOLD and TEST as files / profile directories under tmp; returns (gold_path, test_path)"""
    spec = case["cli"]
    out = []
    for side in ("golds", "tests"):
        path = os.path.join(tmp, side)
        if os.path.isdir(path):
            shutil.rmtree(path)
        elif os.path.exists(path):
            os.unlink(path)
        src = spec["src"]
        if src == "file":
            from delphin import util as _u
            codec = _u.import_codec(spec["fmt"])
            objs = [build(_typed(g)) for g in case[side]]
            codec.dump(objs, path)
        elif src == "mrsfile":
            with open(path, "w", encoding="utf-8") as f:
                f.write("".join(MRS_POOL[k][0] + "\n" for k in spec[side]))
        elif src == "profile":
            os.makedirs(path)
            with open(os.path.join(path, "relations"), "w") as f:
                f.write(REL)
            it, pa, rs = [], [], []
            for iid, results in enumerate(spec[side], 1):
                it.append("%d@sentence %d" % (iid, iid))
                pa.append("%d@%d@%d" % (iid * 10, iid, len(results)))
                for rid, k in enumerate(results):
                    rs.append("%d@%d@%s" % (iid * 10, rid, MRS_POOL[k][0]))
            for nm, rows in (("item", it), ("parse", pa), ("result", rs)):
                with open(os.path.join(path, nm), "w", encoding="utf-8") as f:
                    f.write("".join(r + "\n" for r in rows))
        else:
            raise ValueError(src)
        out.append(Path(path))
    return out


def _typed(G):
    """text formats can only write properties of a node that has a type"""
    H = copy.deepcopy(G)
    for n in H["nodes"]:
        if n["props"] and not n.get("type"):
            n["type"] = "x"
    return H


def parse_cli_output(text, exact):
    lines = text.splitlines()
    if len(lines) != 3 or [l.split(":")[0].strip() for l in lines] != ["Precision", "Recall", "F-score"]:
        return {"bad_output": text[:200]}
    vals = [l.split("\t", 1)[1] for l in lines]
    try:
        if exact:
            return [jfrac(Fraction(v)) for v in vals]
        return [float(v) for v in vals]
    except (ValueError, ZeroDivisionError):
        return {"bad_output": text[:200]}


def run_cli_exact(case, tmp):
    """delphin.cli.edm.call_compute on an argparse namespace carrying Fraction weights: exact scores"""
    from delphin.cli import edm as cli_edm
    spec = case["cli"]
    gp, tp = write_cli_sources(case, tmp)
    w = weights_of(case)
    ns = argparse.Namespace(GOLD=gp, TEST=tp, format=spec.get("fmt", "eds"), p=spec.get("p", 0),
                            N=w[0], A=w[1], P=w[2], C=w[3], T=w[4], ignore_missing=spec["im"])
    buf = io.StringIO()
    try:
        with contextlib.redirect_stdout(buf), warnings.catch_warnings():
            warnings.simplefilter("ignore")
            cli_edm.call_compute(ns)
    except KeyError:
        return {"err": "KeyError"}
    except ZeroDivisionError:
        return {"err": "ZeroDivisionError"}
    return parse_cli_output(buf.getvalue(), True)


def run_cli_main(case, tmp):
    """the whole command line: `delphin edm GOLD TEST -f FMT -p N -N .. -T .. --ignore-missing X [-vv]`
    through delphin.__main__.main() (argparse, float weights, verbosity -> logger level)"""
    import delphin.__main__ as dm
    spec = case["cli"]
    gp, tp = write_cli_sources(case, tmp)
    w = weights_of(case)
    argv = ["delphin", "edm", str(gp), str(tp)]
    if spec.get("fmt", "eds") != "eds" or case["alt"] % 2:
        argv += ["-f", spec.get("fmt", "eds")] if case["alt"] % 4 < 2 else ["--format", spec.get("fmt", "eds")]
    if spec.get("p", 0) != 0 or case["alt"] % 3 == 0:
        argv += ["-p", str(spec.get("p", 0))]
    for flag, x in zip("NAPCT", w):
        if x != 1 or case["alt"] % 5 == 0:
            argv += ["-" + flag, repr(float(x))]
    if spec["im"] != "none" or case["alt"] % 7 == 0:
        argv += ["--ignore-missing", spec["im"]]
    argv += ["-v"] * spec.get("v", 0)
    buf = io.StringIO()
    dl = logging.getLogger("delphin")
    old_level = dl.level
    old_argv = sys.argv
    sys.argv = argv
    cl = logging.getLogger("delphin.cli.edm")        # its DEBUG lines are not part of the observation
    nh = logging.NullHandler()
    cl.addHandler(nh)
    cl_prop, cl.propagate = cl.propagate, False
    try:
        with info_logging() as h:
            logging.getLogger("delphin.edm").setLevel(logging.NOTSET)     # inherit what main() sets
            with contextlib.redirect_stdout(buf), warnings.catch_warnings():
                warnings.simplefilter("ignore")
                dm.main()
            logged = len(h.recs)
    except KeyError:
        return {"err": "KeyError"}, 0, argv
    except ZeroDivisionError:
        return {"err": "ZeroDivisionError"}, 0, argv
    except SystemExit as e:
        return {"err": "SystemExit", "code": str(e.code)[:100]}, 0, argv
    finally:
        sys.argv = old_argv
        dl.setLevel(old_level)
        cl.removeHandler(nh)
        cl.propagate = cl_prop
    return parse_cli_output(buf.getvalue(), False), logged, argv


# ---------------------------------------------------------------------------------------------
# naive re-statement of the definition, straight from the case (never touches delphin)

def o_span(n):
    l = n["lnk"]
    if l is not None and l[0] == "c":
        return (l[1], l[2])
    return (-1, -1)


def wellformed(G):
    """inside the property's input space: distinct node ids, every real DMRS link starts at a node"""
    if G is None:
        return True
    ids = [n["id"] for n in G["nodes"]]
    if len(set(ids)) != len(ids):
        return False
    if G["t"] == "dmrs":
        if 0 in ids:
            return False
        for s, e, r, p in G["links"]:
            if s != 0 and s not in ids:
                return False
    return True


def o_triples(G):
    """the five triple lists of a well-formed structure"""
    if G is None:
        return [[], [], [], [], []]
    byid = {n["id"]: n for n in G["nodes"]}
    names = [(o_span(n), uncps(n["pred"])) for n in G["nodes"]]
    args = []
    top = G["top"]
    if G["t"] == "eds":
        for n in G["nodes"]:
            for r, t in n["edges"]:
                if t in byid:
                    args.append((o_span(n), uncps(r), o_span(byid[t])))
    else:
        for s, e, r, p in G["links"]:
            if s == 0:
                if top is None:
                    top = e
                continue
            if uncps(r) == "MOD":
                continue
            if e in byid:
                args.append((o_span(byid[s]), uncps(r), o_span(byid[e])))
    props = [(o_span(n), uncps(f), uncps(v)) for n in G["nodes"] for f, v in n["props"]]
    consts = [(o_span(n), uncps(n["carg"])) for n in G["nodes"] if n["carg"]]
    tops = [o_span(byid[top])] if (top is not None and top in byid) else []
    return [names, args, props, consts, tops]


def o_inter(a, b):
    """size of the multiset intersection by crossing off matched members"""
    b = list(b)
    k = 0
    for x in a:
        if x in b:
            b.remove(x)
            k += 1
    return k


def o_pairs(golds, tests, ig, it):
    n = max(len(golds), len(tests))
    out = []
    for i in range(n):
        g = golds[i] if i < len(golds) else None
        t = tests[i] if i < len(tests) else None
        if g is None and t is None:
            continue
        if g is None and ig:
            continue
        if t is None and it:
            continue
        out.append((g, t))
    return out


def o_totals(golds, tests, ig, it):
    tot = [[0, 0, 0] for _ in range(5)]
    for g, t in o_pairs(golds, tests, ig, it):
        tg, tt = o_triples(g), o_triples(t)
        for c in range(5):
            tot[c][0] += len(tg[c])
            tot[c][1] += len(tt[c])
            tot[c][2] += o_inter(tg[c], tt[c])
    return tot


def o_score(tot, w):
    G = sum(Fraction(tot[c][0]) * w[c] for c in range(5))
    T = sum(Fraction(tot[c][1]) * w[c] for c in range(5))
    B = sum(Fraction(tot[c][2]) * w[c] for c in range(5))
    if G == 0 or T == 0 or B == 0:
        return G, T, B, (Fraction(0), Fraction(0), Fraction(0))
    p, r = B / T, B / G
    return G, T, B, (p, r, 2 * p * r / (p + r))


def alt_graph(G, rng):
    """the same structure with node identifiers renamed injectively and everything reordered"""
    if G is None:
        return None
    H = copy.deepcopy(G)
    ids = sorted({n["id"] for n in H["nodes"]} | {t for n in H["nodes"] for _, t in n["edges"]}
                 | {x for l in H["links"] for x in l[:2]} | ({H["top"]} if H["top"] is not None else set()))
    fresh = rng.sample(range(1, 40000), len(ids))
    ren = dict(zip(ids, fresh))
    if H["t"] == "dmrs":
        ren[0] = 0
    for n in H["nodes"]:
        n["id"] = ren[n["id"]]
        n["edges"] = [[r, ren[t]] for r, t in n["edges"]]
        rng.shuffle(n["edges"])
        rng.shuffle(n["props"])
    H["links"] = [[ren[s], ren[e], r, p] for s, e, r, p in H["links"]]
    # a top given by a 0-link is the FIRST such link: keep the relative order of those
    zero = [l for l in H["links"] if l[0] == 0]
    rest = [l for l in H["links"] if l[0] != 0]
    rng.shuffle(rest)
    pos = sorted(rng.sample(range(len(rest) + len(zero)), len(zero)))
    out, zi, ri = [], 0, 0
    for i in range(len(rest) + len(zero)):
        if zi < len(zero) and pos[zi] == i:
            out.append(zero[zi])
            zi += 1
        else:
            out.append(rest[ri])
            ri += 1
    H["links"] = out
    if H["top"] is not None:
        H["top"] = ren[H["top"]]
    rng.shuffle(H["nodes"])
    return H


# ---------------------------------------------------------------------------------------------
# generators

PREDS = ["_a_n_1", "_b_v_1", "_the_q", "named", "_a_n_1", "udef_q", "_B_v_1"]
ROLES = ["ARG1", "ARG2", "BV", "RSTR", "MOD", "L-INDEX", "ARG1"]
POSTS = ["EQ", "NEQ", "H", "HEQ"]
PROPS = [("NUM", ["sg", "pl"]), ("PERS", ["1", "3"]), ("TENSE", ["past", "pres"]), ("carg", ["Kim"])]
CARGS = ["Kim", "Lee", "", "Kim"]
# spellings that a normalising comparison would identify (case, `_rel` suffix, quotes, NFC/NFD, full width,
# surrounding blanks): the triples are compared as the strings they are
V_PREDS = ["_a_n_1", "_A_n_1", "_a_n_1_rel", '"_a_n_1"', "_a_N_1", "_caf\u00e9_n_1", "_cafe\u0301_n_1", "_a_n_1 ",
           "\uff3fa_n_1", "_stra\u00dfe_n_1", "_strasse_n_1"]
V_ROLES = ["ARG1", "arg1", "Arg1", "ARG1 ", "ARG\uff11", "MOD", "mod", "Mod"]
V_PROPS = [("NUM", ["sg", "SG", "Sg", "sg "]), ("num", ["sg", "SG"]), ("Num", ["sg"]), ("CARG", ["Kim"])]
V_CARGS = ["Kim", "kim", "KIM", "Kim ", "\u00e9", "e\u0301", "\u212a" "im", "0", " "]
SPANS = [["c", 0, 3], ["c", 0, 3], ["c", 4, 7], ["c", 4, 7], ["c", 0, 7], ["c", 8, 9], ["c", -1, -1],
         ["c", 3, 0]]
WPOOL = ["0", "0", "1", "1", "1/2", "2", "3/7", "1/3", "5", "1/1000", "1000000", "7/2"]
WNEG = ["-1", "1", "-1/2", "2", "0", "-3", "1/3"]


def wstr(s):
    f = Fraction(s)
    return [str(f.numerator), str(f.denominator)]


def collision_families():
    """groups of DISTINCT character spans that typical packings / hashes of a (cfrom, cto) pair would
    identify: bit-packing `cfrom << k | cto` (k = 8, 15, 16, 31, 32, 63, 64), truncation to k bits,
    decimal packing `cfrom * 10**k + cto`, conversion to float32/float64,
    CPython's int hash modulus 2**61-1, decimal concatenation, sum / xor / order-insensitive keys.
    Offsets around 2**8, 2**15, 2**16 (65530-65545), 2**31, 2**32, 2**63, 2**64 all occur."""
    fams = []
    for k in (8, 15, 16, 31, 32, 63, 64):
        K = 1 << k
        fams.append([[K - 6, K + 5], [K - 5, K + 5], [K - 6, K + 6]])      # same cto, cfrom differs by 1 near 2**k
        fams.append([[0, K + 5], [1, 5]])                                   # (a << k | b) == (c << k | d)
        fams.append([[3, K + 7], [4, 7], [3, 7]])
        fams.append([[K - 1, K], [K, K + 1], [K - 1, K + 1]])
        fams.append([[5, 9], [5 + K, 9], [5, 9 + K], [5 + K, 9 + K]])       # differ only in the high bits
    for B in (1000, 10 ** 4, 10 ** 5, 10 ** 6, 10 ** 9, 10 ** 10):          # cfrom * 10**k + cto
        fams.append([[0, B + 5], [1, 5]])
        fams.append([[3, B + 7], [4, 7], [B - 1, B], [B, B + 1]])
    for K in (1 << 24, 1 << 53):                                            # float32 / float64 mantissa
        fams.append([[K, 2 * K], [K + 1, 2 * K], [K, 2 * K + 1]])
    M = (1 << 61) - 1
    fams.append([[2, 6], [2 + M, 6], [2, 6 + M], [2 + M, 6 + M]])           # hash(int) modulus
    fams.append([[1, 23], [12, 3]])                                         # str(cfrom) + str(cto)
    fams.append([[1, 4], [2, 3], [4, 1], [0, 5]])                           # cfrom + cto, cfrom ^ cto, unordered
    fams.append([[0, 65541], [1, 5], [65530, 65541], [65531, 65541]])
    fams.append([[-1, -1], [-1, 65535], [0, -1], [-1, 0]])                  # the "no span" default vs packings of -1
    return fams


FAMILIES = collision_families()


def partner_span(rng, lnk):
    """a different span that a lossy key would confuse with `lnk` (same family), or None"""
    if lnk is None or lnk[0] != "c":
        return None
    cur = [lnk[1], lnk[2]]
    fams = [f for f in FAMILIES if cur in f]
    if not fams:
        return None
    other = [x for x in rng.choice(fams) if x != cur]
    return ["c"] + list(rng.choice(other))


def big_span(rng):
    r = rng.random()
    if r < 0.6:
        return ["c"] + list(rng.choice(rng.choice(FAMILIES)))
    if r < 0.8:
        b = rng.choice([1 << 8, 1 << 15, 1 << 16, 1 << 31, 1 << 32, 1 << 63, 1 << 64]) + rng.randrange(-10, 10)
        return ["c", b, b + rng.choice([0, 1, 11, 1 << 16, 1 << 32])]
    a = rng.getrandbits(rng.choice([40, 70, 130, 200]))
    return ["c", a, a + rng.getrandbits(rng.choice([3, 20, 70]))]


def is_big(lnk):
    return lnk is not None and lnk[0] == "c" and (abs(lnk[1]) >= 256 or abs(lnk[2]) >= 256)


def gen_lnk(rng, odd=0.08, big=0.12):
    r = rng.random()
    if r < odd / 2:
        return None
    if r < odd:
        return ["o", rng.randrange(0, 9), rng.randrange(0, 9)]
    if r < odd + big:
        return big_span(rng)
    return list(rng.choice(SPANS))


def gen_node(rng, nid, odd):
    props = []
    for f, vs in PROPS:
        if rng.random() < 0.3:
            props.append([cps(f), cps(rng.choice(vs))])
    carg = None
    r = rng.random()
    if r < 0.3:
        carg = cps(rng.choice(CARGS))
    pred = rng.choice(PREDS)
    if rng.random() < 0.06:
        pred = rng.choice(V_PREDS)
        if rng.random() < 0.5:
            f, vs = rng.choice(V_PROPS)
            props = [q for q in props if uncps(q[0]) != f] + [[cps(f), cps(rng.choice(vs))]]
        if rng.random() < 0.5:
            carg = cps(rng.choice(V_CARGS))
    return {"id": nid, "pred": cps(pred), "lnk": gen_lnk(rng, odd), "props": props, "carg": carg,
            "edges": []}


def gen_graph(rng, t=None, n=None, odd=0.08):
    """a structure of the C02/C03 spaces with character-span alignments from a small pool (so spans,
    predicates and whole triples repeat); `odd` is the rate of the unusual features (no/other lnk,
    dangling target, top missing/not a node, MOD links, top given as a 0-link)"""
    t = t or rng.choice(["eds", "dmrs"])
    if n is None:
        n = rng.choice([0, 1, 1, 2, 2, 2, 3, 3, 4, 5, 6])
    base = 10000 if (t == "dmrs" and rng.random() < 0.7) else 1
    ids = [base + i for i in range(n)]
    nodes = [gen_node(rng, i, odd) for i in ids]
    links = []
    targets = list(ids) + ([base + n + 5] if rng.random() < odd else [])
    if t == "eds":
        for nd in nodes:
            k = rng.choice([0, 0, 1, 1, 2, 3])
            roles = rng.sample(sorted(set(ROLES)), min(k, len(set(ROLES))))
            if targets:
                nd["edges"] = [[cps(r), rng.choice(targets)] for r in roles]
    else:
        if ids:
            for _ in range(rng.choice([0, 1, 2, 2, 3, 4, 6])):
                role = rng.choice(ROLES)
                if role == "MOD" and rng.random() > 3 * odd:
                    role = "ARG2"
                links.append([rng.choice(ids), rng.choice(targets), cps(role), cps(rng.choice(POSTS))])
    r = rng.random()
    top = None
    if ids:
        if r < 1 - 2 * odd:
            top = rng.choice(ids)
        elif r < 1 - odd:
            top = None
        else:
            top = base + n + 7
        if t == "dmrs" and rng.random() < odd:
            # legacy top link (start id 0), with or without an explicit top
            links.insert(rng.randrange(len(links) + 1), [0, rng.choice(ids), cps(""), cps("H")])
            if rng.random() < 0.6:
                top = None
            if rng.random() < 0.3:
                links.append([0, rng.choice(ids), cps(""), cps("H")])
    return {"t": t, "top": top, "nodes": nodes, "links": links}


def convert(G):
    """the same dependency structure in the other framework (same triples) where expressible"""
    H = copy.deepcopy(G)
    if G["t"] == "eds":
        H["t"] = "dmrs"
        H["links"] = [[n["id"], t, r, cps("NEQ")] for n in G["nodes"] for r, t in n["edges"]]
        for n in H["nodes"]:
            n["edges"] = []
        return H
    per = {}
    for s, e, r, p in G["links"]:
        if s == 0:
            return H
        per.setdefault(s, []).append((tuple(r), e))
    if any(len({r for r, _ in v}) != len(v) for v in per.values()):
        return H
    ids = {n["id"] for n in G["nodes"]}
    if not set(per) <= ids:
        return H
    H["t"] = "eds"
    H["links"] = []
    for n in H["nodes"]:
        n["edges"] = [[list(r), e] for r, e in per.get(n["id"], []) if uncps(list(r)) != "MOD"]
    return H


def mutate_graph(rng, G):
    """a test structure that overlaps a gold one: a few local edits"""
    H = copy.deepcopy(G)
    for _ in range(rng.choice([0, 1, 1, 2, 3])):
        nodes = H["nodes"]
        op = rng.randrange(15)
        if op == 14:
            if nodes:
                n = rng.choice(nodes)
                which = rng.randrange(3)
                if which == 0:
                    n["pred"] = cps(rng.choice(V_PREDS))
                elif which == 1:
                    n["carg"] = cps(rng.choice(V_CARGS))
                else:
                    f, vs = rng.choice(V_PROPS)
                    n["props"] = [q for q in n["props"] if uncps(q[0]) != f] + [[cps(f), cps(rng.choice(vs))]]
        elif op >= 12 and nodes:
            n = rng.choice(nodes)
            if n["lnk"] is None or n["lnk"][0] != "c" or partner_span(rng, n["lnk"]) is None:
                n["lnk"] = ["c"] + list(rng.choice(rng.choice(FAMILIES)))
                # the gold side gets the same span, so that only the partner below differs
            n["lnk"] = partner_span(rng, n["lnk"]) or n["lnk"]
        elif op == 0 and nodes:
            rng.choice(nodes)["pred"] = cps(rng.choice(PREDS))
        elif op == 1 and nodes:
            rng.choice(nodes)["lnk"] = gen_lnk(rng)
        elif op == 2 and nodes:
            del nodes[rng.randrange(len(nodes))]         # leaves dangling edges/links TO it
            ids = {n["id"] for n in nodes}
            H["links"] = [l for l in H["links"] if l[0] in ids or l[0] == 0]
        elif op == 3 and nodes:
            n = copy.deepcopy(rng.choice(nodes))           # a second node with the same triples
            n["id"] = max(x["id"] for x in nodes) + 1
            nodes.insert(rng.randrange(len(nodes) + 1), n)
        elif op == 4 and nodes:
            n = rng.choice(nodes)
            if H["t"] == "eds":
                if n["edges"] and rng.random() < 0.5:
                    del n["edges"][rng.randrange(len(n["edges"]))]
                else:
                    have = {tuple(r) for r, _ in n["edges"]}
                    free = [r for r in sorted(set(ROLES)) if tuple(cps(r)) not in have]
                    if free:
                        n["edges"].append([cps(rng.choice(free)), rng.choice(nodes)["id"]])
            else:
                if H["links"] and rng.random() < 0.5:
                    del H["links"][rng.randrange(len(H["links"]))]
                else:
                    H["links"].append([n["id"], rng.choice(nodes)["id"], cps(rng.choice(ROLES[:4])),
                                       cps(rng.choice(POSTS))])
        elif op == 5 and nodes:
            n = rng.choice(nodes)
            if n["props"] and rng.random() < 0.6:
                i = rng.randrange(len(n["props"]))
                if rng.random() < 0.5:
                    del n["props"][i]
                else:
                    f = uncps(n["props"][i][0])
                    n["props"][i][1] = cps(rng.choice(dict(PROPS + V_PROPS[1:])[f]))
            else:
                have = {uncps(f) for f, _ in n["props"]}
                free = [(f, vs) for f, vs in PROPS if f not in have]
                if free:
                    f, vs = rng.choice(free)
                    n["props"].append([cps(f), cps(rng.choice(vs))])
        elif op == 6 and nodes:
            rng.choice(nodes)["carg"] = rng.choice([None, cps("Kim"), cps("Lee"), cps("")])
        elif op == 7 and nodes:
            H["top"] = rng.choice([None, rng.choice(nodes)["id"]])
        elif op == 8:
            rng.shuffle(nodes)
        elif op == 9:
            H = convert(H)
        elif op == 10 and H["links"]:
            l = rng.choice(H["links"])
            l[2] = cps(rng.choice(ROLES))
        elif op == 11 and nodes and H["t"] == "eds":
            n = rng.choice(nodes)
            if n["edges"]:
                rng.choice(n["edges"])[1] = rng.choice(nodes)["id"]
    return H


def gen_weights(rng):
    r = rng.random()
    if r < 0.3:
        return [wstr("1")] * 5
    if r < 0.34:
        return [wstr("0")] * 5
    if r < 0.5:
        w = [wstr("0")] * 5
        w[rng.randrange(5)] = wstr(rng.choice(WPOOL[2:]))
        return w
    return [wstr(rng.choice(WPOOL)) for _ in range(5)]


def mk_case(kind, golds, tests, w, ig, it, rng):
    return {"kind": kind, "op": "compute", "golds": golds, "tests": tests, "w": w, "ig": ig, "it": it,
            "alt": rng.randrange(1 << 30)}


def family_cases(rng):
    """deterministic block: for every pair of distinct spans of a collision family, a gold and a test
    structure (EDS and DMRS alternating) that differ ONLY in that span — on a node that is top, has a
    property and a constant, and is source and target of an argument — next to an ordinary small-span
    node.  Correct scores: the name/property/constant/top triples of that node and both argument triples
    do not match.  A second shape puts both spans into ONE structure with the same predicate against a
    structure that has one of them twice (multiset counts would merge)."""
    k = 0
    one = [wstr("1")] * 5
    for fam in FAMILIES:
        for i in range(len(fam)):
            for j in range(len(fam)):
                if i == j:
                    continue
                s1, s2 = ["c"] + list(fam[i]), ["c"] + list(fam[j])
                t = ("eds", "dmrs")[k % 2]
                t2 = ("eds", "dmrs")[(k // 2) % 2]
                k += 1

                def mk(t, sp, sp_b=None):
                    a = {"id": 1, "pred": cps("_a_n_1"), "lnk": list(sp), "props": [[cps("NUM"), cps("sg")]],
                         "carg": cps("Kim"), "edges": []}
                    b = {"id": 2, "pred": cps("_b_v_1"), "lnk": ["c", 0, 3], "props": [], "carg": None, "edges": []}
                    nodes = [a, b]
                    if sp_b is not None:
                        nodes.append({"id": 3, "pred": cps("_a_n_1"), "lnk": list(sp_b),
                                      "props": [[cps("NUM"), cps("sg")]], "carg": cps("Kim"), "edges": []})
                    g = {"t": t, "top": 1, "nodes": nodes, "links": []}
                    if t == "eds":
                        a["edges"] = [[cps("ARG1"), 2]]
                        b["edges"] = [[cps("ARG2"), 1]]
                    else:
                        g["links"] = [[1, 2, cps("ARG1"), cps("NEQ")], [2, 1, cps("ARG2"), cps("NEQ")]]
                    return g
                yield mk_case("family", [mk(t, s1)], [mk(t2, s2)], one, False, False, rng)
                if i < j:
                    yield mk_case("family", [mk(t, s1, s2)], [mk(t2, s1, s1)], one, False, False, rng)
                    yield mk_case("family", [mk(t, s1), mk(t2, s2)], [mk(t2, s2), mk(t, s1)],
                                  [wstr("1"), wstr("0"), wstr("0"), wstr("0"), wstr("1/2")], False, False, rng)


def corner_cases(rng):
    """deterministic block of corners that independent property-breaking changes went through (kept every run):
    structures that are `==` as Python objects (Node.__eq__ ignores lnk) but have different spans; a missing
    member that must be counted (flag False) with the top weight as the only weight; fractional weights
    1/2, 1/4, 1/10; gold without a top against a test with one; present-but-empty EDS()/DMRS() members with
    both ignore flags on (empty is not missing); zero-width spans <3:3> vs <5:5>; DMRS MOD links with every
    post label (never arguments) against the same links with a real role."""
    def nd(i, pred, lnk, props=(), carg=None):
        return {"id": i, "pred": cps(pred), "lnk": list(lnk) if lnk else None,
                "props": [[cps(f), cps(v)] for f, v in props], "carg": None if carg is None else cps(carg), "edges": []}

    def gr(t, top, nodes, links=()):
        g = {"t": t, "top": top, "nodes": copy.deepcopy(nodes), "links": []}
        for s_, e, r, p_ in links:
            if t == "eds":
                next(n for n in g["nodes"] if n["id"] == s_)["edges"].append([cps(r), e])
            else:
                g["links"].append([s_, e, cps(r), cps(p_)])
        return g
    one = [wstr("1")] * 5
    flags = [(False, False), (True, False), (False, True), (True, True)]
    wsets = [one, [wstr("0")] * 4 + [wstr("1")], [wstr("0")] * 4 + [wstr("1/2")],
             [wstr("1/2"), wstr("1/4"), wstr("1/10"), wstr("1/4"), wstr("1/2")],
             [wstr("1/10"), wstr("0"), wstr("1/2"), wstr("1/4"), wstr("0")]]
    a03 = nd(1, "_a_n_1", ["c", 0, 3], [("NUM", "sg")], "Kim")
    a47 = nd(1, "_a_n_1", ["c", 4, 7], [("NUM", "sg")], "Kim")
    b = nd(2, "_b_v_1", ["c", 8, 9])
    z3 = nd(1, "_a_n_1", ["c", 3, 3], [("NUM", "sg")], "Kim")
    z5 = nd(1, "_a_n_1", ["c", 5, 5], [("NUM", "sg")], "Kim")
    for t1 in ("eds", "dmrs"):
        for t2 in ("eds", "dmrs"):
            L = [(1, 2, "ARG1", "NEQ"), (2, 1, "ARG2", "H")]
            for w in wsets:
                # == as objects, different spans; zero-width spans
                yield mk_case("corner", [gr(t1, 1, [a03, b], L)], [gr(t2, 1, [a47, b], L)], w, False, False, rng)
                yield mk_case("corner", [gr(t1, 1, [z3, b], L)], [gr(t2, 1, [z5, b], L)], w, False, False, rng)
                yield mk_case("corner", [gr(t1, 1, [z3, b], L)], [gr(t2, 1, [z3, b], L)], w, False, False, rng)
                # gold without a top vs test with one (and the reverse)
                yield mk_case("corner", [gr(t1, None, [a03, b], L)], [gr(t2, 1, [a03, b], L)], w, False, False, rng)
                yield mk_case("corner", [gr(t1, 2, [a03, b], L)], [gr(t2, None, [a03, b], L)], w, False, False, rng)
                for ig, it in flags:
                    # a missing member (None or short list) next to a full pair
                    full = gr(t1, 1, [a03, b], L)
                    yield mk_case("corner", [full, gr(t2, 2, [a47, b], L)], [full, None], w, ig, it, rng)
                    yield mk_case("corner", [full, None], [full, gr(t2, 2, [a47, b], L)], w, ig, it, rng)
                    yield mk_case("corner", [full], [full, gr(t2, 1, [a47, b])], w, ig, it, rng)
                    yield mk_case("corner", [full, gr(t2, 1, [a47, b])], [full], w, ig, it, rng)
                    # present but empty is not missing
                    yield mk_case("corner", [full, gr(t2, None, [])], [full, gr(t1, 1, [a47, b], L)], w, ig, it, rng)
                    yield mk_case("corner", [full, gr(t1, 1, [a47, b], L)], [full, gr(t2, None, [])], w, ig, it, rng)
                    yield mk_case("corner", [gr(t1, None, [])], [gr(t2, None, [])], w, ig, it, rng)
    # DMRS MOD links are never arguments, whatever the post label
    for post in POSTS:
        for other in ("ARG1", "MOD"):
            g = gr("dmrs", 1, [a03, b], [(1, 2, "MOD", post), (2, 1, "ARG1", "NEQ")])
            t = gr("dmrs", 1, [a03, b], [(1, 2, other, post), (2, 1, "ARG1", "NEQ")])
            e = gr("eds", 1, [a03, b], [(2, 1, "ARG1", "NEQ")])
            for w in (one, [wstr("0"), wstr("1"), wstr("0"), wstr("0"), wstr("0")]):
                yield mk_case("corner", [g], [t], w, False, False, rng)
                yield mk_case("corner", [g], [e], w, False, False, rng)
                yield mk_case("corner", [t], [e], w, False, False, rng)


def variant_cases(rng):
    """deterministic block: gold and test differ ONLY in the spelling of one string (predicate, role, property
    name, property value, constant) taken from the V_* pools — every ordered pair of spellings, EDS and DMRS"""
    one = [wstr("1")] * 5
    k = 0

    def mk(t, pred, role, pname, pval, carg):
        a = {"id": 1, "pred": cps(pred), "lnk": ["c", 0, 3], "props": [[cps(pname), cps(pval)]],
             "carg": cps(carg), "edges": []}
        b = {"id": 2, "pred": cps("_b_v_1"), "lnk": ["c", 4, 7], "props": [], "carg": None, "edges": []}
        g = {"t": t, "top": 1, "nodes": [a, b], "links": []}
        if t == "eds":
            a["edges"] = [[cps(role), 2]]
        else:
            g["links"] = [[1, 2, cps(role), cps("NEQ")]]
        return g
    base = ("_a_n_1", "ARG1", "NUM", "sg", "Kim")
    dims = [V_PREDS, V_ROLES, [f for f, _ in V_PROPS], V_PROPS[0][1], V_CARGS]
    for d, pool in enumerate(dims):
        for x in pool:
            for y in pool:
                if x == y:
                    continue
                ga, gb = list(base), list(base)
                ga[d], gb[d] = x, y
                t1 = ("eds", "dmrs")[k % 2]
                t2 = ("eds", "dmrs")[(k // 2) % 2]
                k += 1
                yield mk_case("variant", [mk(t1, *ga)], [mk(t2, *gb)], one, False, False, rng)


def bulk_cases(rng, tier):
    """deterministic block of sizes: one triple repeated 255/256/257/300 times on one or both sides (every
    category at once), and paired lists longer than 1024 with missing members around position 1024"""
    one = [wstr("1")] * 5

    def rep(t, k):
        nodes = [{"id": i + 1, "pred": cps("_a_n_1"), "lnk": ["c", 0, 3], "props": [[cps("NUM"), cps("sg")]],
                  "carg": cps("Kim"), "edges": []} for i in range(k)]
        g = {"t": t, "top": 1 if k else None, "nodes": nodes, "links": []}
        for n in nodes:
            if t == "eds":
                n["edges"] = [[cps("ARG1"), n["id"]]]
            else:
                g["links"].append([n["id"], n["id"], cps("ARG1"), cps("NEQ")])
        return g
    for i, (a, b) in enumerate([(255, 256), (256, 256), (257, 256), (300, 2), (1, 257)]):
        t1 = ("eds", "dmrs")[i % 2]
        t2 = ("dmrs", "eds")[(i // 2) % 2]
        yield mk_case("bulk", [rep(t1, a)], [rep(t2, b)], one, False, False, rng)
    tiny = [g for g in tiny_graphs() if g is not None]
    for n_pairs, holes in ([(1030, (0, 1023, 1024, 1025))] + ([(2055, (2047, 2048, 2049))] if tier == "thorough" else [])):
        golds = [copy.deepcopy(tiny[i % len(tiny)]) for i in range(n_pairs)]
        tests = [copy.deepcopy(tiny[(i * 7 + 3) % len(tiny)]) for i in range(n_pairs)]
        for j, h in enumerate(holes):
            if j % 2:
                golds[h] = None
            else:
                tests[h] = None
        tests = tests[:n_pairs - 3]
        for ig, it in (((False, False), (True, False), (False, True)) if tier == "thorough" else ((True, False),)):
            yield mk_case("bulk", copy.deepcopy(golds), copy.deepcopy(tests),
                          [wstr("1"), wstr("1/2"), wstr("2"), wstr("1"), wstr("3")], ig, it, rng)


def cli_graph(rng, fmt, like=None):
    """a structure the codec `fmt` writes and reads back unchanged"""
    t = CLI_FORMATS[fmt]
    for _ in range(60):
        if like is not None:
            G = mutate_graph(rng, like)
            if G["t"] != t:
                continue
        else:
            G = gen_graph(rng, t=t, odd=0.04)
        for n in G["nodes"]:
            if n["lnk"] is None:
                n["lnk"] = ["c", 4, 7]
        if fmt in ("eds", "simpledmrs"):
            for n in G["nodes"]:
                n["props"] = [p_ for p_ in n["props"] if uncps(p_[0]) != "carg"]
                if n["carg"] == []:
                    n["carg"] = None
                if n["lnk"] is None or n["lnk"][0] != "c" or n["lnk"][1] < 0 or n["lnk"][2] < 0:
                    n["lnk"] = ["c", 0, 3]
                n["pred"] = cps(uncps(n["pred"]).lower())
            ids = {n["id"] for n in G["nodes"]}
            if G["top"] is not None and G["top"] not in ids:
                G["top"] = None
            for n in G["nodes"]:
                n["edges"] = [e for e in n["edges"] if e[1] in ids]
            G["links"] = [l for l in G["links"] if l[1] in ids and l[0] != 0]
            if fmt == "eds" and G["top"] is None and G["nodes"]:
                G["top"] = G["nodes"][0]["id"]
            if not text_clean(G):
                continue
        if wellformed(G) and all(l[0] != 0 for l in G["links"]):
            return G
    return {"t": t, "top": 1, "nodes": [_n(1, "_a_n_1", 0, 3)], "links": []}


def cli_file_case(rng, fmt, im, shape, w=None, v=0):
    n = rng.choice([1, 2, 2, 3, 4])
    golds = [cli_graph(rng, fmt) for _ in range(n)]
    tests = [cli_graph(rng, fmt, like=g) for g in golds]
    if shape == "gold_longer":
        tests = tests[:rng.randrange(len(tests))]
    elif shape == "test_longer":
        golds = golds[:rng.randrange(len(golds))]
    ig, it = im in ("gold", "both"), im in ("test", "both")
    c = mk_case("cli", golds, tests, w or gen_weights(rng), ig, it, rng)
    c["cli"] = {"src": "file", "fmt": fmt, "im": im, "p": 0, "v": v}
    return c


def cli_mrs_case(rng, src, gold_spec, test_spec, im, p, w, v=0):
    def expected(spec):
        out = []
        for x in spec:
            if src == "profile":
                x = x[p] if p < len(x) else None
            out.append(None if x is None else copy.deepcopy(MRS_POOL[x][1]))
        return out
    ig, it = im in ("gold", "both"), im in ("test", "both")
    c = mk_case("cli", expected(gold_spec), expected(test_spec), w, ig, it, rng)
    c["cli"] = {"src": src, "fmt": "simplemrs" if src == "mrsfile" else "eds", "im": im, "p": p, "v": v,
                "golds": gold_spec, "tests": test_spec}
    return c


def cli_cases(rng, tier):
    """the sub-command: every codec family x --ignore-missing x list shape (deterministic grid over freshly
    generated structures), MRS files (converted to EDS; an unconvertible MRS is a missing item) and profiles
    (items without a result or without result number -p are missing items)"""
    one = [wstr("1")] * 5
    k = 0
    for fmt in CLI_FORMATS:
        for im in IM:
            for shape in ("equal", "gold_longer", "test_longer"):
                k += 1
                yield cli_file_case(rng, fmt, im, shape, w=one if k % 3 == 0 else None, v=(0, 2, 0, 1, 3)[k % 5])
    wmix = [wstr("1/2"), wstr("2"), wstr("1"), wstr("3"), wstr("1/4")]
    mg, mt = ["M1", "M2", "BAD", "M3", "M1"], ["M4", "M2", "M3", "BAD"]
    pg = [["M1", "M2"], ["M2"], [], ["BAD"], ["M3", "M1"], ["M2", "M2"]]
    pt = [["M4", "M3"], [], ["M3"], ["M2"], ["M3"]]
    for im in IM:
        k += 1
        yield cli_mrs_case(rng, "mrsfile", mg, mt, im, 0, one if k % 2 else wmix, v=2 * (k % 2))
        yield cli_mrs_case(rng, "mrsfile", mt, mg, im, 0, wmix)
        for p in (0, 1, 2):
            yield cli_mrs_case(rng, "profile", pg, pt, im, p, wmix if p else one, v=(0, 2, 0)[p])
            yield cli_mrs_case(rng, "profile", pt, pg, im, p, wmix)


def tiny_graphs():
    """all structures with at most 2 nodes over 2 spans × 2 predicates, optional ARG1 edge 1→2, top ∈ {None,1}"""
    sp = [["c", 0, 3], ["c", 4, 7]]
    pr = ["_a_n_1", "_b_v_1"]
    out = [None]
    for t in ("eds", "dmrs"):
        out.append({"t": t, "top": None, "nodes": [], "links": []})
    for t in ("eds", "dmrs"):
        for s1, p1 in itertools.product(sp, pr[:1] + pr[1:]):
            n1 = {"id": 1, "pred": cps(p1), "lnk": s1, "props": [], "carg": None, "edges": []}
            for top in (None, 1):
                out.append({"t": t, "top": top, "nodes": [copy.deepcopy(n1)], "links": []})
            for s2 in sp:
                n2 = {"id": 2, "pred": cps(pr[0]), "lnk": s2, "props": [[cps("NUM"), cps("sg")]], "carg": cps("Kim"),
                      "edges": []}
                for edge in (False, True):
                    g = {"t": t, "top": 1, "nodes": [copy.deepcopy(n1), copy.deepcopy(n2)], "links": []}
                    if edge:
                        if t == "eds":
                            g["nodes"][0]["edges"] = [[cps("ARG1"), 2]]
                        else:
                            g["links"] = [[1, 2, cps("ARG1"), cps("NEQ")]]
                    out.append(g)
    return out


def editable(G, H):
    """can an object built from G be turned into H by assigning attributes? (same class, same node ids in
    the same order, no legacy top link)"""
    return (G is not None and H is not None and G["t"] == H["t"] and G["nodes"]
            and [n["id"] for n in G["nodes"]] == [n["id"] for n in H["nodes"]]
            and all(l[0] != 0 for l in H["links"]) and all(l[0] != 0 for l in G["links"]))


def edit_in_place(obj, H):
    for node, hn in zip(obj.nodes, H["nodes"]):
        node.predicate = uncps(hn["pred"])
        lk = mk_lnk(hn["lnk"])
        node.lnk = Lnk.default() if lk is None else lk
        node.carg = None if hn["carg"] is None else uncps(hn["carg"])
        node.properties.clear()
        node.properties.update({uncps(f): uncps(v) for f, v in hn["props"]})
        if H["t"] == "eds":
            node.edges.clear()
            node.edges.update({uncps(r): eid(t) for r, t in hn["edges"]})
    if H["t"] == "eds":
        obj.top = None if H["top"] is None else eid(H["top"])
    else:
        obj.top = H["top"]
        obj.links[:] = [_dmrs.Link(s_, e, uncps(r), uncps(p_)) for s_, e, r, p_ in H["links"]]


class C18(Check):
    pid = "C18"
    props_modules = ["Verif.C18.Props", "Verif.C18.PropsApi", "Verif.C18.PropsSpec", "Verif.C18.Translated"]
    quick_cases = 2600
    thorough_cases = 40000
    rule = ("(round 6: plus the same call with INFO logging and its per-pair log, generators/positional/keyword call "
            "paths, structures edited in place, the `delphin edm` sub-command on files in 4 codecs, MRS files and "
            "profiles, spelling variants, 255-300 repeated triples, lists longer than 1024) "
            "one case = one call of edm.compute on paired lists of 0-6 EDS/DMRS structures (0-6 nodes each; spans, "
            "predicates, roles, properties and constants from small pools so that spans, predicates and whole triples "
            "repeat; test structures mostly derived from the gold ones by local edits, conversion EDS<->DMRS, node "
            "duplication; None entries, unequal list lengths, both ignore flags; Fraction weights incl. zeros). "
            "Deterministic part: all pairs of tiny structures (<=2 nodes over 2 spans x 2 predicates) under 4 flag "
            "settings (quick: a fixed stride). A case is non-trivial when at least one pair is counted and has a "
            "triple; distinct by JSON text.")
    assumptions = [
        "IEEE rounding of the float path is not modelled; the float results are compared with the exact ones "
        "(1e-9 relative) on generated cases only",
        "EDS node identifiers are the strings '_<n>' on the Python side and the numbers n in the model",
        "structures with duplicate node ids, DMRS links starting at a non-node, or negative weights are outside the "
        "property's input space: they go through the model correspondence only, not through the oracle",
    ]
    trusted_base = ["hand-written model lean/Verif/C18/Model.lean, tied to delphin.edm by the correspondence run "
                    "(exact rationals via fractions.Fraction; _accumulate totals and compute scores)",
                    "source translator py2lean + PyRt (TRANSLATOR.md)"]

    def translation_specs(self):
        from .common import py2lean as P
        from delphin import edm
        cnt = P.Struct("Verif.C18.CountZ", {"gold": P.INT, "test": P.INT, "both": P.INT}, edm._Count)
        mt = P.Struct("Verif.C18.MatchZ", {"name": cnt, "argument": cnt, "property": cnt, "constant": cnt, "top": cnt},
                      edm._Match)
        return [P.Spec(edm._Count.add, "count_add", [("self", cnt), ("other", cnt)], cnt),
                P.Spec(edm._Match.add, "match_add", [("self", mt), ("other", mt)], mt)]

    def translations(self):
        """Source translation (TRANSLATOR.md): edm._Count.add / _Match.add → lean/Verif/Generated/TransC18.lean, proved
        equal to the model's Count.add / Match.add in lean/Verif/C18/Translated.lean."""
        from .common import py2lean as P
        return P.translate_module(self.translation_specs(), "Verif.Trans.C18", imports=["Verif.C18.TranslatedTypes"])

    LOG_NAMES = ("logger", "logging", "info", "debug", "INFO", "isEnabledFor")

    def pins(self):
        """(key, values) pairs read from the live code objects: parameter names and defaults, the numeric /
        string constants and the global / attribute names (co_consts, co_names, nested code objects included)
        of every function the model mirrors.  Left out as semantically irrelevant: docstrings, the texts
        handed to the logger (all string constants of `compute` and `_accumulate` are such texts) and the
        names of the logging machinery."""
        import types
        from delphin import lnk as L, sembase as S
        from delphin.dmrs import _dmrs as D
        from delphin.eds import _eds as E

        def walk(code, prefix):
            yield prefix, code
            for c in code.co_consts:
                if isinstance(c, types.CodeType):
                    yield from walk(c, prefix + "." + c.co_name)

        out = []

        def fn_pins(key, fn, strings=True, params=False):
            fn = getattr(fn, "__func__", fn)
            if params:
                code = fn.__code__
                out.append((key + ".params", list(code.co_varnames[:code.co_argcount + code.co_kwonlyargcount])))
                out.append((key + ".defaults", [repr(x) for x in (fn.__defaults__ or ())]
                            + ["%s=%r" % kv for kv in sorted((fn.__kwdefaults__ or {}).items())]))
            for k, code in walk(fn.__code__, key):
                consts = [c for c in code.co_consts if not isinstance(c, types.CodeType)
                          and not (isinstance(c, str) and (c == fn.__doc__ or not strings))]
                out.append((k + ".consts", [repr(c) for c in consts]))
                out.append((k + ".names", [n for n in code.co_names if n not in self.LOG_NAMES]))

        fn_pins("edm.compute", edm.compute, strings=False, params=True)
        fn_pins("edm._accumulate", edm._accumulate, strings=False, params=True)
        for nm in ("_match", "_count", "_prf", "_span", "_names", "_arguments", "_properties", "_constants"):
            fn_pins("edm." + nm, getattr(edm, nm), params=True)
        fn_pins("edm._Count.add", edm._Count.add)
        fn_pins("edm._Match.add", edm._Match.add)
        out.append(("edm._Count._fields", list(edm._Count._fields)))
        out.append(("edm._Match._fields", list(edm._Match._fields)))
        out.append(("edm._Score._fields", list(edm._Score._fields)))
        fn_pins("dmrs.DMRS.arguments", D.DMRS.arguments, params=True)
        fn_pins("dmrs._normalize_top_and_links", D._normalize_top_and_links, params=True)
        out.append(("dmrs.constants", ["BARE_EQ_ROLE=%r" % D.BARE_EQ_ROLE, "TOP_NODE_ID=%r" % D.TOP_NODE_ID,
                                       "H_POST=%r" % D.H_POST, "HEQ_POST=%r" % D.HEQ_POST]))
        fn_pins("eds.EDS.arguments", E.EDS.arguments, params=True)
        fn_pins("dmrs.DMRS.__init__", D.DMRS.__init__, params=True)
        fn_pins("dmrs.Node.__init__", D.Node.__init__, params=True)
        fn_pins("dmrs.Link.__init__", D.Link.__init__, params=True)
        fn_pins("eds.EDS.__init__", E.EDS.__init__, params=True)
        fn_pins("eds.Node.__init__", E.Node.__init__, params=True)
        fn_pins("sembase.SemanticStructure.__init__", S.SemanticStructure.__init__, params=True)
        fn_pins("sembase.SemanticStructure.__contains__", S.SemanticStructure.__contains__)
        fn_pins("sembase.SemanticStructure.__getitem__", S.SemanticStructure.__getitem__)
        fn_pins("lnk.LnkMixin.cfrom", L.LnkMixin.cfrom.fget)
        fn_pins("lnk.LnkMixin.cto", L.LnkMixin.cto.fget)
        fn_pins("lnk.Lnk.charspan", L.Lnk.charspan)
        out.append(("lnk.Lnk.types", ["%s=%r" % (k, getattr(L.Lnk, k))
                                      for k in ("UNSPECIFIED", "CHARSPAN", "CHARTSPAN", "TOKENS", "EDGE")]))
        return out

    def cli_pins(self):
        """what the model of the sub-command's option plumbing (Api.lean: cliFlags, CliArgs) hand-codes:
        the keyword each option is passed as (AST of call_compute), the membership tuples of the two flags,
        and the parser's option strings, types, defaults and choices"""
        import ast
        import inspect
        import textwrap
        from delphin.cli import edm as cli_edm
        out = []
        tree = ast.parse(textwrap.dedent(inspect.getsource(cli_edm.call_compute)))
        calls = [c for c in ast.walk(tree) if isinstance(c, ast.Call) and ast.unparse(c.func) == "edm.compute"]
        out.append(("cli.call_compute.compute_calls", [str(len(calls))]))
        for c in calls[:1]:
            out.append(("cli.call_compute.positional", [ast.unparse(a) for a in c.args]))
            out.append(("cli.call_compute.keywords", ["%s=%s" % (k.arg, ast.unparse(k.value)) for k in c.keywords]))
        for a in cli_edm.parser._actions:
            out.append(("cli.parser." + a.dest, ["/".join(a.option_strings), getattr(a.type, "__name__", repr(a.type)),
                                                 repr(a.default), repr(a.choices)]))
        out.append(("cli.parser.func", [cli_edm.parser.get_default("func").__name__]))
        for fn in (cli_edm._iter_representations, cli_edm._eds_from_mrs):
            t = ast.parse(textwrap.dedent(inspect.getsource(fn))).body[0]
            body = [st for st in t.body if not (isinstance(st, ast.Expr) and isinstance(st.value, ast.Constant))]
            text = "\n".join(ast.unparse(st) for st in body)
            out.append(("cli.%s.args" % fn.__name__, [ast.unparse(t.args)]))
            out.append(("cli.%s.body" % fn.__name__,
                        [l.strip() for l in text.splitlines() if "logger." not in l and l.strip()]))
        import delphin.__main__ as dm
        src = inspect.getsource(dm.main)
        out.append(("main.setLevel", [l.strip() for l in src.splitlines()
                                      if "verbosity" in l or "setLevel" in l or "logging.ERROR" in l]))
        return out

    def tables(self):
        """the constants of the code the model depends on, read from the live module"""
        from delphin.dmrs import _dmrs as d
        lit = tables.lean_strlit
        lines = ["/-- `dmrs.BARE_EQ_ROLE`: links with this role are not arguments -/",
                 "def c18BareEqRole : List Char := %s" % tables.lean_str(d.BARE_EQ_ROLE),
                 "/-- `dmrs.TOP_NODE_ID`: start id of the legacy top link -/",
                 "def c18TopNodeId : Nat := %d" % int(d.TOP_NODE_ID),
                 "/-- parameters, defaults, constants and names of the functions the C18 model mirrors -/",
                 "def c18Pins : List (String × List String) := ["]
        pins = self.pins()
        for i, (k, vs) in enumerate(pins):
            lines.append("  (%s, [%s])%s" % (lit(k), ", ".join(lit(v) for v in vs), "," if i + 1 < len(pins) else ""))
        lines.append("]")
        lines.append("/-- the option plumbing of `delphin edm` that Api.lean mirrors -/")
        lines.append("def c18CliPins : List (String × List String) := [")
        cp = self.cli_pins()
        for i, (k, vs) in enumerate(cp):
            lines.append("  (%s, [%s])%s" % (lit(k), ", ".join(lit(v) for v in vs), "," if i + 1 < len(cp) else ""))
        lines.append("]")
        return lines

    # ---- generation
    def cases(self, rng, tier, n):
        tiny = tiny_graphs()
        flags = [(False, False), (True, False), (False, True), (True, True)]
        one = [wstr("1")] * 5
        pairs = list(itertools.product(range(len(tiny)), repeat=2))
        stride = 1 if tier == "thorough" else 7
        for k, (i, j) in enumerate(pairs):
            if k % stride:
                continue
            ig, it = flags[k % 4] if (tiny[i] is None or tiny[j] is None) else (False, False)
            yield mk_case("tiny", [copy.deepcopy(tiny[i])], [copy.deepcopy(tiny[j])], one, ig, it, rng)
        # list-shape corners with one fixed non-empty structure
        g = tiny[-1]
        for golds, tests in [([], []), ([g], []), ([], [g]), ([None], [g]), ([g], [None]), ([None], [None]),
                             ([g, None], [None, g]), ([g, g], [g]), ([g], [g, g]), ([None, g], [g])]:
            for ig, it in flags:
                yield mk_case("shape", copy.deepcopy(golds), copy.deepcopy(tests), one, ig, it, rng)
        yield from family_cases(rng)
        yield from corner_cases(rng)
        yield from variant_cases(rng)
        yield from bulk_cases(rng, tier)
        yield from cli_cases(rng, tier)
        yield from self.random_cases(rng, n)

    def random_cases(self, rng, n, kinds=None):
        for _ in range(n):
            r = rng.random()
            kind = rng.choice(kinds) if kinds else (
                "derived" if r < 0.43 else "indep" if r < 0.55 else "identical" if r < 0.64 else
                "missing" if r < 0.78 else "malformed" if r < 0.87 else "negw" if r < 0.93 else "cli")
            if kind == "cli":
                yield cli_file_case(rng, rng.choice(sorted(CLI_FORMATS)), rng.choice(IM),
                                    rng.choice(["equal", "equal", "gold_longer", "test_longer"]),
                                    v=rng.choice([0, 0, 1, 2, 3]))
            else:
                yield self.gen_case(rng, kind)

    def gen_case(self, rng, kind):
        npairs = rng.choice([0, 1, 1, 1, 2, 2, 3, 4, 6])
        odd = 0.08
        golds = [gen_graph(rng, odd=odd) for _ in range(npairs)]
        w = gen_weights(rng)
        ig = it = False
        if rng.random() < 0.2:
            ig, it = rng.random() < 0.5, rng.random() < 0.5
        if kind == "derived" or kind == "negw" or kind == "malformed":
            tests = [mutate_graph(rng, g) for g in golds]
        elif kind == "indep":
            tests = [gen_graph(rng, odd=odd) for _ in range(npairs)]
        elif kind == "identical":
            golds = [g if rng.random() > 0.15 else None for g in golds]
            if rng.random() < 0.5:
                golds = [g for g in golds if g is None or wellformed(g)]
            tests = copy.deepcopy(golds)
            if rng.random() < 0.5:
                w = [wstr(rng.choice(WPOOL[2:])) for _ in range(5)]
        elif kind == "missing":
            tests = [mutate_graph(rng, g) for g in golds]
            golds = [None if rng.random() < 0.25 else g for g in golds]
            tests = [None if rng.random() < 0.25 else t for t in tests]
            r = rng.random()
            if r < 0.3:
                tests = tests[:rng.randrange(len(tests) + 1)]
            elif r < 0.6:
                golds = golds[:rng.randrange(len(golds) + 1)]
            elif r < 0.7:
                tests = tests + [gen_graph(rng) for _ in range(rng.randrange(1, 3))]
            ig, it = rng.random() < 0.5, rng.random() < 0.5
        else:
            raise ValueError(kind)
        if kind == "negw":
            w = [wstr(rng.choice(WNEG)) for _ in range(5)]
        if kind == "malformed":
            # outside the input space: duplicate ids / a DMRS link that starts nowhere
            if not golds:
                golds, tests = [gen_graph(rng, n=2)], [gen_graph(rng, n=2)]
            side = rng.choice([golds, tests])
            G = side[rng.randrange(len(side))]
            if G["nodes"] and rng.random() < 0.55:
                n = copy.deepcopy(rng.choice(G["nodes"]))
                n["lnk"] = gen_lnk(rng)
                n["pred"] = cps(rng.choice(PREDS))
                if G["t"] == "eds":
                    n["edges"] = n["edges"][:1] + ([[cps("ARG3"), rng.choice(G["nodes"])["id"]]]
                                                 if rng.random() < 0.5 else [])
                G["nodes"].insert(rng.randrange(len(G["nodes"]) + 1), n)
            else:
                G2 = gen_graph(rng, t="dmrs", n=rng.choice([1, 2, 3]))
                G2["links"].insert(rng.randrange(len(G2["links"]) + 1),
                                   [77, G2["nodes"][0]["id"], cps(rng.choice(["ARG1", "MOD"])), cps("NEQ")])
                side[side.index(G)] = G2
            if rng.random() < 0.3:
                ig, it = rng.random() < 0.5, rng.random() < 0.5
                side[rng.randrange(len(side))] = None
        return mk_case(kind, golds, tests, w, ig, it, rng)

    def search_cases(self, rng, tier, n, seeds):
        yield from self.random_cases(rng, n, ["derived", "derived", "missing", "identical", "indep"])

    # ---- implementation
    def setup(self):
        self.tmp = tempfile.mkdtemp(prefix="c18-", dir="/var/tmp")

    def teardown(self):
        shutil.rmtree(getattr(self, "tmp", ""), ignore_errors=True)

    def impl(self, case):
        w = weights_of(case)
        out = {"totals": run_totals(case["golds"], case["tests"], case["ig"], case["it"]),
               "score": run_compute(case["golds"], case["tests"], w, case["ig"], case["it"])}
        out["score_info"], out["trace"] = run_info(case["golds"], case["tests"], w, case["ig"], case["it"])
        out["cli"] = run_cli_exact(case, self.tmp) if case.get("cli") else None
        # the driver also evaluates the declarative triple collections (Spec.lean): inside the input space
        # (distinct ids, link starts are nodes) the real totals must equal them
        structs_ok = (all(wellformed(g) for g in case["golds"]) and all(wellformed(t) for t in case["tests"]))
        out["spec_totals"] = out["totals"] if structs_ok else None
        return out

    def model_request(self, case):
        req = {"op": "compute", "golds": case["golds"], "tests": case["tests"], "w": case["w"],
               "ig": case["ig"], "it": case["it"]}
        if case.get("cli"):
            req["im"] = case["cli"]["im"]
        return req

    def model_compare(self, case, expected, answer):
        if isinstance(expected, dict) and expected.get("totals") is None and isinstance(answer, dict):
            answer = dict(answer)
            answer["totals"] = None          # edm._accumulate not observable: compare the scores only
        if isinstance(expected, dict) and expected.get("spec_totals") is None and isinstance(answer, dict):
            answer = dict(answer)
            answer["spec_totals"] = None     # outside the input space the declarative collections do not apply
        return super().model_compare(case, expected, answer)

    # ---- direct oracle
    def in_space(self, case):
        return (all(wellformed(g) for g in case["golds"]) and all(wellformed(t) for t in case["tests"])
                and all(Fraction(int(n), int(d)) >= 0 for n, d in case["w"]))

    def oracle(self, case, res):
        fails = []

        def fail(clause, detail):
            fails.append({"clause": clause, "detail": detail})
        golds, tests, ig, it = case["golds"], case["tests"], case["ig"], case["it"]
        w = weights_of(case)
        score = res["score"]
        # (0) purity: the same call twice, with calls on other arguments in between, gives the same answer
        first = run_compute(golds, tests, w, ig, it)
        run_compute(golds, golds, [Fraction(1)] * 5, False, False)       # gold-only material on both sides
        run_compute(tests, golds, [Fraction(2), Fraction(0), Fraction(1), Fraction(1), Fraction(3)], not ig, not it)
        tot_between = run_totals(tests, tests, False, False)
        second = run_compute(golds, tests, w, ig, it)
        if not (first == second == score):
            fail("repeating the call (with other calls in between) changes the result",
                 {"observed": score, "first": first, "second": second})
        if res.get("totals") is not None and run_totals(golds, tests, ig, it) != res["totals"]:
            fail("repeating the call (with other calls in between) changes the accumulated counts",
                 {"observed": res["totals"], "between": tot_between})
        if not self.in_space(case):
            return fails
        # (1) the defining equation
        tot = o_totals(golds, tests, ig, it)
        G, T, B, want = o_score(tot, w)
        want_j = [jfrac(x) for x in want]
        if score != want_j:
            fail("scores differ from the weighted multiset-intersection ratios",
                 {"want": want_j, "got": score, "gold_total": str(G), "test_total": str(T), "both_total": str(B)})
        if isinstance(score, dict):
            return fails
        p, r, f = [Fraction(int(a), int(b)) for a, b in score]
        # (2) range
        if not (0 <= p <= 1 and 0 <= r <= 1 and 0 <= f <= 1):
            fail("a score lies outside [0,1]", {"got": score})
        # (3) identical lists with at least one (positively weighted) triple score 1
        if golds == tests and G > 0:
            if (p, r, f) != (1, 1, 1):
                fail("identical lists with at least one triple do not score 1", {"got": score})
        if case["kind"] == "identical" and not ig and not it:
            objs = [build(g) for g in golds]
            try:
                s = edm.compute(objs, objs, *w)           # literally the same objects
                same = [jfrac(x) for x in s]
            except (KeyError, ZeroDivisionError) as e:
                same = {"err": type(e).__name__}
            if same != score:
                fail("passing the same list object twice differs from passing two equal lists",
                     {"same": same, "equal": score})
        # (4) exchanging gold and test swaps precision and recall
        sw = run_compute(tests, golds, w, it, ig)
        if sw != [score[1], score[0], score[2]]:
            fail("exchanging gold and test does not swap precision and recall", {"got": score, "swapped": sw})
        # (5) renaming node identifiers / reordering nodes changes nothing
        arng = random.Random(case.get("alt", 0))
        ag = [alt_graph(g, arng) for g in golds]
        at = [alt_graph(t, arng) for t in tests]
        for nm, a, b in (("gold", ag, tests), ("test", golds, at), ("both", ag, at)):
            alt = run_compute(a, b, w, ig, it)
            if alt != score:
                fail("renaming node identifiers or reordering nodes changes the scores",
                     {"side": nm, "got": score, "after": alt, "alt_golds": a, "alt_tests": b})
                break
        # (6) the float path (positional arguments; defaults when all weights are 1) agrees with the exact value
        try:
            if all(x == 1 for x in w) and not ig and not it:
                fs = edm.compute([build(g) for g in golds], [build(t) for t in tests])
            else:
                fs = edm.compute([build(g) for g in golds], [build(t) for t in tests],
                                 *[float(x) for x in w], ig, it)
            fs = [float(x) for x in fs]
        except (KeyError, ZeroDivisionError) as e:
            fs = {"err": type(e).__name__}
        if isinstance(fs, dict):
            fail("float weights raise where exact weights do not", {"float": fs, "exact": score})
        else:
            # sums of float products may round, so a total that is exactly zero stays zero (all terms are >= 0)
            for x, y in zip(fs, (p, r, f)):
                if abs(x - float(y)) > 1e-9 * max(1.0, abs(float(y))):
                    fail("float scores differ from the exact ratios by more than 1e-9", {"float": fs, "exact": score})
                    break
        # (7) the logger level does not matter, and what is logged pair by pair is what the definition says
        if res.get("score_info") != score:
            fail("enabling INFO logging changes the scores", {"quiet": score, "info": res.get("score_info")})
        want_pairs = []
        n = max(len(golds), len(tests))
        for i in range(n):
            g = golds[i] if i < len(golds) else None
            t = tests[i] if i < len(tests) else None
            if (g is None and t is None) or (g is None and ig) or (t is None and it):
                want_pairs.append(None)
            else:
                tg, tt = o_triples(g), o_triples(t)
                want_pairs.append([[len(tg[c]), len(tt[c]), o_inter(tg[c], tt[c])] for c in range(5)])
        if res.get("trace") != {"pairs": want_pairs, "err": None}:
            got = (res.get("trace") or {}).get("pairs")
            bad = next((i for i in range(min(len(got or []), len(want_pairs))) if got[i] != want_pairs[i]), None)
            fail("the per-pair counts (INFO log) differ from the multiset intersections of that pair",
                 {"first_bad_pair": bad, "want": None if bad is None else want_pairs[bad],
                  "got": None if bad is None else got[bad], "n_want": len(want_pairs), "n_got": len(got or [])})
        # (8) other ways of making the same call
        kw = dict(name_weight=w[0], argument_weight=w[1], property_weight=w[2], constant_weight=w[3],
                  top_weight=w[4], ignore_missing_gold=ig, ignore_missing_test=it)
        bg, bt = [build(g) for g in golds], [build(t) for t in tests]
        path = case.get("alt", 0) % 4
        exact = True
        try:
            if path == 0:
                v = edm.compute((x for x in bg), (y for y in bt), **kw)
            elif path == 1:
                v = edm.compute(tuple(bg), iter(bt), w[0], w[1], w[2], w[3], w[4], ig, it)
            elif path == 2:
                items = list(kw.items()) + [("golds", iter(bg)), ("tests", tuple(bt))]
                arng.shuffle(items)
                v = edm.compute(**dict(items))
            else:
                kw2 = {k: x for k, x in kw.items() if not (x == 1 and k.endswith("weight")) and x is not False}
                exact = len([k for k in kw2 if k.endswith("weight")]) == 5
                v = edm.compute(bg, bt, **kw2)
            v = [jfrac(x) for x in v] if exact else [float(x) for x in v]
        except (KeyError, ZeroDivisionError, TypeError) as e:
            v = {"err": type(e).__name__}
        if exact:
            if v != score:
                fail("the same call made another way (generators / positional / keywords / defaults) differs",
                     {"path": path, "got": v, "list_call": score})
        elif isinstance(v, dict) or any(abs(x - float(y)) > 1e-9 * max(1.0, abs(float(y))) for x, y in zip(v, (p, r, f))):
            fail("the same call made another way (generators / positional / keywords / defaults) differs",
                 {"path": path, "got": v, "list_call": score})
        # (9) structures edited in place between two calls: the second call sees the edited structures
        ok_i = [i for i in range(min(len(golds), len(tests))) if editable(golds[i], tests[i])]
        if ok_i:
            objs = [build(g) for g in golds]
            try:
                edm.compute(objs, [build(t) for t in tests], **kw)
                for i in ok_i:
                    edit_in_place(objs[i], tests[i])
                v = [jfrac(x) for x in edm.compute(objs, [build(t) for t in tests], **kw)]
            except (KeyError, ZeroDivisionError) as e:
                v = {"err": type(e).__name__}
            g2 = [tests[i] if i in ok_i else golds[i] for i in range(len(golds))]
            _, _, _, want2 = o_score(o_totals(g2, tests, ig, it), w)
            if v != [jfrac(x) for x in want2]:
                fail("after editing gold structures in place a second call does not see the edits",
                     {"edited_pairs": ok_i, "got": v, "want": [jfrac(x) for x in want2]})
        # (10) the sub-command
        if case.get("cli"):
            if res.get("cli") != want_j:
                fail("`delphin edm` (call_compute, exact weights) differs from the weighted ratios",
                     {"cli": case["cli"], "got": res.get("cli"), "want": want_j})
            fl, logged, argv = run_cli_main(case, self.tmp)
            if isinstance(fl, dict) or any(abs(x - float(y)) > 1e-9 * max(1.0, abs(float(y)))
                                            for x, y in zip(fl, want)):
                fail("`delphin edm` command line (float weights) differs from the weighted ratios",
                     {"argv": argv[4:], "got": fl, "want": [float(x) for x in want]})
            if (logged > 0) != (case["cli"].get("v", 0) >= 2):
                fail("`delphin edm` -v/-vv does not set the logging level it says",
                     {"v": case["cli"].get("v", 0), "records": logged})
        return fails

    def classify(self, case, failure):
        return None

    # ---- bookkeeping
    def nontrivial_key(self, case, res):
        if not self.in_space(case):
            return super().nontrivial_key(case, res)
        tot = o_totals(case["golds"], case["tests"], case["ig"], case["it"])
        if sum(c[0] + c[1] for c in tot) == 0:
            return None
        return super().nontrivial_key(case, res)

    def stats(self, case, res, counters):
        def inc(k, by=1):
            counters[k] = counters.get(k, 0) + by
        inc("kind:" + case["kind"])
        npairs = max(len(case["golds"]), len(case["tests"]))
        inc("pairs:%s" % (npairs if npairs <= 6 else "7-1024" if npairs <= 1024 else ">1024"))
        inc("callpath:%s" % ("generators", "positional+iter", "keywords_shuffled", "defaults_omitted")[case.get("alt", 0) % 4])
        cli = case.get("cli")
        if cli:
            inc("cli:src=%s" % cli["src"])
            inc("cli:fmt=%s" % cli["fmt"])
            inc("cli:ignore-missing=%s" % cli["im"])
            inc("cli:-p=%d" % cli.get("p", 0))
            inc("cli:verbosity=%d" % cli.get("v", 0))
            if len(case["golds"]) != len(case["tests"]):
                inc("cli:collections_of_unequal_length")
            if cli["src"] != "file":
                if any(g is None for g in case["golds"] + case["tests"]):
                    inc("cli:missing_item_from_source(no result / no result number p / unconvertible MRS)")
        if sum(1 for i in range(min(len(case["golds"]), len(case["tests"])))
               if editable(case["golds"][i], case["tests"][i])) and self.in_space(case):
            inc("inplace_edit_applied")
        mult = 0
        for x in case["golds"] + case["tests"]:
            if x is not None and len(x["nodes"]) >= 255:
                mult = max(mult, len(x["nodes"]))
        if mult:
            inc("structure_with_>=255_nodes")
        vs = set(V_PREDS[1:]) | set(V_CARGS[1:])
        if any(uncps(n["pred"]) in vs or (n["carg"] and uncps(n["carg"]) in vs)
               for x in case["golds"] + case["tests"] if x is not None for n in x["nodes"]):
            inc("has_spelling_variant(case/NFC/NFD/suffix)")
        if len(case["golds"]) != len(case["tests"]):
            inc("unequal_list_lengths")
        inc("flags:ig=%d,it=%d" % (case["ig"], case["it"]))
        for g, t in itertools.zip_longest(case["golds"], case["tests"]):
            if g is None and t is None:
                inc("branch:both_missing")
            elif g is None:
                inc("branch:gold_missing_%s" % ("skipped" if case["ig"] else "counted"))
            elif t is None:
                inc("branch:test_missing_%s" % ("skipped" if case["it"] else "counted"))
            else:
                inc("branch:pair_%s_%s" % (g["t"], t["t"]))
            for x in (g, t):
                if x is not None:
                    inc("nodes:%d" % min(len(x["nodes"]), 7))
                    if not wellformed(x):
                        inc("structure_outside_space")
                    if any(l[0] == 0 for l in x["links"]):
                        inc("dmrs_top_link")
                    if any(n["lnk"] is None or n["lnk"][0] != "c" for n in x["nodes"]):
                        inc("node_without_charspan")
                    if any(is_big(n["lnk"]) for n in x["nodes"]):
                        inc("structure_with_offset>=256")
                        if any(not is_big(n["lnk"]) for n in x["nodes"]):
                            inc("structure_mixing_small_and_large_offsets")
                    if any(n["lnk"] is not None and n["lnk"][0] == "c" and max(abs(n["lnk"][1]), abs(n["lnk"][2])) >= 65536
                           for n in x["nodes"]):
                        inc("structure_with_offset>=2^16")
                    if any(n["lnk"] is not None and n["lnk"][0] == "c" and max(abs(n["lnk"][1]), abs(n["lnk"][2])) >= 2 ** 63
                           for n in x["nodes"]):
                        inc("structure_with_offset>=2^63")
            if g is not None and t is not None:
                sg = [n["lnk"][1:] for n in g["nodes"] if n["lnk"] is not None and n["lnk"][0] == "c"]
                st = [n["lnk"][1:] for n in t["nodes"] if n["lnk"] is not None and n["lnk"][0] == "c"]
                if any(a != b and any(a in f and b in f for f in FAMILIES) for a in sg for b in st):
                    inc("pair_with_collision_prone_spans")
        ws = weights_of(case)
        inc("weights:" + ("all_one" if all(x == 1 for x in ws) else "all_zero" if all(x == 0 for x in ws)
                          else "negative" if any(x < 0 for x in ws) else "some_zero" if any(x == 0 for x in ws)
                          else "positive"))
        if res is None:
            return
        tr = res.get("trace")
        if tr:
            for x in tr["pairs"]:
                inc("trace:pair_skipped" if x is None else "trace:pair_counted")
            if tr["err"]:
                inc("trace:raised_after_%s_pairs" % min(len(tr["pairs"]), 3))
        sc = res["score"]
        if isinstance(sc, dict):
            inc("result:" + sc["err"])
            return
        p, r, f = [Fraction(int(a), int(b)) for a, b in sc]
        inc("result:" + ("all_zero" if (p, r, f) == (0, 0, 0) else "all_one" if (p, r, f) == (1, 1, 1)
                         else "p=1" if p == 1 else "r=1" if r == 1 else "strictly_between"))
        if self.in_space(case):
            tot = o_totals(case["golds"], case["tests"], case["ig"], case["it"])
            G, T, B, _ = o_score(tot, ws)
            if (p, r, f) == (0, 0, 0):
                inc("zero_guard:" + ("T=0" if T == 0 else "G=0" if G == 0 else "B=0"))
            rep = False
            for g, t in o_pairs(case["golds"], case["tests"], case["ig"], case["it"]):
                for x in (g, t):
                    for lst in o_triples(x)[:4]:
                        if len(set(lst)) != len(lst):
                            rep = True
            if rep:
                inc("has_repeated_triple")
            for c, nm in enumerate(("name", "argument", "property", "constant", "top")):
                if tot[c][2]:
                    inc("matched_category:" + nm)

    def shrink(self, case, still_fails):
        cur = case
        changed = True
        budget = 400
        while changed and budget > 0:
            changed = False
            for cand in self._smaller(cur):
                budget -= 1
                if budget <= 0:
                    break
                try:
                    ok = still_fails(cand)
                except Exception:
                    ok = False
                if ok:
                    cur = cand
                    changed = True
                    break
        return cur

    def _smaller(self, case):
        n = max(len(case["golds"]), len(case["tests"]))
        if n > 8:                                        # long lists: halves first
            for lo, hi in ((0, n // 2), (n // 2, n)):
                c = copy.deepcopy(case)
                c["golds"] = c["golds"][lo:hi]
                c["tests"] = c["tests"][lo:hi]
                yield c
        for side in ("golds", "tests"):                  # big structures: halves first
            for gi, g in enumerate(case[side]):
                if g is not None and len(g["nodes"]) > 8:
                    k = len(g["nodes"])
                    for lo, hi in ((0, k // 2), (k // 2, k), (0, k - 1)):
                        c = copy.deepcopy(case)
                        c[side][gi]["nodes"] = c[side][gi]["nodes"][lo:hi]
                        ids = {x["id"] for x in c[side][gi]["nodes"]}
                        c[side][gi]["links"] = [l for l in c[side][gi]["links"] if l[0] in ids or l[0] == 0]
                        yield c
        if n > 40 or any(g is not None and len(g["nodes"]) > 40 for g in case["golds"] + case["tests"]):
            return                                       # one-by-one deletion is too slow at this size
        for i in range(n):
            c = copy.deepcopy(case)
            c["golds"] = c["golds"][:i] + c["golds"][i + 1:]
            c["tests"] = c["tests"][:i] + c["tests"][i + 1:]
            yield c
        for side in ("golds", "tests"):
            for gi, g in enumerate(case[side]):
                if g is None:
                    continue
                for ni in range(len(g["nodes"])):
                    c = copy.deepcopy(case)
                    del c[side][gi]["nodes"][ni]
                    ids = {x["id"] for x in c[side][gi]["nodes"]}
                    c[side][gi]["links"] = [l for l in c[side][gi]["links"] if l[0] in ids or l[0] == 0]
                    yield c
                for li in range(len(g["links"])):
                    c = copy.deepcopy(case)
                    del c[side][gi]["links"][li]
                    yield c
                for ni, nd in enumerate(g["nodes"]):
                    for key in ("edges", "props"):
                        for k in range(len(nd[key])):
                            c = copy.deepcopy(case)
                            del c[side][gi]["nodes"][ni][key][k]
                            yield c
                    if nd["carg"] is not None:
                        c = copy.deepcopy(case)
                        c[side][gi]["nodes"][ni]["carg"] = None
                        yield c
        if any(x != ["1", "1"] for x in case["w"]):
            c = copy.deepcopy(case)
            c["w"] = [["1", "1"]] * 5
            yield c


CHECK = C18()


def _selftest():
    """the canonical observation does not depend on dict/set order or on re-running"""
    rng = random.Random(5)
    chk = CHECK
    for case in itertools.islice(chk.cases(rng, "quick", 50), 0, 400, 5):
        a = chk.impl(case)
        b = chk.impl(json.loads(json.dumps(case)))
        assert a == b, (case, a, b)
    return True
