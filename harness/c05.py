"""C05 — MRS -> EDS conversion (eds.from_mrs): generators, implementation runner, direct oracle
(naive re-statement of every clause of the property on the real code), classifier."""
import copy
import warnings

from .common import paths, semgen
from .common.runner import Check, canon

paths.ensure_repo_on_path()
import logging  # noqa: E402
for _name in ("pe", "penman", "delphin.codecs.edspenman"):
    logging.getLogger(_name).setLevel(logging.ERROR)
from delphin import eds, mrs, scope, variable  # noqa: E402
from delphin.codecs import eds as edsnative  # noqa: E402
from delphin.codecs import edsjson, edspenman  # noqa: E402

V = semgen.var_to_json
VF = semgen.var_from_json

PREDS = ["_dog_n_1", "_bark_v_1", "_big_a_1", "neg", "named", "_and_c", "_very_x_deg", "_chase_v_1"]
QPREDS = ["_the_q", "_every_q", "udef_q"]
TENSES = ["past", "PRES", "untensed", "UNTENSED", "Untensed", "pres", "past", ""]


# ------------------------------------------------------------------ generators

def _small(rng, hi, lam=0.7):
    return min(hi, int(rng.expovariate(lam)))


def gen_wf(rng, max_eps=7, p_mutual=0.05, p_double_q=0.03):
    """Constructive generator of (mostly) well-formed MRSs that reaches the corners of
    eds.from_mrs: predications sharing a scope with and without arguments between them (several
    representatives -> predicate-modifier edges), ARG1 of a modifier absent / unbound (u, U) / bound /
    of another sort, qeq and direct-label scopal arguments, unexpressed arguments, quantifiers (also
    inside a shared scope, also with colliding ids q<n>), constants, alignments, properties,
    shuffled EP order and arbitrary variable numbering.  Variables are symbolic while building and
    numbered at the end."""
    n = rng.choice([1, 2, 2, 3, 3, 3, 4, 4, 5, 6, max_eps])
    eps = []         # dicts with symbolic variables ("h", k) / (sort, k)
    hcons = []
    counter = [0]

    def new(sort):
        counter[0] += 1
        return (sort, counter[0])
    top = new("h")
    ivs = []

    def nextrole(ep):
        k = 1
        roles = {r for r, _ in ep["args"]}
        while "ARG%d" % k in roles:
            k += 1
        return "ARG%d" % k

    def mk(label, iv):
        return {"pred": rng.choice(PREDS), "label": label, "args": [["ARG0", iv]], "carg": None,
                "lnk": None, "surface": None, "base": None}
    for i in range(n):
        sort = rng.choice(["x", "x", "e", "e", "e", "i", "u", "p"]) if i else rng.choice(["e", "e", "x"])
        iv = new(sort)
        ivs.append(iv)
        if i == 0:
            lbl = new("h")
            hcons.append([top, "qeq", lbl])
            eps.append(mk(lbl, iv))
            continue
        j = rng.randrange(i)
        r = rng.random()
        if r < 0.17:        # modifier taking the old EP as an argument
            me = mk(eps[j]["label"], iv)
            me["args"].append([rng.choice(["ARG1", "ARG1", "ARG2"]), ivs[j]])
        elif r < 0.42:      # same scope, no argument between them: predicate-modifier candidates
            me = mk(eps[j]["label"], iv)
            q = rng.random()
            if q < 0.35:
                pass                                        # no ARG1 at all
            elif q < 0.65:
                me["args"].append(["ARG1", new(rng.choice(["u", "u", "U"]))])   # unbound ARG1
            elif q < 0.8:
                me["args"].append(["ARG1", new(rng.choice(["i", "x", "p", "e"]))])  # unexpressed, other sort
            elif q < 0.9:
                me["args"].append(["ARG2", new("u")])
            else:
                k = rng.randrange(i)                        # ARG1 bound to some other predication
                me["args"].append(["ARG1", ivs[k]])
        elif r < 0.52:      # same scope, the old EP takes the new one
            me = mk(eps[j]["label"], iv)
            eps[j]["args"].append([nextrole(eps[j]), iv])
        elif r < 0.70:      # qeq-scopal argument
            me = mk(new("h"), iv)
            hole = new("h")
            hcons.append([hole, "qeq", me["label"]])
            eps[j]["args"].append([nextrole(eps[j]), hole])
        elif r < 0.78:      # direct label argument
            me = mk(new("h"), iv)
            eps[j]["args"].append([nextrole(eps[j]), me["label"]])
        elif r < 0.89:      # new scope, new EP takes the old one
            me = mk(new("h"), iv)
            me["args"].append(["ARG1", ivs[j]])
        else:               # new scope, old EP takes the new one
            me = mk(new("h"), iv)
            eps[j]["args"].append([nextrole(eps[j]), iv])
        eps.append(me)
    # extra arguments: cross references and unexpressed ones
    for _ in range(_small(rng, 3, 1.0)):
        a = rng.randrange(n)
        if rng.random() < 0.5 and n > 1:
            b = rng.choice([k for k in range(n) if k != a])
            if not any(v == ivs[b] for _, v in eps[a]["args"]):
                eps[a]["args"].append([nextrole(eps[a]), ivs[b]])
        else:
            eps[a]["args"].append([nextrole(eps[a]), new(rng.choice(["i", "u", "x", "p", "h"]))])
    if n >= 2 and rng.random() < p_mutual:
        a = rng.randrange(n)
        b = rng.choice([k for k in range(n) if k != a])
        eps[b]["label"] = eps[a]["label"]
        for s, t in ((a, b), (b, a)):
            if not any(v == ivs[t] for r_, v in eps[s]["args"] if r_ != "ARG0"):
                eps[s]["args"].append([nextrole(eps[s]), ivs[t]])
    # quantifiers
    quants = []
    for i in range(n):
        if ivs[i][0] in ("x", "i") and rng.random() < 0.55:
            times = 2 if rng.random() < p_double_q else 1
            for _ in range(times):
                r = rng.random()
                lbl = new("h") if r < 0.85 else rng.choice(eps)["label"]     # quantifier inside a shared scope
                q = {"pred": rng.choice(QPREDS), "label": lbl, "args": [["ARG0", ivs[i]]], "carg": None,
                     "lnk": None, "surface": None, "base": None}
                if rng.random() < 0.9:
                    hole = new("h")
                    hcons.append([hole, "qeq", eps[i]["label"]])
                    q["args"].append(["RSTR", hole])
                else:
                    q["args"].append(["RSTR", eps[i]["label"]])
                if rng.random() < 0.7:
                    q["args"].append(["BODY", new("h")])
                if rng.random() < 0.15:
                    q["args"].insert(0, q["args"].pop())     # another dict order
                quants.append(q)
    rels = eps + quants
    # decoration
    withlnk = rng.random() < 0.5
    pos = 0
    for ep in rels:
        if withlnk and rng.random() < 0.9:
            w = rng.randrange(0, 6)
            ep["lnk"] = [pos, pos + w]
            pos += rng.randrange(0, 4)
        if ep["pred"] == "named" or rng.random() < 0.08:
            ep["carg"] = rng.choice(["Kim", "Sandy", "3", "a b"])
        if rng.random() < 0.07:
            ep["surface"] = rng.choice(["dogs", ""])
        if rng.random() < 0.07:
            ep["base"] = "dog"
    if rng.random() < 0.5:
        rng.shuffle(rels)
    # numbering
    syms = []

    def see(v):
        if v not in syms:
            syms.append(v)
    see(top)
    for ep in rels:
        see(ep["label"])
        for _, v in ep["args"]:
            see(v)
    for hi, _, lo in hcons:
        see(hi)
        see(lo)
    mode = rng.random()
    if mode < 0.4:
        nums = list(range(len(syms)))                     # 0.. in order of appearance
    else:
        nums = rng.sample(range(0, len(syms) + 8), len(syms))
    number = {}
    for v, k in zip(syms, nums):
        number[v] = [v[0], k]
    if mode > 0.7:
        # same number for variables of different sorts (ids q<n> collide, e.g. x3 / i3)
        bysort = {}
        for v in syms:
            bysort.setdefault(v[0], []).append(v)
        dense = rng.random() < 0.5        # x0,x1,.. / i0,i1,.. : quantifier ids q<n> collide as often as possible
        for sort, vs in bysort.items():
            ks = list(range(len(vs))) if dense else rng.sample(range(0, len(vs) + 3), len(vs))
            for v, k in zip(vs, ks):
                number[v] = [v[0], k]

    def N(v):
        return list(number[v])
    out_rels = []
    for ep in rels:
        e = dict(ep)
        e["label"] = N(ep["label"])
        e["args"] = [[r, N(v)] for r, v in ep["args"]]
        out_rels.append(e)
    variables = []
    for iv in ivs:
        if iv[0] == "e" and rng.random() < 0.7:
            ps = [["TENSE", rng.choice(TENSES)]]
            if rng.random() < 0.4:
                ps.insert(rng.randrange(2), ["SF", "prop"])
            variables.append([N(iv), ps])
        elif iv[0] == "x" and rng.random() < 0.5:
            variables.append([N(iv), [["PERS", "3"], ["NUM", rng.choice(["sg", "pl"])]]])
    r = rng.random()
    index = N(ivs[0]) if r < 0.8 else (N(rng.choice(ivs)) if r < 0.95 else None)
    return {"top": N(top), "index": index, "rels": out_rels,
            "hcons": [[N(a), r_, N(b)] for a, r_, b in hcons], "icons": [], "vars": variables}


CONFIGS4 = [{"pm": "std", "uniq": True}, {"pm": "std", "uniq": False},
            {"pm": "off", "uniq": True}, {"pm": "off", "uniq": False}]


def gen_configs(rng, m):
    cfgs = copy.deepcopy(CONFIGS4)
    n = len(m["rels"])
    r = rng.random()
    if r < 0.3:
        cfgs.append({"pm": "wrap", "uniq": rng.random() < 0.5})
    elif r < 0.4:
        cfgs.append({"pm": "empty", "uniq": rng.random() < 0.5})
    elif r < 0.6 and n >= 2:
        a, b = rng.sample(range(n), 2)
        cfgs.append({"pm": {"const": [[a, rng.choice(["MOD", "ARG1", "ARG7"]), b]]}, "uniq": rng.random() < 0.5})
    return cfgs


# ------------------------------------------------------------------ running the real code

def _lnk(x):
    return semgen._lnk_to_json(x)


def node_obs(n):
    return {"id": V(n.id), "pred": n.predicate, "type": n.type,
            "edges": [[r, V(t)] for r, t in n.edges.items()],
            "props": [[k, v] for k, v in n.properties.items()],
            "carg": n.carg, "lnk": _lnk(n.lnk), "surface": n.surface, "base": n.base}


WARN_KINDS = (("broken handle constraint", "broken_hcons"), ("unable to find a suitable TOP", "no_top"))


def warn_kind(w):
    s = str(w.message)
    for prefix, kind in WARN_KINDS:
        if s.startswith(prefix):
            return kind
    return "other:" + type(w.message).__name__


def make_pm(cfg_pm, calls):
    """the value passed as predicate_modifiers; `calls` records how a callable was called"""
    if cfg_pm == "std":
        return True
    if cfg_pm == "off":
        return False
    if cfg_pm == "wrap":
        def wrap(e, m, representatives=None):
            calls.append({"node_ids": [n.id for n in e.nodes], "ep_ids": [ep.id for ep in m.rels],
                          "reps": None if representatives is None else
                          {l: [p.id for p in ps] for l, ps in representatives.items()}})
            return eds.find_predicate_modifiers(e, m, representatives=representatives)
        return wrap
    if cfg_pm == "empty":
        def empty(e, m, representatives=None):
            calls.append({"node_ids": [n.id for n in e.nodes], "ep_ids": [ep.id for ep in m.rels], "reps": {}})
            return {}
        return empty
    spec = cfg_pm["const"]

    def const(e, m, representatives=None):
        calls.append({"node_ids": [n.id for n in e.nodes], "ep_ids": [ep.id for ep in m.rels], "reps": {}})
        out = {}
        for s, role, t in spec:
            out.setdefault(m.rels[s].id, {})[role] = m.rels[t].id
        return out
    return const


def convert(mj, cfg):
    """(EDS or None, error name or None, warning kinds, calls, MRS object)"""
    m = semgen.mrs_from_json(mj)
    calls = []
    with warnings.catch_warnings(record=True) as ws:
        warnings.simplefilter("always")
        try:
            e = eds.from_mrs(m, predicate_modifiers=make_pm(cfg["pm"], calls), unique_ids=cfg["uniq"])
            err = None
        except (IndexError, KeyError, ValueError, TypeError, AttributeError, eds.EDSError) as ex:
            e, err = None, type(ex).__name__
    return e, err, [warn_kind(w) for w in ws], calls, m


def run_live(m, cfg):
    """convert the LIVE object m (no fresh copy): (EDS or None, error name, warning kinds, calls)"""
    calls = []
    with warnings.catch_warnings(record=True) as ws:
        warnings.simplefilter("always")
        try:
            e = eds.from_mrs(m, predicate_modifiers=make_pm(cfg["pm"], calls), unique_ids=cfg["uniq"])
            err = None
        except (IndexError, KeyError, ValueError, TypeError, AttributeError, eds.EDSError) as ex:
            e, err = None, type(ex).__name__
    return e, err, [warn_kind(w) for w in ws], calls


def obs_of(m, e, err, ws):
    if err is not None:
        return {"err": err}
    return {"ok": {"ids": [V(ep.id) for ep in m.rels], "top": V(e.top),
                   "nodes": [node_obs(n) for n in e.nodes], "warnings": ws}}


def snapshot(m):
    """deep, order-preserving picture of everything an MRS object holds"""
    return canon({
        "top": m.top, "index": m.index, "lnk": str(m.lnk), "surface": m.surface, "identifier": m.identifier,
        "rels": [[ep.id, ep.predicate, ep.type, ep.label, [[r, v] for r, v in ep.args.items()],
                  str(ep.lnk), ep.surface, ep.base] for ep in m.rels],
        "hcons": [[hc.hi, hc.relation, hc.lo] for hc in m.hcons],
        "icons": [[ic.left, ic.relation, ic.right] for ic in m.icons],
        "variables": [[v, [[k, x] for k, x in ps.items()]] for v, ps in m.variables.items()],
        "index_keys": sorted(m._pidx) if hasattr(m, "_pidx") else None})


# ---- in-place edits ("convert – edit in place – convert again")
# Every edit has a pure version on the JSON content and an in-place version on the live object;
# ARG0 and RSTR are never touched, so EP ids stay what MRS.__init__ made them.  Appending an EP in
# place is NOT among them: the structure's id index (_pidx) and variable map are only built by the
# constructor, so the real code cannot even test such an object for well-formedness (KeyError).

def apply_edit_json(mj, ed):
    m = copy.deepcopy(mj)
    op = ed["op"]
    if op == "swap_args":
        args = m["rels"][ed["ep"]]["args"]
        i1 = next(k for k, a in enumerate(args) if a[0] == ed["r1"])
        i2 = next(k for k, a in enumerate(args) if a[0] == ed["r2"])
        args[i1][1], args[i2][1] = args[i2][1], args[i1][1]
    elif op == "retarget":
        for a in m["rels"][ed["ep"]]["args"]:
            if a[0] == ed["role"]:
                a[1] = list(ed["to"])
    elif op == "set_pred":
        m["rels"][ed["ep"]]["pred"] = ed["pred"]
    elif op == "set_carg":
        m["rels"][ed["ep"]]["carg"] = ed["carg"]
    elif op == "set_prop":
        for entry in m["vars"]:
            if entry[0] == ed["var"]:
                for kv in entry[1]:
                    if kv[0] == ed["key"]:
                        kv[1] = ed["val"]
                        break
                else:
                    entry[1].append([ed["key"], ed["val"]])
                break
        else:
            m["vars"].append([list(ed["var"]), [[ed["key"], ed["val"]]]])
    elif op == "hcons":
        m["hcons"][ed["idx"]][2] = list(ed["lo"])
    elif op == "del_ep":
        del m["rels"][ed["ep"]]
    else:
        raise ValueError(op)
    return m


def apply_edit_obj(m, ed):
    op = ed["op"]
    if op == "swap_args":
        args = m.rels[ed["ep"]].args
        args[ed["r1"]], args[ed["r2"]] = args[ed["r2"]], args[ed["r1"]]
    elif op == "retarget":
        m.rels[ed["ep"]].args[ed["role"]] = VF(ed["to"])
    elif op == "set_pred":
        m.rels[ed["ep"]].predicate = ed["pred"]
    elif op == "set_carg":
        if ed["carg"] is None:
            m.rels[ed["ep"]].args.pop("CARG", None)
        else:
            m.rels[ed["ep"]].args["CARG"] = ed["carg"]
    elif op == "set_prop":
        m.variables[VF(ed["var"])][ed["key"]] = ed["val"]
    elif op == "hcons":
        hcs = list(m.hcons)
        old = hcs[ed["idx"]]
        hcs[ed["idx"]] = mrs.HCons(old.hi, old.relation, VF(ed["lo"]))
        m.hcons = hcs
    elif op == "del_ep":
        del m.rels[ed["ep"]]
    else:
        raise ValueError(op)


def content(m):
    """what the conversion may depend on, for comparing a live edited object with a fresh one"""
    return canon({
        "top": m.top, "index": m.index,
        "rels": [[ep.id, ep.predicate, ep.label, [[r, v] for r, v in ep.args.items() if r != "CARG"],
                  ep.args.get("CARG"), str(ep.lnk), ep.surface, ep.base] for ep in m.rels],
        "hcons": [[hc.hi, hc.relation, hc.lo] for hc in m.hcons],
        "ivprops": [[ep.iv, [[k, x] for k, x in m.variables.get(ep.iv, {}).items()]] for ep in m.rels]})


def gen_edit(rng, mj):
    """an in-place edit after which the content is a DIFFERENT MRS that is still in the claim and
    whose EP ids are those a fresh object would get; None if none of the tried candidates qualifies"""
    rels = mj["rels"]
    n = len(rels)
    labels = [ep["label"] for ep in rels]
    ivs = [v for ep in rels for r, v in ep["args"] if r == "ARG0"]
    base_ids = [ep.id for ep in semgen.mrs_from_json(mj).rels]
    for _ in range(12):
        r = rng.random()
        i = rng.randrange(n)
        free = [a[0] for a in rels[i]["args"] if a[0] not in ("ARG0", "RSTR")]
        if r < 0.30:
            if len(free) < 2:
                continue
            r1, r2 = rng.sample(free, 2)
            ed = {"op": "swap_args", "ep": i, "r1": r1, "r2": r2}
        elif r < 0.55:
            if not free or not ivs:
                continue
            ed = {"op": "retarget", "ep": i, "role": rng.choice(free), "to": rng.choice(ivs)}
        elif r < 0.63:
            ed = {"op": "set_pred", "ep": i, "pred": rng.choice(PREDS + ["_edited_v_1"])}
        elif r < 0.70:
            ed = {"op": "set_carg", "ep": i, "carg": rng.choice([None, "Edited", "Kim"])}
        elif r < 0.80:
            if not ivs:
                continue
            v = rng.choice(ivs)
            ed = {"op": "set_prop", "var": v, "key": rng.choice(["TENSE", "TENSE", "PERS"]),
                  "val": rng.choice(["past", "untensed", "pres", "2"])}
        elif r < 0.90:
            if not mj["hcons"]:
                continue
            ed = {"op": "hcons", "idx": rng.randrange(len(mj["hcons"])), "lo": rng.choice(labels)}
        else:
            if n < 2:
                continue
            ed = {"op": "del_ep", "ep": i}
        try:
            m2j = apply_edit_json(mj, ed)
            if canon(m2j) == canon(mj):
                continue
            m2 = semgen.mrs_from_json(m2j)
            if not in_claim(m2):
                continue
            want_ids = list(base_ids)
            if ed["op"] == "del_ep":
                del want_ids[ed["ep"]]
            if [ep.id for ep in m2.rels] != want_ids:
                continue
        except Exception:
            continue
        return ed
    return None


def in_claim(m):
    """the property's input space: is_well_formed (connected, scope-plausible, IV property) and — the
    reading fixed with the coordinator — no variable bound by two quantifiers"""
    if not mrs.is_well_formed(m):
        return False
    # variables of the sort '_' (e.g. ARG0 '_1') are the identifier space make_ids_unique /
    # _uniquify_ids reserve for themselves: outside the input space (coordinator's decision)
    for v in m.variables:
        if variable.type(v) == "_":
            return False
    bound = [ep.iv for ep in m.rels if ep.is_quantifier()]
    return len(set(bound)) == len(bound)


# ------------------------------------------------------------------ naive helpers (oracle side)

def _out_args(ep):
    return [(r, v) for r, v in ep.args.items() if r not in ("ARG0", "CARG")]


def _components(n, pairs):
    """component label per position (label propagation to a fixpoint; deliberately naive)"""
    comp = list(range(n))
    changed = True
    while changed:
        changed = False
        for a, b in pairs:
            lo = min(comp[a], comp[b])
            if comp[a] != lo:
                comp[a] = lo
                changed = True
            if comp[b] != lo:
                comp[b] = lo
                changed = True
    return comp


def scope_blocking(m):
    """label -> list of (position, blocked?) by the DEFINITION of a representative: blocked when the
    predication takes another member of its scope, or a scopal descendant of another member, as a
    non-scopal argument."""
    eps = list(m.rels)
    members = {}
    for i, ep in enumerate(eps):
        members.setdefault(ep.label, []).append(i)
    last = {}
    for hc in m.hcons:
        last[hc.hi] = hc.lo
    succ = {}
    for i, ep in enumerate(eps):
        out = []
        for _, v in _out_args(ep):
            if v in members:
                out.extend(members[v])
            elif v in last:
                out.extend(members.get(last[v], []))
        succ[i] = out

    def reach(i):
        seen, todo = [], list(succ[i])
        while todo:
            x = todo.pop()
            if x not in seen:
                seen.append(x)
                todo.extend(succ[x])
        return seen
    res = {}
    for l, mem in members.items():
        row = []
        for i in mem:
            args = {v for _, v in _out_args(eps[i]) if variable.type(v) in "xeipu"}
            b = False
            for j in mem:
                if j != i and (eps[j].id in args or any(eps[k].id in args for k in reach(j))):
                    b = True
            row.append((i, b))
        res[l] = row
    return res


def eds_view(e, fold_case=False):
    """what C03 says a serialisation keeps: top, ids, predicates, types, properties, constants,
    alignments, role-labelled edges (per node, in node order)"""
    nodes = []
    for n in e.nodes:
        props = dict(n.properties)
        if fold_case:
            props = {k.upper(): v.lower() for k, v in props.items()}
        nodes.append([n.id, n.predicate, n.type, sorted(props.items()), n.carg, [n.cfrom, n.cto],
                      sorted(n.edges.items())])
    return {"top": e.top, "nodes": nodes}


_SYMBOL_BAD = set(' \n\t:,<([]{}"\\')


def c03_expressible(e):
    """node ids, predicates, types, property names/values are non-empty symbols of the native
    syntax; constants contain no quote/backslash (what the C03 generators promise)"""
    def sym(x):
        return isinstance(x, str) and x != "" and not (set(x) & _SYMBOL_BAD)
    for n in e.nodes:
        if not sym(n.id) or not sym(n.predicate) or (n.type is not None and not sym(n.type)):
            return False
        if any(not sym(k) or not sym(v) for k, v in n.properties.items()):
            return False
        if n.carg is not None and (set(n.carg) & set('"\\')):
            return False
        if any(not sym(r) for r in n.edges):
            return False
    return True


# ------------------------------------------------------------------ the check

class C05(Check):
    pid = "C05"
    quick_cases = 900
    thorough_cases = 9000
    rule = ("Each case is one MRS converted under the four configurations predicate_modifiers in {True, False} x "
            "unique_ids in {True, False}, plus (60%) one user-supplied predicate_modifiers function (a wrapper of the "
            "standard one / one returning {} / one returning a fixed extra edge). MRS streams: (a) 55% constructive "
            "well-formed builder gen_wf: 1-7 predications in a scope tree, modifiers sharing a label with and without "
            "an argument between them (several representatives), ARG1 of such a modifier absent / unbound u,U / "
            "unexpressed of another sort / bound elsewhere, qeq and direct-label scopal arguments, unexpressed "
            "arguments, quantifiers for x/i variables (hole or label RSTR, with/without BODY, 15% inside a shared "
            "scope), colliding ids q<n>, constants, alignments, surface/base, TENSE/SF/PERS/NUM properties, shuffled "
            "EP order, three numbering schemes; 5% mutual-argument scopes (F08), 3% doubly bound variables (outside "
            "the claim); (b) 12% semgen.gen_mrs_tree; (c) 13% one or two mutations of (a)/(b); (d) 15% wild MRSs "
            "(semgen.gen_mrs_wild: shared IVs, missing ARG0, dangling/cyclic/duplicate hcons, self-scoping); (e) a "
            "slice of the enumeration of all MRSs with <= 2 EPs (semgen.enum_small_mrs). About half of the in-claim cases additionally carry one IN-PLACE EDIT of the live "
            "object (swap two argument values of an EP / retarget an argument to another EP's ARG0 / change a "
            "predicate, CARG or variable property / replace m.hcons by a list with one lo retargeted / delete an EP "
            "from m.rels), chosen so that the edited content is a different MRS still in the claim with the same EP "
            "ids: ONE object is converted under all configurations, converted again (purity), edited in place and "
            "converted under all configurations again. The oracle's clauses apply "
            "to the MRSs in the claim (is_well_formed and no doubly bound variable); the rest is compared with the "
            "model only (errors and warnings included). Non-trivial = at least one predication; distinct by JSON text.")
    assumptions = [
        "input space of the claim = mrs.is_well_formed(m) (connected, scope-plausible, intrinsic-variable property) AND no "
        "variable bound by two quantifiers (reading fixed with the coordinator: the clause 'a quantifier has exactly one "
        "bound-variable edge' presupposes at most one quantifier per variable; is_well_formed does not test it)",
        "variable strings are (sort, canonical decimal id); sorts are ASCII; variables of the sort '_' (e.g. ARG0 '_1', the "
        "identifier space make_ids_unique reserves for itself) are OUTSIDE the input space (coordinator's decision; on "
        "such input the real code can give duplicate node ids, see corpus/C05/known.json) and the generated "
        "well-formed stream has no ARG0 of sort 'q' either (the theorems carry both as the hypothesis NoReserved)",
        "EP ids pairwise distinct (true unless an ARG0 has the sort '_'): otherwise the driver answers 'unmodelled'",
        "make_ids_unique iterates a Python set when several non-quantifier EPs share an ARG0 (ill-formed input): the "
        "driver answers 'unmodelled' when that order is observable; both 'unmodelled' reasons are counted in the "
        "evidence (model_comparisons_by_config) split by in-claim / outside-claim, and an 'unmodelled' answer on a "
        "case inside the claim is reported as a model/implementation disagreement",
        "representative_priority is left at its default",
        "in-place edits never touch ARG0/RSTR (EP ids are fixed by the constructor) and never append an EP: the id index "
        "and the variable map of a structure are built by its constructor only, so the real code raises KeyError even "
        "in is_well_formed on an object with an appended EP (observation, same nature as F09)",
        "a user-supplied predicate_modifiers function is represented in the model by the mapping it returns",
        "native EDS reads property names upper-cased / values lower-cased (C03's business): the native round trip is "
        "compared modulo that folding",
    ]
    trusted_base = ["hand-written model lean/Verif/C05/Model.lean on top of lean/Verif/Common/Sem.lean, tied to "
                    "delphin.eds._operations / delphin.scope / delphin.mrs / delphin.util by the correspondence run",
                    "harness/common/semgen.py converters (object <-> JSON)",
                    "mrs.is_well_formed (property C07) delimits the input space of the oracle's clauses"]

    # ---- pins: constants of the anchored code that the hand-written model mirrors
    def tables(self):
        """Read from the live objects on every run: module-level role / sort / relation constants, the variable
        regex, `_UNTENSED_VALUES`, default arguments, and the string / number / keyword-name constants of the code
        objects (nested code objects included) of every function the model mirrors.  Dropped: None/booleans,
        and every string containing white space (docstrings, warning and exception message texts)."""
        import types

        from delphin import util
        from delphin.eds import _operations as eops
        from delphin.mrs import _mrs
        from .common import tables as T
        lit = T.lean_strlit

        def consts(fn):
            out = []

            def walk(code):
                for c in code.co_consts:
                    if isinstance(c, types.CodeType):
                        walk(c)
                    elif isinstance(c, bool) or c is None:
                        continue
                    elif isinstance(c, str):
                        if not any(ch.isspace() for ch in c):
                            out.append(c)
                    elif isinstance(c, (int, float)):
                        out.append(str(c))
                    elif isinstance(c, frozenset):
                        out.append("{" + ",".join(sorted(map(str, c))) + "}")
                    elif isinstance(c, tuple):
                        out.append("(" + ",".join(map(str, c)) + ")")
                    else:
                        out.append(repr(c))
            walk(fn.__code__)
            return out

        def defaults(fn):
            return [repr(d) for d in (fn.__defaults__ or ())] + \
                   ["%s=%r" % kv for kv in sorted((fn.__kwdefaults__ or {}).items())]

        def slist(name, xs):
            return "def %s : List String := [%s]" % (name, ", ".join(lit(x) for x in xs))

        def sdef(name, x):
            return "def %s : String := %s" % (name, lit(x))
        fns = [
            ("c05FromMrs", eops.from_mrs), ("c05GetTop", eops._mrs_get_top),
            ("c05BasicDeps", eops._mrs_args_to_basic_deps), ("c05ToNodes", eops._mrs_to_nodes),
            ("c05FindPredicateModifiers", eops.find_predicate_modifiers),
            ("c05MakeIdsUnique", eops.make_ids_unique),
            ("c05EpInit", _mrs.EP.__init__), ("c05EpIsQuantifier", _mrs.EP.is_quantifier),
            ("c05UniquifyIds", _mrs._uniquify_ids), ("c05QuantificationPairs", _mrs.MRS.quantification_pairs),
            ("c05MrsArguments", _mrs.MRS.arguments), ("c05MrsProperties", _mrs.MRS.properties),
            ("c05MrsScopes", _mrs.MRS.scopes), ("c05MrsScopalArguments", _mrs.MRS.scopal_arguments),
            ("c05Representatives", scope.representatives),
            ("c05RepresentativePriority", scope._make_representative_priority),
            ("c05Descendants", scope._descendants), ("c05ScopeDescendants", scope.descendants),
            ("c05ConnectedComponents", util._connected_components), ("c05Bfs", util._bfs),
            ("c05VariableSplit", variable.split), ("c05VariableType", variable.type),
            ("c05NodeInit", eds.Node.__init__),
        ]
        lines = [
            sdef("c05BoundVariableRole", eds.BOUND_VARIABLE_ROLE),
            sdef("c05PredicateModifierRole", eds.PREDICATE_MODIFIER_ROLE),
            sdef("c05IntrinsicRole", _mrs.INTRINSIC_ROLE), sdef("c05RestrictionRole", _mrs.RESTRICTION_ROLE),
            sdef("c05BodyRole", _mrs.BODY_ROLE), sdef("c05ConstantRole", _mrs.CONSTANT_ROLE),
            sdef("c05QuantifierType", _mrs._QUANTIFIER_TYPE),
            sdef("c05Unspecific", variable.UNSPECIFIC),
            slist("c05VariableSorts", [variable.UNSPECIFIC, variable.INDIVIDUAL, variable.INSTANCE_OR_HANDLE,
                                       variable.EVENTUALITY, variable.INSTANCE, variable.HANDLE]),
            slist("c05VariableRe", [variable._variable_re.pattern, str(variable._variable_re.flags)]),
            slist("c05ScopeRelations", [scope.LEQ, scope.LHEQ, scope.OUTSCOPES, scope.QEQ]),
            slist("c05UntensedValues", sorted(scope._UNTENSED_VALUES)),
        ]
        for name, fn in fns:
            lines.append(slist(name + "Consts", consts(fn)))
            lines.append(slist(name + "Defaults", defaults(fn)))
        return lines

    # ---- generators
    def cases(self, rng, tier, n):
        small = list(semgen.enum_small_mrs(2))
        step = 5 if tier == "thorough" else 1499
        off = rng.randrange(step)
        for k, m in enumerate(small):
            if k % step == off and m["rels"]:
                yield self.mk_case("enum", m, rng)
        yield from self.random_cases(rng, n)

    def mk_case(self, src, m, rng):
        case = {"src": src, "m": m, "configs": gen_configs(rng, m)}
        # "convert – edit in place – convert again" on about half of the in-claim cases
        try:
            claim = bool(m["rels"]) and in_claim(semgen.mrs_from_json(m))
        except Exception:
            claim = False
        if claim and rng.random() < 0.55:
            ed = gen_edit(rng, m)
            if ed is not None:
                case["edit"] = ed
                case["configs"] = [c for c in case["configs"] if not isinstance(c["pm"], dict)]
        return case

    def random_cases(self, rng, n):
        for _ in range(n):
            r = rng.random()
            if r < 0.55:
                yield self.mk_case("wf", gen_wf(rng), rng)
            elif r < 0.67:
                yield self.mk_case("tree", semgen.gen_mrs_tree(rng, mutual=0.08), rng)
            elif r < 0.80:
                m = gen_wf(rng) if rng.random() < 0.7 else semgen.gen_mrs_tree(rng)
                for _ in range(rng.choice([1, 1, 2])):
                    m = semgen.mutate_mrs(rng, m)
                yield self.mk_case("mut", m, rng)
            else:
                yield self.mk_case("wild", semgen.gen_mrs_wild(rng, allow_missing_iv=rng.random() < 0.15), rng)

    def search_cases(self, rng, tier, n, seeds):
        for c in seeds[:20]:
            for _ in range(20):
                yield self.mk_case("mut", semgen.mutate_mrs(rng, c["m"]), rng)
        yield from self.random_cases(rng, n)

    # ---- implementation
    def impl(self, case):
        """ONE live MRS object goes through all configurations (a per-object cache is then seen);
        with an edit, the same object is edited in place and converted again under all of them"""
        m = semgen.mrs_from_json(case["m"])
        out = []
        for cfg in case["configs"]:
            e, err, ws, _ = run_live(m, cfg)
            out.append(obs_of(m, e, err, ws))
        if case.get("edit") is not None:
            apply_edit_obj(m, case["edit"])
            for cfg in case["configs"]:
                e, err, ws, _ = run_live(m, cfg)
                out.append(obs_of(m, e, err, ws))
        return out

    # ---- model
    def model_request(self, case):
        ids = [ep.id for ep in semgen.mrs_from_json(case["m"]).rels]
        cfgs = []
        for cfg in case["configs"]:
            pm = cfg["pm"]
            if pm in ("std", "wrap"):
                mp = "std"
            elif pm in ("off", "empty"):
                mp = "off"
            else:
                addl = []
                for s, role, t in pm["const"]:
                    for entry in addl:
                        if entry[0] == V(ids[s]):
                            entry[1] = [x for x in entry[1] if x[0] != role] + [[role, V(ids[t])]]
                            break
                    else:
                        addl.append([V(ids[s]), [[role, V(ids[t])]]])
                mp = {"custom": addl}
            cfgs.append({"pm": mp, "uniq": cfg["uniq"]})
        req = {"op": "from_mrs", "m": case["m"], "configs": cfgs}
        if case.get("edit") is not None:
            req["m2"] = apply_edit_json(case["m"], case["edit"])
        return req

    def model_compare(self, case, expected, answer):
        if not isinstance(answer, list) or len(answer) != len(expected):
            return {"expected_from_impl": expected, "model": answer}
        nc = len(case["configs"])
        claim = [None, None]          # in_claim of the content of phase 0 / 1, computed on demand

        def phase_claim(ph):
            if claim[ph] is None:
                mj = case["m"] if ph == 0 else apply_edit_json(case["m"], case["edit"])
                try:
                    claim[ph] = bool(in_claim(semgen.mrs_from_json(mj)))
                except Exception:
                    claim[ph] = False
            return claim[ph]
        for k, (e, a) in enumerate(zip(expected, answer)):
            where = {"config": case["configs"][k % nc], "phase": "after the in-place edit" if k >= nc else "first"}
            self.compared["configs"] = self.compared.get("configs", 0) + 1
            if isinstance(a, dict) and "unmodelled" in a:
                # the model declines (duplicate EP ids / Python set order observable): only possible
                # outside the claim; counted per reason, and a disagreement when the case is in the claim
                inc = phase_claim(k // nc)
                key = "unmodelled:%s:%s" % (a["unmodelled"], "in-claim" if inc else "outside-claim")
                self.compared[key] = self.compared.get(key, 0) + 1
                if inc:
                    return dict(where, note="the model answers 'unmodelled' on a case inside the claim", model=a)
                if "ok" in e and canon(a.get("ids")) != canon(e["ok"]["ids"]):
                    return dict(where, expected_ids=e["ok"]["ids"], model=a)
                continue
            key = "modelled:" + ("in-claim" if phase_claim(k // nc) else "outside-claim")
            self.compared[key] = self.compared.get(key, 0) + 1
            if canon(e) != canon(a):
                return dict(where, expected_from_impl=e, model=a)
        return None

    compared = {}

    def setup(self):
        self.compared = {}

    def extra_evidence(self):
        """how many (case, configuration, phase) answers of the model were compared in full and how many the
        model declined ('unmodelled'), per reason, split by whether the content is inside the claim"""
        return {"model_comparisons_by_config": dict(sorted(self.compared.items()))}

    # ---- direct oracle
    def oracle(self, case, res):
        fails = []
        m0 = semgen.mrs_from_json(case["m"])
        if not in_claim(m0):
            return fails

        def add(fs, cfg, phase):
            for f in fs:
                f["config"] = cfg
                if phase:
                    f["phase"] = phase
                fails.append(f)
        live = semgen.mrs_from_json(case["m"])
        snap = snapshot(live)
        first = []
        for cfg in case["configs"]:
            r1 = run_live(live, cfg)
            first.append(obs_of(live, r1[0], r1[1], r1[2]))
            add(self.oracle_config(live, cfg, r1), cfg, None)
            if snapshot(live) != snap:
                add([{"clause": "the conversion modifies the source MRS", "detail": None}], cfg, None)
                snap = snapshot(live)
        # purity: the same unedited object converted again gives the same results
        for cfg, o1 in zip(case["configs"], first):
            r1b = run_live(live, cfg)
            if canon(obs_of(live, r1b[0], r1b[1], r1b[2])) != canon(o1):
                add([{"clause": "converting the same unedited MRS twice gives different results", "detail": None}],
                    cfg, None)
        if snapshot(live) != snap:
            add([{"clause": "the conversion modifies the source MRS", "detail": None}], None, None)
        ed = case.get("edit")
        if ed is None:
            return fails
        # convert – edit in place – convert again
        m2j = apply_edit_json(case["m"], ed)
        apply_edit_obj(live, ed)
        if content(live) != content(semgen.mrs_from_json(m2j)):
            add([{"clause": "harness: the in-place edit and the edit of the JSON content disagree", "detail": ed}],
                None, "after the in-place edit")
            return fails
        snap2 = snapshot(live)
        for cfg in case["configs"]:
            r2 = run_live(live, cfg)
            # judged against the CURRENT content of the object ...
            add(self.oracle_config(live, cfg, r2), cfg, "after the in-place edit")
            # ... and equal to the conversion of a freshly built MRS with the same content
            fresh = semgen.mrs_from_json(m2j)
            rf = run_live(fresh, cfg)
            if canon(obs_of(live, r2[0], r2[1], r2[2])) != canon(obs_of(fresh, rf[0], rf[1], rf[2])):
                add([{"clause": "conversion after an in-place edit differs from the conversion of a fresh MRS "
                                "with the same content", "detail": ed}], cfg, "after the in-place edit")
        if snapshot(live) != snap2:
            add([{"clause": "the conversion modifies the source MRS", "detail": None}], None,
                "after the in-place edit")
        return fails

    def oracle_config(self, m, cfg, conv):
        """every clause of the property for ONE conversion `conv` = run_live(m, cfg) of the object m,
        judged against the content m has NOW"""
        fails = []

        def fail(clause, detail=None):
            fails.append({"clause": clause, "detail": detail})
        e, err, ws, calls = conv
        eps = list(m.rels)
        n = len(eps)
        # -- totality, no warning
        if err is not None:
            fail("conversion of a well-formed MRS raised", err)
            return fails
        if ws:
            fail("conversion of a well-formed MRS warned", ws)
        # -- user function protocol
        if cfg["pm"] not in ("std", "off"):
            if len(calls) != 1:
                fail("user-supplied predicate_modifiers function not called exactly once", len(calls))
            elif calls[0]["node_ids"] != calls[0]["ep_ids"]:
                fail("user-supplied predicate_modifiers function saw node ids that are not the EP ids", calls[0])
            elif cfg["pm"] == "wrap":
                want = {l: [p.id for p in ps] for l, ps in scope.representatives(m).items()}
                if calls[0]["reps"] != want:
                    fail("user-supplied predicate_modifiers function did not receive the scope representatives")
        elif calls:
            fail("harness: unexpected call record")
        # -- shape: one node per predication, in order, with its data
        nodes = list(e.nodes)
        if len(nodes) != n:
            fail("not one node per predication", [len(nodes), n])
            return fails
        for i, (ep, nd) in enumerate(zip(eps, nodes)):
            quant = "RSTR" in ep.args
            iv = ep.args.get("ARG0")
            want_type = None if quant else variable.type(iv)
            want_props = {} if quant else dict(m.variables.get(iv, {}))
            if nd.predicate != ep.predicate:
                fail("node does not carry the predicate of its predication", i)
            if nd.carg != ep.args.get("CARG"):
                fail("node does not carry the constant of its predication", i)
            if (nd.lnk is None) != (ep.lnk is None) or (nd.lnk is not None and nd.lnk != ep.lnk):
                fail("node does not carry the alignment of its predication", i)
            if nd.surface != ep.surface or nd.base != ep.base:
                fail("node does not carry the surface/base form of its predication", i)
            if nd.type != want_type:
                fail("node type is not the type of the intrinsic variable", [i, nd.type, want_type])
            if dict(nd.properties) != want_props:
                fail("node properties are not the properties of the intrinsic variable", i)
        # -- identifiers
        ids = [nd.id for nd in nodes]
        if any(not isinstance(i, str) for i in ids) or len(set(ids)) != len(ids):
            fail("node identifiers are not unique", ids)
            return fails
        pos = {nid: i for i, nid in enumerate(ids)}
        if e.top is None or e.top not in pos:
            fail("top is not a node", e.top)
        dangling = [(nd.id, r, t) for nd in nodes for r, t in nd.edges.items() if t not in pos]
        if dangling:
            fail("an edge does not end at a node", dangling)
            return fails
        # -- edge justification
        supplied = set()
        if isinstance(cfg["pm"], dict):
            supplied = {(s, r, t) for s, r, t in cfg["pm"]["const"]}
        hcs = [(hc.hi, hc.lo) for hc in m.hcons]

        def arg_justified(i, role, j):
            if role in ("ARG0", "CARG") or role not in eps[i].args:
                return False
            v = eps[i].args[role]
            if "RSTR" not in eps[j].args and eps[j].args.get("ARG0") == v:
                return True                                   # value is the target's intrinsic variable
            if v == eps[j].label:
                return True                                   # value is the label of the target's scope
            return any(hi == v and lo == eps[j].label for hi, lo in hcs)   # ... or a hole constrained to it

        def bv_justified(i, role, j):
            return (role == "BV" and "RSTR" in eps[i].args and "RSTR" not in eps[j].args
                    and eps[j].args.get("ARG0") is not None and eps[j].args.get("ARG0") == eps[i].args.get("ARG0"))
        basic, other = [], []
        for i, nd in enumerate(nodes):
            for role, t in nd.edges.items():
                j = pos[t]
                if (i, role, j) in supplied:
                    continue
                if bv_justified(i, role, j) or arg_justified(i, role, j):
                    basic.append((i, role, j))
                else:
                    other.append((i, role, j))
        comp = _components(n, [(i, j) for i, _, j in basic])
        for i, role, j in other:
            if role == "BV":
                fail("a BV edge does not go from a quantifier to the predication it quantifies", [i, j])
            elif cfg["pm"] not in ("std", "wrap"):
                fail("an edge is not justified by an argument of the source (predicate modifiers are off)",
                     [i, role, j])
            elif role != "ARG1" or i == j or eps[i].label != eps[j].label:
                fail("an edge is neither justified by an argument nor a predicate-modifier edge within one scope",
                     [i, role, j])
            elif comp[i] == comp[j]:
                fail("a predicate-modifier edge joins two predications that were already connected", [i, j])
        for i, ep in enumerate(eps):
            bvs = [(r, t) for r, t in nodes[i].edges.items() if r == "BV"]
            if "RSTR" in ep.args:
                tgt = [j for j, p in enumerate(eps) if "RSTR" not in p.args and p.args.get("ARG0") is not None
                       and p.args.get("ARG0") == ep.args.get("ARG0")]
                if tgt and [pos[t] for _, t in bvs] != tgt:
                    fail("a quantifier does not have exactly one BV edge to the predication it quantifies",
                         [i, tgt, bvs])
                if not tgt and bvs:
                    fail("a BV edge does not go from a quantifier to the predication it quantifies", [i, bvs])
            elif bvs:
                fail("a BV edge does not go from a quantifier to the predication it quantifies", [i, bvs])
        # -- the result survives C03 serialisation
        self.roundtrip(e, fail)
        return fails

    def roundtrip(self, e, fail):
        if not c03_expressible(e):
            return          # e.g. an empty property value: outside what C03 claims to serialise
        want = eds_view(e)
        # the native reader folds the case of property names/values (C03's business): the native
        # round trip is exact on the graph with folded properties
        ef = eds.EDS(e.top, [eds.Node(n.id, n.predicate, n.type, dict(n.edges),
                                      {k.upper(): v.lower() for k, v in n.properties.items()},
                                      n.carg, n.lnk, n.surface, n.base) for n in e.nodes])
        wantf = eds_view(ef)
        for indent in (True, False):
            try:
                s = edsnative.encode(ef, indent=indent)
                d = edsnative.decode(s)
                if eds_view(d) != wantf:
                    fail("native EDS round trip changes the converted graph", {"indent": indent})
                elif edsnative.encode(d, indent=indent) != s:
                    fail("native EDS re-encoding does not reproduce the text", {"indent": indent})
            except Exception as ex:
                fail("native EDS round trip of the converted graph raised", type(ex).__name__)
        try:
            d = edsjson.decode(edsjson.encode(e))
            got, w2 = eds_view(d), dict(want)
            if got["top"] != w2["top"] or sorted(map(canon, got["nodes"])) != sorted(map(canon, w2["nodes"])):
                fail("EDS-JSON round trip changes the converted graph")
        except Exception as ex:
            fail("EDS-JSON round trip of the converted graph raised", type(ex).__name__)
        if e.top is not None:
            ids = [nd.id for nd in e.nodes]
            pos = {nid: i for i, nid in enumerate(ids)}
            comp = _components(len(ids), [(pos[nd.id], pos[t]) for nd in e.nodes for t in nd.edges.values()])
            main = {nid for nid in ids if comp[pos[nid]] == comp[pos[e.top]]}
            try:
                import logging
                logging.getLogger("delphin.codecs.edspenman").setLevel(logging.ERROR)
                d = edspenman.decode(edspenman.encode(e))
                got = eds_view(d)
                wantp = {"top": want["top"], "nodes": [x for x in want["nodes"] if x[0] in main]}
                if got["top"] != wantp["top"] or sorted(map(canon, got["nodes"])) != sorted(map(canon, wantp["nodes"])):
                    fail("EDS-PENMAN round trip changes the part of the converted graph connected to the top")
            except Exception as ex:
                fail("EDS-PENMAN round trip of the converted graph raised", type(ex).__name__)

    # ---- known findings
    def classify(self, case, failure):
        if failure.get("clause") == "conversion of a well-formed MRS raised" and failure.get("detail") == "IndexError":
            # F08: by the definition (not by what the code returned) every member of some scope with at
            # least two members takes another member, or a scopal descendant of another member, as a
            # non-scopal argument -> no representative -> reps[lbl][0] raises
            mj = case["m"]
            if failure.get("phase") and case.get("edit") is not None:
                mj = apply_edit_json(mj, case["edit"])
            m = semgen.mrs_from_json(mj)
            if len({ep.id for ep in m.rels}) != len(m.rels):
                return None
            for _, row in scope_blocking(m).items():
                if len(row) >= 2 and all(b for _, b in row):
                    return "F08"
        return None

    # ---- evidence
    def nontrivial_key(self, case, res):
        if not case["m"]["rels"]:
            return None
        return canon(case)

    def stats(self, case, res, c):
        def inc(k, by=1):
            c[k] = c.get(k, 0) + by
        inc("src:" + case.get("src", "corpus"))
        inc("edit:" + (case["edit"]["op"] if case.get("edit") else "none"))
        mj = case["m"]
        m = semgen.mrs_from_json(mj)
        claim = in_claim(m)
        inc("in-claim=%s" % claim)
        inc("eps=%d" % min(len(mj["rels"]), 9))
        nq = sum(1 for ep in m.rels if ep.is_quantifier())
        inc("quantifiers=%d" % min(nq, 4))
        if any(ep.id.startswith("_") for ep in m.rels):
            inc("uniquified-ep-id")
        labels = [ep.label for ep in m.rels]
        if len(set(labels)) < len(labels):
            inc("shared-scope")
        bound = [ep.iv for ep in m.rels if ep.is_quantifier()]
        if len(set(bound)) != len(bound):
            inc("doubly-bound-variable")
        try:
            reps = scope.representatives(m)
            if any(len(v) > 1 for v in reps.values()):
                inc("scope-with-several-representatives")
            if any(len(v) == 0 for v in reps.values()):
                inc("scope-without-representative")
        except Exception:
            inc("representatives-raise")
        if res is None:
            inc("impl:none")
            return
        for cfg, r in zip(case["configs"], res):
            pm = cfg["pm"] if isinstance(cfg["pm"], str) else "const"
            inc("config:pm=%s,uniq=%s" % (pm, cfg["uniq"]))
            if "err" in r:
                inc("err:" + r["err"] + (":in-claim" if claim else ""))
                continue
            o = r["ok"]
            for w in o["warnings"]:
                inc("warning:" + w)
            if o["top"] is None:
                inc("top-none")
            if pm == "std":
                base = next((r2 for c2, r2 in zip(case["configs"], res)
                             if c2["pm"] == "off" and c2["uniq"] == cfg["uniq"]), None)
                if base is not None and "ok" in base:
                    extra = sum(len(a["edges"]) for a in o["nodes"]) - sum(len(a["edges"]) for a in base["ok"]["nodes"])
                    changed = sum(1 for a, b in zip(o["nodes"], base["ok"]["nodes"]) if a["edges"] != b["edges"])
                    if changed:
                        inc("predicate-modifier-edges:cases" + (":in-claim" if claim else ""))
                        inc("predicate-modifier-edges:nodes", changed)
                    if changed and extra < changed:
                        inc("predicate-modifier-overwrites-ARG1")
            if cfg["uniq"] and pm == "std":
                if any(nd["edges"] and nd["edges"][0][0] == "BV" for nd in o["nodes"]):
                    inc("has-BV-edge")

    def shrink(self, case, still_fails):
        cur = case
        changed = True
        while changed:
            changed = False
            cands = []
            m = cur["m"]
            for i in range(len(cur["configs"])):
                if len(cur["configs"]) > 1 and not isinstance(cur["configs"][i]["pm"], dict):
                    c = copy.deepcopy(cur)
                    del c["configs"][i]
                    cands.append(c)
            if cur.get("edit") is not None:
                c = copy.deepcopy(cur)
                del c["edit"]
                cands.append(c)
            locked = cur.get("edit") is not None      # an edit addresses EPs / roles / hcons by position
            if not locked and not any(isinstance(cfg["pm"], dict) for cfg in cur["configs"]):
                for i in range(len(m["rels"])):
                    c = copy.deepcopy(cur)
                    del c["m"]["rels"][i]
                    cands.append(c)
            for i in range(len(m["hcons"])):
                if locked:
                    break
                c = copy.deepcopy(cur)
                del c["m"]["hcons"][i]
                cands.append(c)
            for i, ep in enumerate(m["rels"]):
                for k in range(len(ep["args"])):
                    if ep["args"][k][0] != "ARG0" and not locked:
                        c = copy.deepcopy(cur)
                        del c["m"]["rels"][i]["args"][k]
                        cands.append(c)
                for key in ("carg", "lnk", "surface", "base"):
                    if ep.get(key) is not None:
                        c = copy.deepcopy(cur)
                        c["m"]["rels"][i][key] = None
                        cands.append(c)
            if m.get("vars"):
                c = copy.deepcopy(cur)
                c["m"]["vars"] = []
                cands.append(c)
            for c in cands:
                try:
                    if still_fails(c):
                        cur = c
                        changed = True
                        break
                except Exception:
                    continue
        return cur


CHECK = C05()
