"""C05 — MRS -> EDS conversion (eds.from_mrs): generators, implementation runner, direct oracle
(naive re-statement of every clause of the property on the real code), classifier."""
import copy
import warnings

from .common import paths, semgen
from .common.runner import Check, canon

paths.ensure_repo_on_path()
import logging  # noqa: E402
for _name in ("pe", "penman", "delphin.codecs.edspenman"):
    logging.getLogger(_name).setLevel(logging.ERROR)
from delphin import eds, mrs, scope, variable  # noqa: E402
from delphin.codecs import eds as edsnative  # noqa: E402
from delphin.codecs import edsjson, edspenman  # noqa: E402

V = semgen.var_to_json
VF = semgen.var_from_json

PREDS = ["_dog_n_1", "_bark_v_1", "_big_a_1", "neg", "named", "_and_c", "_very_x_deg", "_chase_v_1"]
QPREDS = ["_the_q", "_every_q", "udef_q"]
TENSES = ["past", "PRES", "untensed", "UNTENSED", "Untensed", "pres", "past", ""]


# ------------------------------------------------------------------ generators

def _small(rng, hi, lam=0.7):
    return min(hi, int(rng.expovariate(lam)))


def gen_wf(rng, max_eps=7, p_mutual=0.05, p_double_q=0.03):
    """Constructive generator of (mostly) well-formed MRSs that reaches the corners of
    eds.from_mrs: predications sharing a scope with and without arguments between them (several
    representatives -> predicate-modifier edges), ARG1 of a modifier absent / unbound (u, U) / bound /
    of another sort, qeq and direct-label scopal arguments, unexpressed arguments, quantifiers (also
    inside a shared scope, also with colliding ids q<n>), constants, alignments, properties,
    shuffled EP order and arbitrary variable numbering.  Variables are symbolic while building and
    numbered at the end."""
    n = rng.choice([1, 2, 2, 3, 3, 3, 4, 4, 5, 6, max_eps])
    eps = []         # dicts with symbolic variables ("h", k) / (sort, k)
    hcons = []
    counter = [0]

    def new(sort):
        counter[0] += 1
        return (sort, counter[0])
    top = new("h")
    ivs = []

    def nextrole(ep):
        k = 1
        roles = {r for r, _ in ep["args"]}
        while "ARG%d" % k in roles:
            k += 1
        return "ARG%d" % k

    def mk(label, iv):
        return {"pred": rng.choice(PREDS), "label": label, "args": [["ARG0", iv]], "carg": None,
                "lnk": None, "surface": None, "base": None}
    for i in range(n):
        sort = rng.choice(["x", "x", "e", "e", "e", "i", "u", "p"]) if i else rng.choice(["e", "e", "x"])
        iv = new(sort)
        ivs.append(iv)
        if i == 0:
            lbl = new("h")
            hcons.append([top, "qeq", lbl])
            eps.append(mk(lbl, iv))
            continue
        j = rng.randrange(i)
        r = rng.random()
        if r < 0.17:        # modifier taking the old EP as an argument
            me = mk(eps[j]["label"], iv)
            me["args"].append([rng.choice(["ARG1", "ARG1", "ARG2"]), ivs[j]])
        elif r < 0.42:      # same scope, no argument between them: predicate-modifier candidates
            me = mk(eps[j]["label"], iv)
            q = rng.random()
            if q < 0.35:
                pass                                        # no ARG1 at all
            elif q < 0.65:
                me["args"].append(["ARG1", new(rng.choice(["u", "u", "U"]))])   # unbound ARG1
            elif q < 0.8:
                me["args"].append(["ARG1", new(rng.choice(["i", "x", "p", "e"]))])  # unexpressed, other sort
            elif q < 0.9:
                me["args"].append(["ARG2", new("u")])
            else:
                k = rng.randrange(i)                        # ARG1 bound to some other predication
                me["args"].append(["ARG1", ivs[k]])
        elif r < 0.52:      # same scope, the old EP takes the new one
            me = mk(eps[j]["label"], iv)
            eps[j]["args"].append([nextrole(eps[j]), iv])
        elif r < 0.70:      # qeq-scopal argument
            me = mk(new("h"), iv)
            hole = new("h")
            hcons.append([hole, "qeq", me["label"]])
            eps[j]["args"].append([nextrole(eps[j]), hole])
        elif r < 0.78:      # direct label argument
            me = mk(new("h"), iv)
            eps[j]["args"].append([nextrole(eps[j]), me["label"]])
        elif r < 0.89:      # new scope, new EP takes the old one
            me = mk(new("h"), iv)
            me["args"].append(["ARG1", ivs[j]])
        else:               # new scope, old EP takes the new one
            me = mk(new("h"), iv)
            eps[j]["args"].append([nextrole(eps[j]), iv])
        eps.append(me)
    # extra arguments: cross references and unexpressed ones
    for _ in range(_small(rng, 3, 1.0)):
        a = rng.randrange(n)
        if rng.random() < 0.5 and n > 1:
            b = rng.choice([k for k in range(n) if k != a])
            if not any(v == ivs[b] for _, v in eps[a]["args"]):
                eps[a]["args"].append([nextrole(eps[a]), ivs[b]])
        else:
            eps[a]["args"].append([nextrole(eps[a]), new(rng.choice(["i", "u", "x", "p", "h"]))])
    if n >= 2 and rng.random() < p_mutual:
        a = rng.randrange(n)
        b = rng.choice([k for k in range(n) if k != a])
        eps[b]["label"] = eps[a]["label"]
        for s, t in ((a, b), (b, a)):
            if not any(v == ivs[t] for r_, v in eps[s]["args"] if r_ != "ARG0"):
                eps[s]["args"].append([nextrole(eps[s]), ivs[t]])
    # quantifiers
    quants = []
    for i in range(n):
        if ivs[i][0] in ("x", "i") and rng.random() < 0.55:
            times = 2 if rng.random() < p_double_q else 1
            for _ in range(times):
                r = rng.random()
                lbl = new("h") if r < 0.85 else rng.choice(eps)["label"]     # quantifier inside a shared scope
                q = {"pred": rng.choice(QPREDS), "label": lbl, "args": [["ARG0", ivs[i]]], "carg": None,
                     "lnk": None, "surface": None, "base": None}
                if rng.random() < 0.9:
                    hole = new("h")
                    hcons.append([hole, "qeq", eps[i]["label"]])
                    q["args"].append(["RSTR", hole])
                else:
                    q["args"].append(["RSTR", eps[i]["label"]])
                if rng.random() < 0.7:
                    q["args"].append(["BODY", new("h")])
                if rng.random() < 0.15:
                    q["args"].insert(0, q["args"].pop())     # another dict order
                quants.append(q)
    rels = eps + quants
    # decoration
    withlnk = rng.random() < 0.5
    pos = 0
    for ep in rels:
        if withlnk and rng.random() < 0.9:
            w = rng.randrange(0, 6)
            ep["lnk"] = [pos, pos + w]
            pos += rng.randrange(0, 4)
        if ep["pred"] == "named" or rng.random() < 0.08:
            ep["carg"] = rng.choice(["Kim", "Sandy", "3", "a b"])
        if rng.random() < 0.07:
            ep["surface"] = rng.choice(["dogs", ""])
        if rng.random() < 0.07:
            ep["base"] = "dog"
    if rng.random() < 0.5:
        rng.shuffle(rels)
    # numbering
    syms = []

    def see(v):
        if v not in syms:
            syms.append(v)
    see(top)
    for ep in rels:
        see(ep["label"])
        for _, v in ep["args"]:
            see(v)
    for hi, _, lo in hcons:
        see(hi)
        see(lo)
    mode = rng.random()
    if mode < 0.4:
        nums = list(range(len(syms)))                     # 0.. in order of appearance
    else:
        nums = rng.sample(range(0, len(syms) + 8), len(syms))
    number = {}
    for v, k in zip(syms, nums):
        number[v] = [v[0], k]
    if mode > 0.7:
        # same number for variables of different sorts (ids q<n> collide, e.g. x3 / i3)
        bysort = {}
        for v in syms:
            bysort.setdefault(v[0], []).append(v)
        dense = rng.random() < 0.5        # x0,x1,.. / i0,i1,.. : quantifier ids q<n> collide as often as possible
        for sort, vs in bysort.items():
            ks = list(range(len(vs))) if dense else rng.sample(range(0, len(vs) + 3), len(vs))
            for v, k in zip(vs, ks):
                number[v] = [v[0], k]

    def N(v):
        return list(number[v])
    out_rels = []
    for ep in rels:
        e = dict(ep)
        e["label"] = N(ep["label"])
        e["args"] = [[r, N(v)] for r, v in ep["args"]]
        out_rels.append(e)
    variables = []
    for iv in ivs:
        if iv[0] == "e" and rng.random() < 0.7:
            ps = [["TENSE", rng.choice(TENSES)]]
            if rng.random() < 0.4:
                ps.insert(rng.randrange(2), ["SF", "prop"])
            variables.append([N(iv), ps])
        elif iv[0] == "x" and rng.random() < 0.5:
            variables.append([N(iv), [["PERS", "3"], ["NUM", rng.choice(["sg", "pl"])]]])
    r = rng.random()
    index = N(ivs[0]) if r < 0.8 else (N(rng.choice(ivs)) if r < 0.95 else None)
    return {"top": N(top), "index": index, "rels": out_rels,
            "hcons": [[N(a), r_, N(b)] for a, r_, b in hcons], "icons": [], "vars": variables}


def _jep(pred, label, args):
    return {"pred": pred, "label": label, "args": args, "carg": None, "lnk": None, "surface": None, "base": None}


# "nearly every dog barks" (Verif.C05.nearlyEvery): _nearly_x_deg shares the scope of _every_q, two
# representatives; the predicate-modifier edge depends on the representative priority
NEARLY_EVERY = {"top": ["h", 0], "index": ["e", 2], "icons": [], "vars": [[["e", 2], [["TENSE", "pres"]]]],
                "rels": [_jep("_nearly_x_deg", ["h", 4], [["ARG0", ["e", 9]], ["ARG1", ["u", 10]]]),
                         _jep("_every_q", ["h", 4], [["ARG0", ["x", 3]], ["RSTR", ["h", 5]], ["BODY", ["h", 6]]]),
                         _jep("_dog_n_1", ["h", 7], [["ARG0", ["x", 3]]]),
                         _jep("_bark_v_1", ["h", 1], [["ARG0", ["e", 2]], ["ARG1", ["x", 3]]])],
                "hcons": [[["h", 0], "qeq", ["h", 1]], [["h", 5], "qeq", ["h", 7]]]}
DOG_BARKS = {"top": ["h", 0], "index": ["e", 2], "icons": [], "vars": [],
             "rels": [_jep("_the_q", ["h", 4], [["ARG0", ["x", 3]], ["RSTR", ["h", 5]], ["BODY", ["h", 6]]]),
                      _jep("_dog_n_1", ["h", 7], [["ARG0", ["x", 3]]]),
                      _jep("_bark_v_1", ["h", 1], [["ARG0", ["e", 2]], ["ARG1", ["x", 3]]])],
             "hcons": [[["h", 0], "qeq", ["h", 1]], [["h", 5], "qeq", ["h", 7]]]}

# two quantifiers of variables no predication has as its ARG0 (no BV edge, no entry in the dependency map):
# one shares the scope of _every_q and gets a predicate-modifier edge, the other must stay without edges
TWO_DANGLING = {"top": ["h", 0], "index": ["e", 2], "icons": [[["e", 2], "topic", ["x", 3]]], "vars": [],
                "rels": [_jep("_every_q", ["h", 4], [["ARG0", ["x", 3]], ["RSTR", ["h", 5]], ["BODY", ["h", 6]]]),
                         _jep("udef_q", ["h", 4], [["ARG0", ["x", 8]], ["RSTR", ["h", 10]]]),
                         _jep("udef_q", ["h", 12], [["ARG0", ["x", 9]], ["RSTR", ["h", 11]]]),
                         _jep("_dog_n_1", ["h", 7], [["ARG0", ["x", 3]]]),
                         _jep("_bark_v_1", ["h", 1], [["ARG0", ["e", 2]], ["ARG1", ["x", 3]]])],
                "hcons": [[["h", 0], "qeq", ["h", 1]], [["h", 5], "qeq", ["h", 7]], [["h", 10], "qeq", ["h", 7]],
                          [["h", 11], "qeq", ["h", 1]]]}

CONFIGS4 = [{"pm": "std", "uniq": True}, {"pm": "std", "uniq": False},
            {"pm": "off", "uniq": True}, {"pm": "off", "uniq": False}]

PRIOS = ["default", "reverse", "const", "predlen"]
# every value the predicate_modifiers argument is given: True / False / None (falsy) / the public
# find_predicate_modifiers itself / a wrapper of it / functions of the arguments from_mrs hands over
PM_VALUES = ["std", "off", "none", "fn:std", "wrap", "empty", "fn:isolated", "fn:reps", "fn:raise"]
PATHS = ["direct", "staged", "findpm"]


def full_configs():
    """the whole cross product predicate_modifiers x unique_ids x representative_priority, plus the staged
    and stand-alone uses of the public functions under every priority; the priority varies fastest, so that on
    the ONE live object of a case consecutive calls differ in it (what an earlier call — also one that ended in
    an exception of the callable — leaves behind is then seen by the next)"""
    out = []
    for pm in PM_VALUES:
        for uniq in (True, False):
            for prio in PRIOS:
                out.append({"pm": pm, "uniq": uniq, "prio": prio})
    for uniq in (True, False):
        for prio in PRIOS:
            out.append({"pm": "std", "uniq": uniq, "prio": prio, "path": "staged"})
    for prio in PRIOS:
        out.append({"pm": "std", "uniq": False, "prio": prio, "path": "findpm"})
    return out


def map_vars(m, f):
    """the MRS with f applied to every variable [sort, id] (consistently)"""
    m = copy.deepcopy(m)

    def g(v):
        return None if v is None else f(v)
    m["top"], m["index"] = g(m["top"]), g(m["index"])
    for ep in m["rels"]:
        ep["label"] = g(ep["label"])
        ep["args"] = [[r, g(v)] for r, v in ep["args"]]
    m["hcons"] = [[g(a), r, g(b)] for a, r, b in m["hcons"]]
    m["icons"] = [[g(a), r, g(b)] for a, r, b in m.get("icons", [])]
    m["vars"] = [[g(v), ps] for v, ps in m.get("vars", [])]
    return m


def split_ids(rng, m):
    """non-contiguous ids that collide under 8/16/32/64-bit packings: every variable independently keeps its
    id or gets it increased by 2^k (injective, since the small ids are below 2^8)"""
    k = rng.choice([8, 16, 31, 32, 63, 64])
    moved = {}

    def f(v):
        key = (v[0], v[1])
        if key not in moved:
            moved[key] = rng.random() < 0.5
        return [v[0], v[1] + (2 ** k if moved[key] else 0)]
    return map_vars(m, f)


def gen_configs(rng, m):
    cfgs = copy.deepcopy(CONFIGS4)
    n = len(m["rels"])
    r = rng.random()
    if r < 0.2:
        cfgs.append({"pm": "wrap", "uniq": rng.random() < 0.5})
    elif r < 0.3:
        cfgs.append({"pm": rng.choice(["empty", "none"]), "uniq": rng.random() < 0.5})
    elif r < 0.45 and n >= 2:
        a, b = rng.sample(range(n), 2)
        cfgs.append({"pm": {"const": [[a, rng.choice(["MOD", "ARG1", "ARG7"]), b]]}, "uniq": rng.random() < 0.5})
    elif r < 0.75:
        cfgs.append({"pm": rng.choice(["fn:std", "fn:isolated", "fn:reps", "fn:reps", "fn:raise"]),
                     "uniq": rng.random() < 0.5})
    # a user-supplied representative_priority (any predicate_modifiers value)
    if rng.random() < 0.5:
        cfgs.append({"pm": rng.choice(["std", "std", "off", "fn:reps", "wrap", "fn:std"]), "uniq": rng.random() < 0.5,
                     "prio": rng.choice(PRIOS[1:])})
    # the public functions used one after the other / find_predicate_modifiers on its own
    r = rng.random()
    if r < 0.3:
        cfgs.append({"pm": "std", "uniq": rng.random() < 0.5, "path": "staged",
                     "prio": "default" if rng.random() < 0.7 else rng.choice(PRIOS[1:])})
    elif r < 0.5:
        cfgs.append({"pm": "std", "uniq": False, "path": "findpm",
                     "prio": "default" if rng.random() < 0.7 else rng.choice(PRIOS[1:])})
    # make_ids_unique on its own, on a graph edited after the conversion (extra edges, another top)
    if rng.random() < 0.3 and n >= 1:
        extra = [[rng.randrange(n), rng.choice(["MOD", "ARG1", "BV", "X-EXTRA"]), rng.randrange(n)]
                 for _ in range(rng.choice([0, 1, 1, 2, 3]))]
        cfgs.append({"pm": rng.choice(["std", "off"]), "uniq": True, "path": "mkuniq", "extra": extra,
                     "top": rng.choice(["keep", "keep", None, rng.randrange(n)]),
                     "prio": rng.choice(["default", "default", "const"])})
    if rng.random() < 0.25:
        rng.shuffle(cfgs)         # e.g. a raising callable BEFORE the ordinary calls on the same object
    return cfgs


def gen_doc(rng):
    """structure-level lnk / surface / identifier of the source MRS"""
    if rng.random() < 0.6:
        return None
    return {"lnk": rng.choice([None, [0, 14], [3, 3], [0, 2 ** 31]]),
            "surface": rng.choice([None, "The dog barks.", ""]),
            "identifier": rng.choice([None, "1", "item-7", ""])}


def pm_kind(cfg):
    """std: predicate-modifier edges may appear; off: none; user: the edges the callable returned; raise"""
    if cfg.get("path") in ("staged", "findpm"):
        return "std"
    if cfg.get("path") == "mkuniq":
        return "mkuniq"
    pm = cfg["pm"]
    if pm in ("std", "wrap", "fn:std"):
        return "std"
    if pm in ("off", "empty", "none"):
        return "off"
    if pm == "fn:raise":
        return "raise"
    return "user"


# ------------------------------------------------------------------ running the real code

def _lnk(x):
    return semgen._lnk_to_json(x)


def node_obs(n):
    return {"id": V(n.id), "pred": n.predicate, "type": n.type,
            "edges": [[r, V(t)] for r, t in n.edges.items()],
            "props": [[k, v] for k, v in n.properties.items()],
            "carg": n.carg, "lnk": _lnk(n.lnk), "surface": n.surface, "base": n.base}


WARN_KINDS = (("broken handle constraint", "broken_hcons"), ("unable to find a suitable TOP", "no_top"))


def warn_kind(w):
    s = str(w.message)
    for prefix, kind in WARN_KINDS:
        if s.startswith(prefix):
            return kind
    return "other:" + type(w.message).__name__


class UserRaise(KeyError):
    pass


def _record(calls, e, m, representatives, returned=None):
    calls.append({"node_ids": [n.id for n in e.nodes], "ep_ids": [ep.id for ep in m.rels],
                  "top": e.top, "edges": [[n.id, r, t] for n in e.nodes for r, t in n.edges.items()],
                  "reps": None if representatives is None else
                  {l: [p.id for p in ps] for l, ps in representatives.items()},
                  "returned": None if returned is None else
                  [[s, r, t] for s, d in returned.items() for r, t in d.items()]})


def make_pm(cfg_pm, calls):
    """the value passed as predicate_modifiers; `calls` records how a callable was called"""
    if cfg_pm == "std":
        return True
    if cfg_pm == "off":
        return False
    if cfg_pm == "none":
        return None
    if cfg_pm == "fn:std":
        return eds.find_predicate_modifiers
    if cfg_pm == "wrap":
        def wrap(e, m, representatives=None):
            _record(calls, e, m, representatives)
            return eds.find_predicate_modifiers(e, m, representatives=representatives)
        return wrap
    if cfg_pm == "empty":
        def empty(e, m, representatives=None):
            _record(calls, e, m, representatives)
            return {}
        return empty
    if cfg_pm == "fn:isolated":
        # twin of Verif.C05.ufIsolated: depends on the EDS it is handed
        def isolated(e, m, representatives=None):
            out = {}
            if e.top is not None:
                for n in e.nodes:
                    if not n.edges and n.id != e.top:
                        out.setdefault(n.id, {})["MOD"] = e.top
            _record(calls, e, m, representatives, out)
            return out
        return isolated
    if cfg_pm == "fn:reps":
        # twin of Verif.C05.ufReps: depends on the representatives it is handed (and their order)
        def repsfn(e, m, representatives=None):
            out = {}
            for _lbl, ps in representatives.items():
                if len(ps) >= 2:
                    out.setdefault(ps[-1].id, {})["R-REP"] = ps[0].id
            _record(calls, e, m, representatives, out)
            return out
        return repsfn
    if cfg_pm == "fn:raise":
        def raising(e, m, representatives=None):
            _record(calls, e, m, representatives)
            raise UserRaise("user function")
        return raising
    spec = cfg_pm["const"]

    def const(e, m, representatives=None):
        out = {}
        for s, role, t in spec:
            out.setdefault(m.rels[s].id, {})[role] = m.rels[t].id
        _record(calls, e, m, representatives, out)
        return out
    return const


def make_prio(name, m):
    """the value passed as representative_priority (twins of keyReverse / keyConst / keyPredLen)"""
    if name in (None, "default"):
        return None
    n = len(m.rels)
    index = {ep.id: i for i, ep in enumerate(m.rels, 1)}
    if name == "reverse":
        return lambda p: (0, n - index[p.id])
    if name == "const":
        return lambda p: (0, 0)
    if name == "predlen":
        return lambda p: (len(p.predicate), n - index[p.id])
    raise ValueError(name)


def mk_mrs(mj, doc=None):
    m = semgen.mrs_from_json(mj)
    if doc is not None:
        if doc.get("lnk") is not None:
            m.lnk = semgen._lnk_from_json(doc["lnk"])
        m.surface = doc.get("surface")
        m.identifier = doc.get("identifier")
    return m


ERRS = (IndexError, KeyError, ValueError, TypeError, AttributeError, eds.EDSError)


def run_live(m, cfg):
    """run the configuration on the LIVE object m (no fresh copy): (result or None, error name, warning
    kinds, calls).  The result is an EDS (paths direct / staged) or, for the path findpm, the pair of
    mappings find_predicate_modifiers returns without and with the representatives passed in."""
    calls = []
    path = cfg.get("path", "direct")
    prio = make_prio(cfg.get("prio"), m)
    with warnings.catch_warnings(record=True) as ws:
        warnings.simplefilter("always")
        try:
            if path == "direct":
                if prio is None and cfg.get("prio") is None:
                    # the default is NOT passed: the call most users make
                    e = eds.from_mrs(m, predicate_modifiers=make_pm(cfg["pm"], calls), unique_ids=cfg["uniq"])
                else:
                    e = eds.from_mrs(m, predicate_modifiers=make_pm(cfg["pm"], calls), unique_ids=cfg["uniq"],
                                     representative_priority=prio)
            elif path == "staged":
                e = eds.from_mrs(m, predicate_modifiers=False, unique_ids=False, representative_priority=prio)
                addl = eds.find_predicate_modifiers(e, m)
                for id_, deps in addl.items():
                    e[id_].edges.update(deps)
                if cfg["uniq"]:
                    eds.make_ids_unique(e, m)
            elif path == "mkuniq":
                # make_ids_unique on its own, on a graph edited after the conversion
                e = eds.from_mrs(m, predicate_modifiers=make_pm(cfg["pm"], calls), unique_ids=False,
                                 representative_priority=prio)
                for s_, role, t in cfg["extra"]:
                    e.nodes[s_].edges[role] = e.nodes[t].id
                if cfg.get("top", "keep") != "keep":
                    e.top = None if cfg["top"] is None else e.nodes[cfg["top"]].id
                calls.append({"before": {"top": e.top, "nodes": [[n.id, list(n.edges.items())] for n in e.nodes]}})
                eds.make_ids_unique(e, m)
            elif path == "findpm":
                e0 = eds.from_mrs(m, predicate_modifiers=False, unique_ids=False, representative_priority=prio)
                a1 = eds.find_predicate_modifiers(e0, m)
                a2 = eds.find_predicate_modifiers(e0, m, representatives=scope.representatives(m, priority=prio))
                e = (a1, a2)
            else:
                raise ValueError(path)
            err = None
        except ERRS as ex:
            e, err = None, ("KeyError" if isinstance(ex, UserRaise) else type(ex).__name__)
    return e, err, [warn_kind(w) for w in ws], calls


def convert(mj, cfg):
    """(EDS or None, error name or None, warning kinds, calls, MRS object)"""
    m = semgen.mrs_from_json(mj)
    return run_live(m, cfg) + (m,)


def addl_obs(a):
    return [[V(s), [[r, V(t)] for r, t in d.items()]] for s, d in a.items()]


def obs_of(m, e, err, ws):
    if err is not None:
        return {"err": err}
    if isinstance(e, tuple):
        return {"ok": {"ids": [V(ep.id) for ep in m.rels], "addl": addl_obs(e[0]), "addl_reps": addl_obs(e[1])}}
    return {"ok": {"ids": [V(ep.id) for ep in m.rels], "top": V(e.top),
                   "nodes": [node_obs(n) for n in e.nodes], "warnings": ws,
                   "doc": {"lnk": _lnk(e.lnk), "surface": e.surface, "identifier": e.identifier}}}


def snapshot(m):
    """deep, order-preserving picture of everything an MRS object holds"""
    return canon({
        "top": m.top, "index": m.index, "lnk": str(m.lnk), "surface": m.surface, "identifier": m.identifier,
        "rels": [[ep.id, ep.predicate, ep.type, ep.label, [[r, v] for r, v in ep.args.items()],
                  str(ep.lnk), ep.surface, ep.base] for ep in m.rels],
        "hcons": [[hc.hi, hc.relation, hc.lo] for hc in m.hcons],
        "icons": [[ic.left, ic.relation, ic.right] for ic in m.icons],
        "variables": [[v, [[k, x] for k, x in ps.items()]] for v, ps in m.variables.items()],
        "index_keys": sorted(m._pidx) if hasattr(m, "_pidx") else None})


# ---- in-place edits ("convert – edit in place – convert again")
# Every edit has a pure version on the JSON content and an in-place version on the live object;
# ARG0 and RSTR are never touched, so EP ids stay what MRS.__init__ made them.  Appending an EP in
# place is NOT among them: the structure's id index (_pidx) and variable map are only built by the
# constructor, so the real code cannot even test such an object for well-formedness (KeyError).

def apply_edit_json(mj, ed):
    m = copy.deepcopy(mj)
    op = ed["op"]
    if op == "swap_args":
        args = m["rels"][ed["ep"]]["args"]
        i1 = next(k for k, a in enumerate(args) if a[0] == ed["r1"])
        i2 = next(k for k, a in enumerate(args) if a[0] == ed["r2"])
        args[i1][1], args[i2][1] = args[i2][1], args[i1][1]
    elif op == "retarget":
        for a in m["rels"][ed["ep"]]["args"]:
            if a[0] == ed["role"]:
                a[1] = list(ed["to"])
    elif op == "set_pred":
        m["rels"][ed["ep"]]["pred"] = ed["pred"]
    elif op == "set_carg":
        m["rels"][ed["ep"]]["carg"] = ed["carg"]
    elif op == "set_prop":
        for entry in m["vars"]:
            if entry[0] == ed["var"]:
                for kv in entry[1]:
                    if kv[0] == ed["key"]:
                        kv[1] = ed["val"]
                        break
                else:
                    entry[1].append([ed["key"], ed["val"]])
                break
        else:
            m["vars"].append([list(ed["var"]), [[ed["key"], ed["val"]]]])
    elif op == "hcons":
        m["hcons"][ed["idx"]][2] = list(ed["lo"])
    elif op == "del_ep":
        del m["rels"][ed["ep"]]
    else:
        raise ValueError(op)
    return m


def apply_edit_obj(m, ed):
    op = ed["op"]
    if op == "swap_args":
        args = m.rels[ed["ep"]].args
        args[ed["r1"]], args[ed["r2"]] = args[ed["r2"]], args[ed["r1"]]
    elif op == "retarget":
        m.rels[ed["ep"]].args[ed["role"]] = VF(ed["to"])
    elif op == "set_pred":
        m.rels[ed["ep"]].predicate = ed["pred"]
    elif op == "set_carg":
        if ed["carg"] is None:
            m.rels[ed["ep"]].args.pop("CARG", None)
        else:
            m.rels[ed["ep"]].args["CARG"] = ed["carg"]
    elif op == "set_prop":
        m.variables[VF(ed["var"])][ed["key"]] = ed["val"]
    elif op == "hcons":
        hcs = list(m.hcons)
        old = hcs[ed["idx"]]
        hcs[ed["idx"]] = mrs.HCons(old.hi, old.relation, VF(ed["lo"]))
        m.hcons = hcs
    elif op == "del_ep":
        del m.rels[ed["ep"]]
    else:
        raise ValueError(op)


def content(m):
    """what the conversion may depend on, for comparing a live edited object with a fresh one"""
    return canon({
        "top": m.top, "index": m.index,
        "rels": [[ep.id, ep.predicate, ep.label, [[r, v] for r, v in ep.args.items() if r != "CARG"],
                  ep.args.get("CARG"), str(ep.lnk), ep.surface, ep.base] for ep in m.rels],
        "hcons": [[hc.hi, hc.relation, hc.lo] for hc in m.hcons],
        "ivprops": [[ep.iv, [[k, x] for k, x in m.variables.get(ep.iv, {}).items()]] for ep in m.rels]})


def gen_edit(rng, mj):
    """an in-place edit after which the content is a DIFFERENT MRS that is still in the claim and
    whose EP ids are those a fresh object would get; None if none of the tried candidates qualifies"""
    rels = mj["rels"]
    n = len(rels)
    labels = [ep["label"] for ep in rels]
    ivs = [v for ep in rels for r, v in ep["args"] if r == "ARG0"]
    base_ids = [ep.id for ep in semgen.mrs_from_json(mj).rels]
    for _ in range(12):
        r = rng.random()
        i = rng.randrange(n)
        free = [a[0] for a in rels[i]["args"] if a[0] not in ("ARG0", "RSTR")]
        if r < 0.30:
            if len(free) < 2:
                continue
            r1, r2 = rng.sample(free, 2)
            ed = {"op": "swap_args", "ep": i, "r1": r1, "r2": r2}
        elif r < 0.55:
            if not free or not ivs:
                continue
            ed = {"op": "retarget", "ep": i, "role": rng.choice(free), "to": rng.choice(ivs)}
        elif r < 0.63:
            ed = {"op": "set_pred", "ep": i, "pred": rng.choice(PREDS + ["_edited_v_1"])}
        elif r < 0.70:
            ed = {"op": "set_carg", "ep": i, "carg": rng.choice([None, "Edited", "Kim"])}
        elif r < 0.80:
            if not ivs:
                continue
            v = rng.choice(ivs)
            ed = {"op": "set_prop", "var": v, "key": rng.choice(["TENSE", "TENSE", "PERS"]),
                  "val": rng.choice(["past", "untensed", "pres", "2"])}
        elif r < 0.90:
            if not mj["hcons"]:
                continue
            ed = {"op": "hcons", "idx": rng.randrange(len(mj["hcons"])), "lo": rng.choice(labels)}
        else:
            if n < 2:
                continue
            ed = {"op": "del_ep", "ep": i}
        try:
            m2j = apply_edit_json(mj, ed)
            if canon(m2j) == canon(mj):
                continue
            m2 = semgen.mrs_from_json(m2j)
            if not in_claim(m2):
                continue
            want_ids = list(base_ids)
            if ed["op"] == "del_ep":
                del want_ids[ed["ep"]]
            if [ep.id for ep in m2.rels] != want_ids:
                continue
        except Exception:
            continue
        return ed
    return None


def in_claim(m):
    """the property's input space: is_well_formed (connected, scope-plausible, IV property) and — the
    reading fixed with the coordinator — no variable bound by two quantifiers"""
    if not mrs.is_well_formed(m):
        return False
    # variables of the sort '_' (e.g. ARG0 '_1') are the identifier space make_ids_unique /
    # _uniquify_ids reserve for themselves: outside the input space (coordinator's decision)
    for v in m.variables:
        if variable.type(v) == "_":
            return False
    bound = [ep.iv for ep in m.rels if ep.is_quantifier()]
    return len(set(bound)) == len(bound)


# ------------------------------------------------------------------ naive helpers (oracle side)

def _out_args(ep):
    return [(r, v) for r, v in ep.args.items() if r not in ("ARG0", "CARG")]


def _components(n, pairs):
    """component label per position (label propagation to a fixpoint; deliberately naive)"""
    comp = list(range(n))
    changed = True
    while changed:
        changed = False
        for a, b in pairs:
            lo = min(comp[a], comp[b])
            if comp[a] != lo:
                comp[a] = lo
                changed = True
            if comp[b] != lo:
                comp[b] = lo
                changed = True
    return comp


def scope_blocking(m):
    """label -> list of (position, blocked?) by the DEFINITION of a representative: blocked when the
    predication takes another member of its scope, or a scopal descendant of another member, as a
    non-scopal argument."""
    eps = list(m.rels)
    members = {}
    for i, ep in enumerate(eps):
        members.setdefault(ep.label, []).append(i)
    last = {}
    for hc in m.hcons:
        last[hc.hi] = hc.lo
    succ = {}
    for i, ep in enumerate(eps):
        out = []
        for _, v in _out_args(ep):
            if v in members:
                out.extend(members[v])
            elif v in last:
                out.extend(members.get(last[v], []))
        succ[i] = out

    def reach(i):
        seen, todo = [], list(succ[i])
        while todo:
            x = todo.pop()
            if x not in seen:
                seen.append(x)
                todo.extend(succ[x])
        return seen
    res = {}
    for l, mem in members.items():
        row = []
        for i in mem:
            args = {v for _, v in _out_args(eps[i]) if variable.type(v) in "xeipu"}
            b = False
            for j in mem:
                if j != i and (eps[j].id in args or any(eps[k].id in args for k in reach(j))):
                    b = True
            row.append((i, b))
        res[l] = row
    return res


def eds_view(e, fold_case=False):
    """what C03 says a serialisation keeps: top, ids, predicates, types, properties, constants,
    alignments, role-labelled edges (per node, in node order)"""
    nodes = []
    for n in e.nodes:
        props = dict(n.properties)
        if fold_case:
            props = {k.upper(): v.lower() for k, v in props.items()}
        nodes.append([n.id, n.predicate, n.type, sorted(props.items()), n.carg, [n.cfrom, n.cto],
                      sorted(n.edges.items())])
    return {"top": e.top, "nodes": nodes}


_SYMBOL_BAD = set(' \n\t:,<([]{}"\\')


def c03_expressible(e):
    """node ids, predicates, types, property names/values are non-empty symbols of the native
    syntax; constants contain no quote/backslash (what the C03 generators promise)"""
    def sym(x):
        return isinstance(x, str) and x != "" and not (set(x) & _SYMBOL_BAD)
    for n in e.nodes:
        if not sym(n.id) or not sym(n.predicate) or (n.type is not None and not sym(n.type)):
            return False
        if any(not sym(k) or not sym(v) for k, v in n.properties.items()):
            return False
        if n.carg is not None and (set(n.carg) & set('"\\')):
            return False
        if any(not sym(r) for r in n.edges):
            return False
    return True


# ------------------------------------------------------------------ the check

class C05(Check):
    pid = "C05"
    props_modules = ["Verif.C05.Props", "Verif.C05.PropsApi", "Verif.C05.PropsKey"]
    quick_cases = 900
    thorough_cases = 9000
    rule = ("Each case is one MRS (optionally with structure-level lnk / surface / identifier, 40%) put through a list of "
            "configurations on ONE live object. A configuration = predicate_modifiers value (True / False / None / "
            "eds.find_predicate_modifiers itself / a recording wrapper of it / callables returning {} , a fixed extra "
            "edge, a MOD edge from every edge-less node of the EDS they are handed to its top, an R-REP edge from the "
            "last to the first of the representatives they are handed, or raising) x unique_ids x "
            "representative_priority (not passed / None / prefer-last / all-equal / by predicate length) x call path "
            "(from_mrs / the staged use from_mrs(False, False) + find_predicate_modifiers(e, m) + e[id].edges.update + "
            "make_ids_unique / find_predicate_modifiers on its own, with and without representatives / make_ids_unique on its own on a graph "
            "edited after from_mrs(…, unique_ids=False): extra edges between nodes, top kept, removed or moved; 30%). Every case has "
            "the four plain configurations predicate_modifiers in {True, False} x unique_ids in {True, False}; about "
            "75% one more predicate_modifiers value, 50% one configuration with a user priority, 50% one staged or "
            "stand-alone call; 25% have their configurations shuffled. First, identical in every run: a BATTERY of 9 "
            "fixed in-claim MRSs ('nearly every dog barks', 'the dog barks', four from gen_wf with a fixed seed having a "
            "scope with several representatives, ids shifted by 2^63, ids colliding modulo 2^32, two quantifiers of "
            "unexpressed variables) under the WHOLE cross product (93 configurations per MRS, the priority varying "
            "fastest). MRS streams: (a) 55% constructive "
            "well-formed builder gen_wf: 1-7 predications in a scope tree, modifiers sharing a label with and without "
            "an argument between them (several representatives), ARG1 of such a modifier absent / unbound u,U / "
            "unexpressed of another sort / bound elsewhere, qeq and direct-label scopal arguments, unexpressed "
            "arguments, quantifiers for x/i variables (hole or label RSTR, with/without BODY, 15% inside a shared "
            "scope), colliding ids q<n>, constants, alignments (also zero-width), surface/base (also ''), "
            "TENSE/SF/PERS/NUM properties, shuffled EP order, three numbering schemes, 5% all ids shifted by "
            "2^31-3 / 2^32-2 / 2^63-1 / 10^20, 6% every variable independently moved by 2^k (k in 8,16,31,32,63,64), "
            "12% with individual constraints; 5% mutual-argument scopes (F08), 3% doubly bound variables (outside "
            "the claim); (b) 12% semgen.gen_mrs_tree; (c) 13% one or two mutations of (a)/(b); (d) 15% wild MRSs "
            "(semgen.gen_mrs_wild: shared IVs, missing ARG0, dangling/cyclic/duplicate hcons, self-scoping); (e) a "
            "slice of the enumeration of all MRSs with <= 2 EPs (semgen.enum_small_mrs). About half of the in-claim cases additionally carry one IN-PLACE EDIT of the live "
            "object (swap two argument values of an EP / retarget an argument to another EP's ARG0 / change a "
            "predicate, CARG or variable property / replace m.hcons by a list with one lo retargeted / delete an EP "
            "from m.rels), chosen so that the edited content is a different MRS still in the claim with the same EP "
            "ids: ONE object is converted under all configurations, converted again (purity), edited in place and "
            "converted under all configurations again. The oracle's clauses apply "
            "to the MRSs in the claim (is_well_formed and no doubly bound variable); the rest is compared with the "
            "model only (errors and warnings included). Non-trivial = at least one predication; distinct by JSON text.")
    assumptions = [
        "input space of the claim = mrs.is_well_formed(m) (connected, scope-plausible, intrinsic-variable property) AND no "
        "variable bound by two quantifiers (reading fixed with the coordinator: the clause 'a quantifier has exactly one "
        "bound-variable edge' presupposes at most one quantifier per variable; is_well_formed does not test it)",
        "variable strings are (sort, canonical decimal id); sorts are ASCII; variables of the sort '_' (e.g. ARG0 '_1', the "
        "identifier space make_ids_unique reserves for itself) are OUTSIDE the input space (coordinator's decision; on "
        "such input the real code can give duplicate node ids, see corpus/C05/known.json) and the generated "
        "well-formed stream has no ARG0 of sort 'q' either (the theorems carry both as the hypothesis NoReserved)",
        "EP ids pairwise distinct (true unless an ARG0 has the sort '_'): otherwise the driver answers 'unmodelled'",
        "make_ids_unique iterates a Python set when several non-quantifier EPs share an ARG0 (ill-formed input): the "
        "driver answers 'unmodelled' when that order is observable; both 'unmodelled' reasons are counted in the "
        "evidence (model_comparisons_by_config) split by in-claim / outside-claim, and an 'unmodelled' answer on a "
        "case inside the claim is reported as a model/implementation disagreement",
        "a user-supplied representative_priority is a total function into pairs of naturals (Python compares any "
        "sortable rank); three such functions are run against the real code, the theorems quantify over all of them",
        "a user-supplied predicate_modifiers callable is a pure function of (EDS handed over, MRS, representatives) "
        "returning a mapping or raising; a callable that mutates what it is handed is outside the model",
        "'otherwise unconnected' is read as: unconnected in the graph of the conversion without predicate modifiers "
        "(what the theorems state); under the stricter reading 'unconnected apart from this edge' the real code's "
        "edges of two different scopes can join the same two components twice (observed on about 2% of the inputs "
        "with two or more modifier edges)",
        "in-place edits never touch ARG0/RSTR (EP ids are fixed by the constructor) and never append an EP: the id index "
        "and the variable map of a structure are built by its constructor only, so the real code raises KeyError even "
        "in is_well_formed on an object with an appended EP (observation, same nature as F09)",
        "native EDS reads property names upper-cased / values lower-cased (C03's business): the native round trip is "
        "compared modulo that folding",
    ]
    trusted_base = ["hand-written model lean/Verif/C05/Model.lean on top of lean/Verif/Common/Sem.lean, tied to "
                    "delphin.eds._operations / delphin.scope / delphin.mrs / delphin.util by the correspondence run",
                    "harness/common/semgen.py converters (object <-> JSON)",
                    "mrs.is_well_formed (property C07) delimits the input space of the oracle's clauses"]

    # ---- pins: constants of the anchored code that the hand-written model mirrors
    def tables(self):
        """Read from the live objects on every run: module-level role / sort / relation constants, the variable
        regex, `_UNTENSED_VALUES`, default arguments, and the string / number / keyword-name constants of the code
        objects (nested code objects included) of every function the model mirrors.  Dropped: None/booleans,
        and every string containing white space (docstrings, warning and exception message texts)."""
        import types

        from delphin import util
        from delphin.eds import _operations as eops
        from delphin.mrs import _mrs
        from .common import tables as T
        lit = T.lean_strlit

        def consts(fn):
            out = []

            def walk(code):
                for c in code.co_consts:
                    if isinstance(c, types.CodeType):
                        walk(c)
                    elif isinstance(c, bool) or c is None:
                        continue
                    elif isinstance(c, str):
                        if not any(ch.isspace() for ch in c):
                            out.append(c)
                    elif isinstance(c, (int, float)):
                        out.append(str(c))
                    elif isinstance(c, frozenset):
                        out.append("{" + ",".join(sorted(map(str, c))) + "}")
                    elif isinstance(c, tuple):
                        out.append("(" + ",".join(map(str, c)) + ")")
                    else:
                        out.append(repr(c))
            walk(fn.__code__)
            return out

        def defaults(fn):
            return [repr(d) for d in (fn.__defaults__ or ())] + \
                   ["%s=%r" % kv for kv in sorted((fn.__kwdefaults__ or {}).items())]

        def slist(name, xs):
            return "def %s : List String := [%s]" % (name, ", ".join(lit(x) for x in xs))

        def sdef(name, x):
            return "def %s : String := %s" % (name, lit(x))
        fns = [
            ("c05FromMrs", eops.from_mrs), ("c05GetTop", eops._mrs_get_top),
            ("c05BasicDeps", eops._mrs_args_to_basic_deps), ("c05ToNodes", eops._mrs_to_nodes),
            ("c05FindPredicateModifiers", eops.find_predicate_modifiers),
            ("c05MakeIdsUnique", eops.make_ids_unique),
            ("c05EpInit", _mrs.EP.__init__), ("c05EpIsQuantifier", _mrs.EP.is_quantifier),
            ("c05UniquifyIds", _mrs._uniquify_ids), ("c05QuantificationPairs", _mrs.MRS.quantification_pairs),
            ("c05MrsArguments", _mrs.MRS.arguments), ("c05MrsProperties", _mrs.MRS.properties),
            ("c05MrsScopes", _mrs.MRS.scopes), ("c05MrsScopalArguments", _mrs.MRS.scopal_arguments),
            ("c05Representatives", scope.representatives),
            ("c05RepresentativePriority", scope._make_representative_priority),
            ("c05Descendants", scope._descendants), ("c05ScopeDescendants", scope.descendants),
            ("c05ConnectedComponents", util._connected_components), ("c05Bfs", util._bfs),
            ("c05VariableSplit", variable.split), ("c05VariableType", variable.type),
            ("c05NodeInit", eds.Node.__init__),
        ]
        lines = [
            sdef("c05BoundVariableRole", eds.BOUND_VARIABLE_ROLE),
            sdef("c05PredicateModifierRole", eds.PREDICATE_MODIFIER_ROLE),
            sdef("c05IntrinsicRole", _mrs.INTRINSIC_ROLE), sdef("c05RestrictionRole", _mrs.RESTRICTION_ROLE),
            sdef("c05BodyRole", _mrs.BODY_ROLE), sdef("c05ConstantRole", _mrs.CONSTANT_ROLE),
            sdef("c05QuantifierType", _mrs._QUANTIFIER_TYPE),
            sdef("c05Unspecific", variable.UNSPECIFIC),
            slist("c05VariableSorts", [variable.UNSPECIFIC, variable.INDIVIDUAL, variable.INSTANCE_OR_HANDLE,
                                       variable.EVENTUALITY, variable.INSTANCE, variable.HANDLE]),
            slist("c05VariableRe", [variable._variable_re.pattern, str(variable._variable_re.flags)]),
            slist("c05ScopeRelations", [scope.LEQ, scope.LHEQ, scope.OUTSCOPES, scope.QEQ]),
            slist("c05UntensedValues", sorted(scope._UNTENSED_VALUES)),
        ]
        for name, fn in fns:
            lines.append(slist(name + "Consts", consts(fn)))
            lines.append(slist(name + "Defaults", defaults(fn)))
        return lines

    # ---- generators
    def battery_cases(self):
        """deterministic, the same in every run and for every seed: a handful of fixed in-claim MRSs (two written
        by hand, the others from gen_wf with a fixed seed, all with a scope that has several representatives or a
        quantifier) under the WHOLE cross product of predicate_modifiers values x unique_ids x
        representative_priority and the staged / stand-alone uses of the public functions"""
        import random
        fixed = random.Random(50505)
        ms = [copy.deepcopy(NEARLY_EVERY), copy.deepcopy(DOG_BARKS)]
        for hand in ms + [TWO_DANGLING]:
            if not in_claim(semgen.mrs_from_json(hand)):
                raise AssertionError("battery MRS outside the claim")
        tries = 0
        while len(ms) < 6 and tries < 400:
            tries += 1
            m = gen_wf(fixed, p_mutual=0.0, p_double_q=0.0)
            try:
                mo = semgen.mrs_from_json(m)
                if not in_claim(mo):
                    continue
                reps = scope.representatives(mo)
            except Exception:
                continue
            if any(len(v) == 0 for v in reps.values()) or not any(len(v) > 1 for v in reps.values()):
                continue
            ms.append(m)
        ms.append(semgen.shift_vars(NEARLY_EVERY, 2 ** 63 - 5))
        ms.append(copy.deepcopy(TWO_DANGLING))
        # x3 / x(2^32+3), h4 / h(2^32+4) ...: ids that collide modulo 2^32
        ms.append(map_vars(ms[2], lambda v: [v[0], v[1] + (2 ** 32 if (v[1] + len(v[0])) % 2 else 0)]))
        cfgs = full_configs()
        per = 21
        docs = [None, {"lnk": [0, 14], "surface": "The dog barks.", "identifier": "1"},
                {"lnk": None, "surface": "", "identifier": ""}]
        k = 0
        for m in ms:
            n = len(m["rels"])
            quant = [i for i, ep in enumerate(m["rels"]) if any(r == "RSTR" for r, _ in ep["args"])]
            # make_ids_unique on its own: every node gets an extra edge onto every quantifier (the nodes that
            # ARE renamed) and onto its neighbour; the top is moved onto a quantifier / removed / kept
            onto_q = [[i, "X-Q%d" % k, q] for i in range(n) for k, q in enumerate(quant)]
            ring = [[i, "X-NEXT", (i + 1) % n] for i in range(n)]
            mk = [{"pm": pm, "uniq": True, "path": "mkuniq", "extra": ex, "top": top, "prio": prio}
                  for pm in ("std", "off") for ex, top in ((onto_q, quant[0] if quant else "keep"), (ring, None),
                                                           ([], "keep"))
                  for prio in ("default", "const")]
            yield {"src": "battery", "m": m, "configs": mk}
            for c in range(0, len(cfgs), per):
                case = {"src": "battery", "m": m, "configs": copy.deepcopy(cfgs[c:c + per])}
                if docs[k % 3] is not None:
                    case["doc"] = docs[k % 3]
                k += 1
                yield case

    def cases(self, rng, tier, n):
        yield from self.battery_cases()
        small = list(semgen.enum_small_mrs(2))
        step = 5 if tier == "thorough" else 1499
        off = rng.randrange(step)
        for k, m in enumerate(small):
            if k % step == off and m["rels"]:
                yield self.mk_case("enum", m, rng)
        yield from self.random_cases(rng, n)

    def mk_case(self, src, m, rng):
        case = {"src": src, "m": m, "configs": gen_configs(rng, m)}
        doc = gen_doc(rng)
        if doc is not None:
            case["doc"] = doc
        # "convert – edit in place – convert again" on about half of the in-claim cases
        try:
            claim = bool(m["rels"]) and in_claim(semgen.mrs_from_json(m))
        except Exception:
            claim = False
        if claim and rng.random() < 0.55:
            ed = gen_edit(rng, m)
            if ed is not None:
                case["edit"] = ed
                case["configs"] = [c for c in case["configs"] if not isinstance(c["pm"], dict)
                                   and not (ed["op"] == "del_ep" and c.get("path") == "mkuniq")]
        return case

    def random_cases(self, rng, n):
        for _ in range(n):
            r = rng.random()
            if r < 0.55:
                m = gen_wf(rng)
                r2 = rng.random()
                if r2 < 0.05:
                    # variable ids beyond machine sizes (ids of quantifiers / _uniquify_ids / sorting by position)
                    m = semgen.shift_vars(m, rng.choice([2 ** 31 - 3, 2 ** 32 - 2, 2 ** 63 - 1, 10 ** 20]))
                elif r2 < 0.11:
                    m = split_ids(rng, m)
                if rng.random() < 0.12:
                    m = semgen.add_icons(rng, m)        # individual constraints (from_mrs must ignore them)
                yield self.mk_case("wf", m, rng)
            elif r < 0.67:
                yield self.mk_case("tree", semgen.gen_mrs_tree(rng, mutual=0.08), rng)
            elif r < 0.80:
                m = gen_wf(rng) if rng.random() < 0.7 else semgen.gen_mrs_tree(rng)
                for _ in range(rng.choice([1, 1, 2])):
                    m = semgen.mutate_mrs(rng, m)
                yield self.mk_case("mut", m, rng)
            else:
                yield self.mk_case("wild", semgen.gen_mrs_wild(rng, allow_missing_iv=rng.random() < 0.15), rng)

    def search_cases(self, rng, tier, n, seeds):
        for c in seeds[:20]:
            for _ in range(20):
                yield self.mk_case("mut", semgen.mutate_mrs(rng, c["m"]), rng)
        yield from self.random_cases(rng, n)

    # ---- implementation
    def impl(self, case):
        """ONE live MRS object goes through all configurations (a per-object cache is then seen);
        with an edit, the same object is edited in place and converted again under all of them"""
        m = mk_mrs(case["m"], case.get("doc"))
        out = []
        for cfg in case["configs"]:
            e, err, ws, _ = run_live(m, cfg)
            out.append(obs_of(m, e, err, ws))
        if case.get("edit") is not None:
            apply_edit_obj(m, case["edit"])
            for cfg in case["configs"]:
                e, err, ws, _ = run_live(m, cfg)
                out.append(obs_of(m, e, err, ws))
        return out

    # ---- model
    def model_request(self, case):
        ids = [ep.id for ep in semgen.mrs_from_json(case["m"]).rels]
        cfgs = []
        for cfg in case["configs"]:
            pm = cfg["pm"]
            if pm in ("std", "wrap"):
                mp = "std"
            elif pm in ("off", "empty", "none"):
                mp = "off"
            elif isinstance(pm, str):
                mp = pm                      # fn:std / fn:isolated / fn:reps / fn:raise
            else:
                addl = []
                for s, role, t in pm["const"]:
                    for entry in addl:
                        if entry[0] == V(ids[s]):
                            entry[1] = [x for x in entry[1] if x[0] != role] + [[role, V(ids[t])]]
                            break
                    else:
                        addl.append([V(ids[s]), [[role, V(ids[t])]]])
                mp = {"custom": addl}
            mc = {"pm": mp, "uniq": cfg["uniq"], "prio": cfg.get("prio") or "default",
                  "path": cfg.get("path", "direct")}
            if mc["path"] == "mkuniq":
                mc["extra"] = cfg["extra"]
                mc["top"] = cfg.get("top", "keep")
            cfgs.append(mc)
        req = {"op": "from_mrs", "m": case["m"], "configs": cfgs}
        if case.get("doc") is not None:
            req["doc"] = case["doc"]
        if case.get("edit") is not None:
            req["m2"] = apply_edit_json(case["m"], case["edit"])
        return req

    def model_compare(self, case, expected, answer):
        if not isinstance(answer, list) or len(answer) != len(expected):
            return {"expected_from_impl": expected, "model": answer}
        nc = len(case["configs"])
        claim = [None, None]          # in_claim of the content of phase 0 / 1, computed on demand

        def phase_claim(ph):
            if claim[ph] is None:
                mj = case["m"] if ph == 0 else apply_edit_json(case["m"], case["edit"])
                try:
                    claim[ph] = bool(in_claim(semgen.mrs_from_json(mj)))
                except Exception:
                    claim[ph] = False
            return claim[ph]
        for k, (e, a) in enumerate(zip(expected, answer)):
            where = {"config": case["configs"][k % nc], "phase": "after the in-place edit" if k >= nc else "first"}
            self.compared["configs"] = self.compared.get("configs", 0) + 1
            if isinstance(a, dict) and "unmodelled" in a:
                # the model declines (duplicate EP ids / Python set order observable): only possible
                # outside the claim; counted per reason, and a disagreement when the case is in the claim
                inc = phase_claim(k // nc)
                key = "unmodelled:%s:%s" % (a["unmodelled"], "in-claim" if inc else "outside-claim")
                self.compared[key] = self.compared.get(key, 0) + 1
                if inc:
                    return dict(where, note="the model answers 'unmodelled' on a case inside the claim", model=a)
                if "ok" in e and canon(a.get("ids")) != canon(e["ok"]["ids"]):
                    return dict(where, expected_ids=e["ok"]["ids"], model=a)
                continue
            key = "modelled:" + ("in-claim" if phase_claim(k // nc) else "outside-claim")
            self.compared[key] = self.compared.get(key, 0) + 1
            if canon(e) != canon(a):
                return dict(where, expected_from_impl=e, model=a)
        return None

    compared = {}

    def setup(self):
        self.compared = {}

    def extra_evidence(self):
        """how many (case, configuration, phase) answers of the model were compared in full and how many the
        model declined ('unmodelled'), per reason, split by whether the content is inside the claim"""
        return {"model_comparisons_by_config": dict(sorted(self.compared.items()))}

    # ---- direct oracle
    def oracle(self, case, res):
        fails = []
        m0 = semgen.mrs_from_json(case["m"])
        if not in_claim(m0):
            return fails

        def add(fs, cfg, phase):
            for f in fs:
                f["config"] = cfg
                if phase:
                    f["phase"] = phase
                fails.append(f)
        live = mk_mrs(case["m"], case.get("doc"))
        snap = snapshot(live)
        first = []
        for cfg in case["configs"]:
            r1 = run_live(live, cfg)
            first.append(obs_of(live, r1[0], r1[1], r1[2]))
            add(self.oracle_config(live, cfg, r1, case["m"]), cfg, None)
            add(self.oracle_paths(live, cfg, first[-1]), cfg, None)
            if snapshot(live) != snap:
                add([{"clause": "the conversion modifies the source MRS", "detail": None}], cfg, None)
                snap = snapshot(live)
        # purity: the same unedited object converted again gives the same results
        for cfg, o1 in zip(case["configs"], first):
            r1b = run_live(live, cfg)
            if canon(obs_of(live, r1b[0], r1b[1], r1b[2])) != canon(o1):
                add([{"clause": "converting the same unedited MRS twice gives different results", "detail": None}],
                    cfg, None)
        if snapshot(live) != snap:
            add([{"clause": "the conversion modifies the source MRS", "detail": None}], None, None)
        ed = case.get("edit")
        if ed is None:
            return fails
        # convert – edit in place – convert again
        m2j = apply_edit_json(case["m"], ed)
        apply_edit_obj(live, ed)
        if content(live) != content(semgen.mrs_from_json(m2j)):
            add([{"clause": "harness: the in-place edit and the edit of the JSON content disagree", "detail": ed}],
                None, "after the in-place edit")
            return fails
        snap2 = snapshot(live)
        for cfg in case["configs"]:
            r2 = run_live(live, cfg)
            # judged against the CURRENT content of the object ...
            add(self.oracle_config(live, cfg, r2, m2j), cfg, "after the in-place edit")
            add(self.oracle_paths(live, cfg, obs_of(live, r2[0], r2[1], r2[2])), cfg, "after the in-place edit")
            # ... and equal to the conversion of a freshly built MRS with the same content
            fresh = mk_mrs(m2j, case.get("doc"))
            rf = run_live(fresh, cfg)
            if canon(obs_of(live, r2[0], r2[1], r2[2])) != canon(obs_of(fresh, rf[0], rf[1], rf[2])):
                add([{"clause": "conversion after an in-place edit differs from the conversion of a fresh MRS "
                                "with the same content", "detail": ed}], cfg, "after the in-place edit")
        if snapshot(live) != snap2:
            add([{"clause": "the conversion modifies the source MRS", "detail": None}], None,
                "after the in-place edit")
        return fails

    def oracle_paths(self, m, cfg, obs):
        """the public entry points agree with each other (judged on the real code only): the staged use of
        from_mrs(False, False) + find_predicate_modifiers + make_ids_unique, find_predicate_modifiers passed as
        the callable and a falsy predicate_modifiers against the plain calls; find_predicate_modifiers on its own
        returns exactly the edges by which from_mrs(True) differs from from_mrs(False)"""
        fails = []

        def fail(clause, detail=None):
            fails.append({"clause": clause, "detail": detail})

        def plain(pm, uniq, prio=None):
            c = {"pm": pm, "uniq": uniq}
            if prio not in (None, "default"):
                c["prio"] = prio
            r = run_live(m, c)
            return obs_of(m, r[0], r[1], r[2])
        path = cfg.get("path", "direct")
        default_prio = cfg.get("prio") in (None, "default")
        if path == "staged" and default_prio:
            if canon(obs) != canon(plain("std", cfg["uniq"])):
                fail("find_predicate_modifiers + make_ids_unique applied by hand to from_mrs(m, False, False) differ "
                     "from from_mrs(m, True, unique_ids)")
        elif path == "findpm":
            if "ok" in obs:
                a1 = {canon(s_): {r: canon(t) for r, t in d} for s_, d in obs["ok"]["addl"]}
                a2 = {canon(s_): {r: canon(t) for r, t in d} for s_, d in obs["ok"]["addl_reps"]}
                if default_prio and a1 != a2:
                    fail("find_predicate_modifiers gives different edges with and without the representatives passed in")
                off, std = plain("off", False, cfg.get("prio")), plain("std", False, cfg.get("prio"))
                if "ok" in off and "ok" in std:
                    for no, ns in zip(off["ok"]["nodes"], std["ok"]["nodes"]):
                        want = dict((r, canon(t)) for r, t in no["edges"])
                        want.update(a2.get(canon(no["id"]), {}))
                        if want != dict((r, canon(t)) for r, t in ns["edges"]):
                            fail("find_predicate_modifiers on its own does not return the edges by which "
                                 "from_mrs(m, True) differs from from_mrs(m, False)", no["id"])
                            break
                    if set(a2) - {canon(no["id"]) for no in off["ok"]["nodes"]}:
                        fail("find_predicate_modifiers returns a key that is no node")
        elif path == "direct" and cfg["pm"] == "fn:std":
            if canon(obs) != canon(plain("std", cfg["uniq"], cfg.get("prio"))):
                fail("find_predicate_modifiers passed as the callable differs from predicate_modifiers=True")
        elif path == "direct" and cfg["pm"] == "none":
            if canon(obs) != canon(plain("off", cfg["uniq"], cfg.get("prio"))):
                fail("a falsy predicate_modifiers differs from predicate_modifiers=False")
        return fails

    def oracle_config(self, m, cfg, conv, mj=None):
        """every clause of the property for ONE conversion `conv` = run_live(m, cfg) of the object m,
        judged against the content m has NOW"""
        fails = []

        def fail(clause, detail=None):
            fails.append({"clause": clause, "detail": detail})
        e, err, ws, calls = conv
        eps = list(m.rels)
        n = len(eps)
        kind = pm_kind(cfg)
        path = cfg.get("path", "direct")
        # -- user function protocol: called once, on the graph of the conversion without modifiers (node ids
        #    = EP ids, its top and edges), with the representatives for the priority in force
        recording = path == "direct" and (isinstance(cfg["pm"], dict) or cfg["pm"] in
                                          ("wrap", "empty", "fn:isolated", "fn:reps", "fn:raise"))
        if recording and not (err is not None and not calls):
            if len(calls) != 1:
                fail("user-supplied predicate_modifiers function not called exactly once", len(calls))
            elif calls[0]["node_ids"] != calls[0]["ep_ids"] or calls[0]["ep_ids"] != [ep.id for ep in eps]:
                fail("user-supplied predicate_modifiers function saw node ids that are not the EP ids", calls[0])
            else:
                prio = make_prio(cfg.get("prio"), m)
                want = {l: [p.id for p in ps] for l, ps in scope.representatives(m, priority=prio).items()}
                if calls[0]["reps"] != want:
                    fail("user-supplied predicate_modifiers function did not receive the scope representatives")
                c0 = {"pm": "off", "uniq": False}
                if cfg.get("prio") not in (None, "default"):
                    c0["prio"] = cfg["prio"]
                b = run_live(m, c0)
                if b[1] is None and (calls[0]["top"] != b[0].top or calls[0]["edges"] !=
                                     [[nd.id, r, t] for nd in b[0].nodes for r, t in nd.edges.items()]):
                    fail("user-supplied predicate_modifiers function did not receive the graph of the conversion "
                         "without predicate modifiers")
        elif calls and path != "mkuniq":
            fail("harness: unexpected call record")
        if kind == "raise":
            return fails          # what a raising callable leads to is compared with the model only
        # -- totality, no warning
        if err is not None:
            fail("conversion of a well-formed MRS raised", err)
            return fails
        if ws:
            fail("conversion of a well-formed MRS warned", ws)
        if path == "findpm":
            return fails
        if path == "mkuniq":
            # "LKB-style identifier reassignment": ids pairwise distinct; the top, every node id and EVERY EDGE
            # TARGET renamed by one and the same map; nothing else changed (naive, by position)
            before = calls[-1]["before"]
            old_ids = [x[0] for x in before["nodes"]]
            new_ids = [nd.id for nd in e.nodes]
            if len(new_ids) != len(old_ids):
                fail("make_ids_unique changed the number of nodes")
                return fails
            if len(set(new_ids)) != len(new_ids):
                fail("node identifiers are not unique", new_ids)
            ren = dict(zip(old_ids, new_ids))
            for (oid, oedges), nd in zip(before["nodes"], e.nodes):
                want = [(r, ren.get(t)) for r, t in oedges]
                if list(nd.edges.items()) != want:
                    fail("make_ids_unique did not rename an edge target consistently with the node ids",
                         [oid, oedges, list(nd.edges.items())])
                    break
            if e.top != (None if before["top"] is None else ren.get(before["top"])):
                fail("make_ids_unique did not rename the top consistently with the node ids", [before["top"], e.top])
            if any(t not in new_ids for nd in e.nodes for t in nd.edges.values()):
                fail("an edge does not end at a node")
            for ep, nd in zip(eps, e.nodes):
                want_id = ep.args.get("ARG0") if "RSTR" not in ep.args else None
                if want_id is not None and nd.id != want_id:
                    fail("make_ids_unique: a non-quantifier node is not named by its intrinsic variable", nd.id)
                if want_id is None and not nd.id.startswith("_"):
                    fail("make_ids_unique: a quantifier node did not get an LKB-style identifier", nd.id)
            return fails
        # -- shape: one node per predication, in order, with its data
        nodes = list(e.nodes)
        if len(nodes) != n:
            fail("not one node per predication", [len(nodes), n])
            return fails
        for i, (ep, nd) in enumerate(zip(eps, nodes)):
            quant = "RSTR" in ep.args
            iv = ep.args.get("ARG0")
            want_type = None if quant else variable.type(iv)
            want_props = {} if quant else dict(m.variables.get(iv, {}))
            if nd.predicate != ep.predicate:
                fail("node does not carry the predicate of its predication", i)
            if nd.carg != ep.args.get("CARG"):
                fail("node does not carry the constant of its predication", i)
            if (nd.lnk is None) != (ep.lnk is None) or (nd.lnk is not None and (
                    nd.lnk.type != ep.lnk.type or nd.lnk.data != ep.lnk.data or nd.cfrom != ep.cfrom
                    or nd.cto != ep.cto)):
                fail("node does not carry the alignment of its predication", i)
            if nd.surface != ep.surface or nd.base != ep.base:
                fail("node does not carry the surface/base form of its predication", i)
            if mj is not None:
                # the same clauses against the CONTENT the object was built from (not read back through the
                # accessors of the object, which share code with the node)
                j = mj["rels"][i]
                if nd.predicate != j["pred"] or nd.carg != j.get("carg") or nd.surface != j.get("surface") or \
                        nd.base != j.get("base") or _lnk(nd.lnk) != j.get("lnk") or \
                        (j.get("lnk") is not None and [nd.cfrom, nd.cto] != j["lnk"]):
                    fail("node does not carry predicate / constant / alignment / surface / base of its predication "
                         "(as given to the constructor)", i)
                jiv = next((v for r, v in j["args"] if r == "ARG0"), None)
                if not quant and jiv is not None and nd.type != jiv[0]:
                    fail("node type is not the type of the intrinsic variable", [i, nd.type, jiv[0]])
            if nd.type != want_type:
                fail("node type is not the type of the intrinsic variable", [i, nd.type, want_type])
            if dict(nd.properties) != want_props:
                fail("node properties are not the properties of the intrinsic variable", i)
        # -- identifiers
        ids = [nd.id for nd in nodes]
        if any(not isinstance(i, str) for i in ids) or len(set(ids)) != len(ids):
            fail("node identifiers are not unique", ids)
            return fails
        pos = {nid: i for i, nid in enumerate(ids)}
        if e.top is None or e.top not in pos:
            fail("top is not a node", e.top)
        dangling = [(nd.id, r, t) for nd in nodes for r, t in nd.edges.items() if t not in pos]
        if dangling:
            fail("an edge does not end at a node", dangling)
            return fails
        # -- the edge list as the structure reports it (EDS.edges, EDS.arguments) is the edges of its nodes
        triples = [(nd.id, r, t) for nd in nodes for r, t in nd.edges.items()]
        if list(e.edges) != triples or \
                [(s_, r, t) for s_, rts in e.arguments().items() for r, t in rts] != triples:
            fail("EDS.edges / EDS.arguments() of the result are not the edges of its nodes")
        # -- edge justification
        supplied = set()
        if kind == "user" and len(calls) == 1 and calls[0]["returned"] is not None:
            eppos = {i: k for k, i in enumerate(calls[0]["ep_ids"])}
            supplied = {(eppos[s_], r, eppos[t]) for s_, r, t in calls[0]["returned"]
                        if s_ in eppos and t in eppos}
        hcs = [(hc.hi, hc.lo) for hc in m.hcons]

        def arg_justified(i, role, j):
            if role in ("ARG0", "CARG") or role not in eps[i].args:
                return False
            v = eps[i].args[role]
            if "RSTR" not in eps[j].args and eps[j].args.get("ARG0") == v:
                return True                                   # value is the target's intrinsic variable
            if v == eps[j].label:
                return True                                   # value is the label of the target's scope
            return any(hi == v and lo == eps[j].label for hi, lo in hcs)   # ... or a hole constrained to it

        def bv_justified(i, role, j):
            return (role == "BV" and "RSTR" in eps[i].args and "RSTR" not in eps[j].args
                    and eps[j].args.get("ARG0") is not None and eps[j].args.get("ARG0") == eps[i].args.get("ARG0"))
        basic, other = [], []
        for i, nd in enumerate(nodes):
            for role, t in nd.edges.items():
                j = pos[t]
                if (i, role, j) in supplied:
                    continue
                if bv_justified(i, role, j) or arg_justified(i, role, j):
                    basic.append((i, role, j))
                else:
                    other.append((i, role, j))
        comp = _components(n, [(i, j) for i, _, j in basic])
        for i, role, j in other:
            if role == "BV":
                fail("a BV edge does not go from a quantifier to the predication it quantifies", [i, j])
            elif kind != "std":
                fail("an edge is not justified by an argument of the source (predicate modifiers are off)",
                     [i, role, j])
            elif role != "ARG1" or i == j or eps[i].label != eps[j].label:
                fail("an edge is neither justified by an argument nor a predicate-modifier edge within one scope",
                     [i, role, j])
            elif comp[i] == comp[j]:
                fail("a predicate-modifier edge joins two predications that were already connected", [i, j])
        for i, ep in enumerate(eps):
            bvs = [(r, t) for r, t in nodes[i].edges.items() if r == "BV"]
            if "RSTR" in ep.args:
                tgt = [j for j, p in enumerate(eps) if "RSTR" not in p.args and p.args.get("ARG0") is not None
                       and p.args.get("ARG0") == ep.args.get("ARG0")]
                if tgt and [pos[t] for _, t in bvs] != tgt:
                    fail("a quantifier does not have exactly one BV edge to the predication it quantifies",
                         [i, tgt, bvs])
                if not tgt and bvs:
                    fail("a BV edge does not go from a quantifier to the predication it quantifies", [i, bvs])
            elif bvs:
                fail("a BV edge does not go from a quantifier to the predication it quantifies", [i, bvs])
        # -- the result survives C03 serialisation
        self.roundtrip(e, fail)
        return fails

    def roundtrip(self, e, fail):
        if not c03_expressible(e):
            return          # e.g. an empty property value: outside what C03 claims to serialise
        want = eds_view(e)
        # the native reader folds the case of property names/values (C03's business): the native
        # round trip is exact on the graph with folded properties
        ef = eds.EDS(e.top, [eds.Node(n.id, n.predicate, n.type, dict(n.edges),
                                      {k.upper(): v.lower() for k, v in n.properties.items()},
                                      n.carg, n.lnk, n.surface, n.base) for n in e.nodes])
        wantf = eds_view(ef)
        for indent in (True, False):
            try:
                s = edsnative.encode(ef, indent=indent)
                d = edsnative.decode(s)
                if eds_view(d) != wantf:
                    fail("native EDS round trip changes the converted graph", {"indent": indent})
                elif edsnative.encode(d, indent=indent) != s:
                    fail("native EDS re-encoding does not reproduce the text", {"indent": indent})
            except Exception as ex:
                fail("native EDS round trip of the converted graph raised", type(ex).__name__)
        try:
            d = edsjson.decode(edsjson.encode(e))
            got, w2 = eds_view(d), dict(want)
            if got["top"] != w2["top"] or sorted(map(canon, got["nodes"])) != sorted(map(canon, w2["nodes"])):
                fail("EDS-JSON round trip changes the converted graph")
        except Exception as ex:
            fail("EDS-JSON round trip of the converted graph raised", type(ex).__name__)
        if e.top is not None:
            ids = [nd.id for nd in e.nodes]
            pos = {nid: i for i, nid in enumerate(ids)}
            comp = _components(len(ids), [(pos[nd.id], pos[t]) for nd in e.nodes for t in nd.edges.values()])
            main = {nid for nid in ids if comp[pos[nid]] == comp[pos[e.top]]}
            try:
                import logging
                logging.getLogger("delphin.codecs.edspenman").setLevel(logging.ERROR)
                d = edspenman.decode(edspenman.encode(e))
                got = eds_view(d)
                wantp = {"top": want["top"], "nodes": [x for x in want["nodes"] if x[0] in main]}
                if got["top"] != wantp["top"] or sorted(map(canon, got["nodes"])) != sorted(map(canon, wantp["nodes"])):
                    fail("EDS-PENMAN round trip changes the part of the converted graph connected to the top")
            except Exception as ex:
                fail("EDS-PENMAN round trip of the converted graph raised", type(ex).__name__)

    # ---- known findings
    def classify(self, case, failure):
        if failure.get("clause") == "conversion of a well-formed MRS raised" and failure.get("detail") == "IndexError":
            # F08: by the definition (not by what the code returned) every member of some scope with at
            # least two members takes another member, or a scopal descendant of another member, as a
            # non-scopal argument -> no representative -> reps[lbl][0] raises
            mj = case["m"]
            if failure.get("phase") and case.get("edit") is not None:
                mj = apply_edit_json(mj, case["edit"])
            m = semgen.mrs_from_json(mj)
            if len({ep.id for ep in m.rels}) != len(m.rels):
                return None
            for _, row in scope_blocking(m).items():
                if len(row) >= 2 and all(b for _, b in row):
                    return "F08"
        return None

    # ---- evidence
    def nontrivial_key(self, case, res):
        if not case["m"]["rels"]:
            return None
        return canon(case)

    def stats(self, case, res, c):
        def inc(k, by=1):
            c[k] = c.get(k, 0) + by
        inc("src:" + case.get("src", "corpus"))
        inc("edit:" + (case["edit"]["op"] if case.get("edit") else "none"))
        mj = case["m"]
        m = semgen.mrs_from_json(mj)
        claim = in_claim(m)
        inc("in-claim=%s" % claim)
        inc("eps=%d" % min(len(mj["rels"]), 9))
        nq = sum(1 for ep in m.rels if ep.is_quantifier())
        inc("quantifiers=%d" % min(nq, 4))
        if any(ep.id.startswith("_") for ep in m.rels):
            inc("uniquified-ep-id")
        labels = [ep.label for ep in m.rels]
        if len(set(labels)) < len(labels):
            inc("shared-scope")
        bound = [ep.iv for ep in m.rels if ep.is_quantifier()]
        if len(set(bound)) != len(bound):
            inc("doubly-bound-variable")
        try:
            reps = scope.representatives(m)
            if any(len(v) > 1 for v in reps.values()):
                inc("scope-with-several-representatives")
            if any(len(v) == 0 for v in reps.values()):
                inc("scope-without-representative")
        except Exception:
            inc("representatives-raise")
        if res is None:
            inc("impl:none")
            return
        if case.get("doc") is not None:
            inc("structure-level lnk/surface/identifier")
        if mj.get("icons"):
            inc("icons present")
        if claim and any(ep.is_quantifier() and not any(p.iv == ep.iv and not p.is_quantifier() for p in m.rels)
                         for ep in m.rels):
            inc("quantifier of an unexpressed variable (in claim)")
        if any(v[1] >= 2 ** 31 for ep in mj["rels"] for _, v in ep["args"]):
            inc("variable ids >= 2^31")
        for cfg, r in zip(case["configs"], res):
            pm = cfg["pm"] if isinstance(cfg["pm"], str) else "const"
            path = cfg.get("path", "direct")
            inc("path:" + path)
            inc("prio:" + (cfg.get("prio") or "not passed"))
            if path == "mkuniq":
                inc("mkuniq:extra=%d,top=%s" % (len(cfg["extra"]), "keep" if cfg.get("top", "keep") == "keep" else
                                                  ("none" if cfg["top"] is None else "moved")))
            if path != "direct":
                if "err" in r:
                    inc("err:" + r["err"] + (":in-claim" if claim else ""))
                elif path == "findpm" and r["ok"]["addl"]:
                    inc("findpm:non-empty mapping")
                continue
            inc("config:pm=%s,uniq=%s" % (pm, cfg["uniq"]))
            if cfg.get("prio") not in (None, "default"):
                base = next((r2 for c2, r2 in zip(case["configs"], res)
                             if c2.get("path", "direct") == "direct" and c2.get("prio") in (None, "default")
                             and pm_kind(c2) == pm_kind(cfg) and pm_kind(cfg) in ("std", "off")
                             and c2["uniq"] == cfg["uniq"]), None)
                if base is not None and "ok" in base and "ok" in r and (
                        canon(base["ok"]["nodes"]) != canon(r["ok"]["nodes"]) or base["ok"]["top"] != r["ok"]["top"]):
                    inc("priority changes the result")
            if pm in ("fn:isolated", "fn:reps") and "ok" in r:
                base = next((r2 for c2, r2 in zip(case["configs"], res)
                             if c2.get("path", "direct") == "direct" and c2["pm"] == "off"
                             and c2.get("prio") in (None, "default") and c2["uniq"] == cfg["uniq"]), None)
                if base is not None and "ok" in base and canon(base["ok"]["nodes"]) != canon(r["ok"]["nodes"]):
                    inc("%s adds edges" % pm)
            if "err" in r:
                inc("err:" + r["err"] + (":in-claim" if claim else ""))
                continue
            o = r["ok"]
            for w in o["warnings"]:
                inc("warning:" + w)
            if o["top"] is None:
                inc("top-none")
            if pm == "std":
                base = next((r2 for c2, r2 in zip(case["configs"], res)
                             if c2["pm"] == "off" and c2["uniq"] == cfg["uniq"] and "path" not in c2
                             and c2.get("prio") == cfg.get("prio")), None)
                if base is not None and "ok" in base:
                    extra = sum(len(a["edges"]) for a in o["nodes"]) - sum(len(a["edges"]) for a in base["ok"]["nodes"])
                    changed = sum(1 for a, b in zip(o["nodes"], base["ok"]["nodes"]) if a["edges"] != b["edges"])
                    if changed:
                        inc("predicate-modifier-edges:cases" + (":in-claim" if claim else ""))
                        inc("predicate-modifier-edges:nodes", changed)
                    if changed and extra < changed:
                        inc("predicate-modifier-overwrites-ARG1")
            if cfg["uniq"] and pm == "std":
                if any(nd["edges"] and nd["edges"][0][0] == "BV" for nd in o["nodes"]):
                    inc("has-BV-edge")

    def shrink(self, case, still_fails):
        cur = case
        changed = True
        while changed:
            changed = False
            cands = []
            m = cur["m"]
            for i in range(len(cur["configs"])):
                if len(cur["configs"]) > 1 and not isinstance(cur["configs"][i]["pm"], dict):
                    c = copy.deepcopy(cur)
                    del c["configs"][i]
                    cands.append(c)
            if cur.get("edit") is not None:
                c = copy.deepcopy(cur)
                del c["edit"]
                cands.append(c)
            locked = cur.get("edit") is not None      # an edit addresses EPs / roles / hcons by position
            if not locked and not any(isinstance(cfg["pm"], dict) for cfg in cur["configs"]):
                for i in range(len(m["rels"])):
                    c = copy.deepcopy(cur)
                    del c["m"]["rels"][i]
                    cands.append(c)
            for i in range(len(m["hcons"])):
                if locked:
                    break
                c = copy.deepcopy(cur)
                del c["m"]["hcons"][i]
                cands.append(c)
            for i, ep in enumerate(m["rels"]):
                for k in range(len(ep["args"])):
                    if ep["args"][k][0] != "ARG0" and not locked:
                        c = copy.deepcopy(cur)
                        del c["m"]["rels"][i]["args"][k]
                        cands.append(c)
                for key in ("carg", "lnk", "surface", "base"):
                    if ep.get(key) is not None:
                        c = copy.deepcopy(cur)
                        c["m"]["rels"][i][key] = None
                        cands.append(c)
            if m.get("vars"):
                c = copy.deepcopy(cur)
                c["m"]["vars"] = []
                cands.append(c)
            for c in cands:
                try:
                    if still_fails(c):
                        cur = c
                        changed = True
                        break
                except Exception:
                    continue
        return cur


CHECK = C05()
