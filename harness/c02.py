"""C02 — DMRS serialisations (SimpleDMRS, DMRX, DMRS-JSON, DMRS-PENMAN):
generators, implementation runner, direct oracle, classifier for the known finding F11."""
import copy
import gc
import io
import os
import shutil
import tempfile
import logging
import re
import xml.etree.ElementTree as etree

from .common import paths, tables
from .common.runner import Check, canon

paths.ensure_repo_on_path()
import penman  # noqa: E402
from delphin import predicate, sembase  # noqa: E402
from delphin.codecs import dmrsjson, dmrspenman, dmrx, simpledmrs  # noqa: E402
from delphin.dmrs import DMRS, Link, Node  # noqa: E402
from delphin.dmrs import _dmrs as dmrs_mod  # noqa: E402
from delphin.lnk import Lnk  # noqa: E402

logging.getLogger("delphin.codecs.dmrspenman").setLevel(logging.ERROR)

CODECS = {"sd": simpledmrs, "x": dmrx, "j": dmrsjson, "p": dmrspenman}
CODEC_NAME = {"sd": "simpledmrs", "x": "dmrx", "j": "dmrsjson", "p": "dmrspenman"}


def cps(s):
    return [ord(c) for c in s]


def ocps(s):
    return None if s is None else cps(s)


def uncps(a):
    return "".join(chr(x) for x in a)


def ouncps(a):
    return None if a is None else uncps(a)


# ------------------------------------------------------------------ JSON forms

def lnk_to_j(l):
    if l is None or l.type == Lnk.UNSPECIFIED:
        return None
    if l.type == Lnk.CHARSPAN:
        return ["c", l.data[0], l.data[1]]
    if l.type == Lnk.CHARTSPAN:
        return ["v", l.data[0], l.data[1]]
    if l.type == Lnk.TOKENS:
        return ["t", list(l.data)]
    if l.type == Lnk.EDGE:
        return ["e", l.data]
    raise ValueError(l)


def lnk_from_j(j):
    if j is None:
        return None
    if j[0] == "c":
        return Lnk.charspan(j[1], j[2])
    if j[0] == "v":
        return Lnk.chartspan(j[1], j[2])
    if j[0] == "t":
        return Lnk.tokens(j[1])
    if j[0] == "e":
        return Lnk.edge(j[1])
    raise ValueError(j)


def build(dj):
    """constructor arguments (JSON) → DMRS object"""
    nodes = [Node(n["id"], uncps(n["pred"]), type=ouncps(n["type"]),
                  properties={uncps(k): uncps(v) for k, v in n["props"]},
                  carg=ouncps(n["carg"]), lnk=lnk_from_j(n["lnk"]),
                  surface=ouncps(n["surface"]), base=ouncps(n["base"])) for n in dj["nodes"]]
    links = [Link(l["start"], l["stop"], ouncps(l["role"]), ouncps(l["post"])) for l in dj["links"]]
    return DMRS(top=dj["top"], index=dj["index"], nodes=nodes, links=links, lnk=lnk_from_j(dj["lnk"]),
                surface=ouncps(dj["surface"]), identifier=ouncps(dj["identifier"]))


def canon_dmrs(d):
    """DMRS object → the driver's JSON shape"""
    def s(x):
        if x is None:
            return None
        if not isinstance(x, str):
            raise TypeError("non-string where a string is expected: %r" % (x,))
        return cps(x)

    def i(x):
        if x is None:
            return None
        if isinstance(x, bool) or not isinstance(x, int):
            raise TypeError("non-int where an int is expected: %r" % (x,))
        return x
    return {
        "top": i(d.top), "index": i(d.index),
        "nodes": [{"id": i(n.id), "pred": s(n.predicate), "type": s(n.type),
                   "props": [[s(k), s(v)] for k, v in n.properties.items()],
                   "carg": s(n.carg), "lnk": lnk_to_j(n.lnk), "surface": s(n.surface), "base": s(n.base)}
                  for n in d.nodes],
        "links": [{"start": i(l.start), "stop": i(l.end), "role": s(l.role), "post": s(l.post)} for l in d.links],
        "lnk": lnk_to_j(d.lnk), "surface": s(d.surface), "identifier": s(d.identifier)}


ERRS = [(simpledmrs.DMRSSyntaxError, "DMRSSyntaxError"), (predicate.PredicateError, "PredicateError"),
        (StopIteration, "StopIteration"), (KeyError, "KeyError"), (IndexError, "IndexError"),
        (ValueError, "ValueError"), (AttributeError, "AttributeError"), (TypeError, "TypeError")]


def guard(f, shape=lambda x: x):
    try:
        return {"ok": shape(f())}
    except Exception as e:   # mapped to the small enum of the model
        for cls, tag in ERRS:
            if isinstance(e, cls):
                return {"err": tag}
        return {"err": type(e).__name__}


def reparse(e):
    """through the XML text and back (the model's tree is the parsed one: empty text is no text)"""
    return etree.fromstring(etree.tostring(e, encoding="unicode"))


def lex(text):
    """tokens of the real SimpleDMRS lexer"""
    tt = simpledmrs._SimpleDMRSLexer.tokentypes
    return [[tt(gid).name, cps(form)] for gid, form, _, _, _ in
            simpledmrs._SimpleDMRSLexer.prelex(text.splitlines())]


def tree_to_j(e):
    def pairs(a):
        return [[cps(k), cps(v)] for k, v in a.items()]
    return {"attrs": pairs(e.attrib),
            "children": [{"tag": cps(m.tag), "attrs": pairs(m.attrib),
                          "children": [{"tag": cps(x.tag), "attrs": pairs(x.attrib), "text": ocps(x.text)}
                                       for x in m]} for m in e]}


def jv(x):
    if x is None:
        return None
    if isinstance(x, bool):
        raise TypeError(x)
    if isinstance(x, int):
        return x
    if isinstance(x, str):
        return {"s": cps(x)}
    if isinstance(x, list):
        return [jv(y) for y in x]
    if isinstance(x, dict):
        return {"o": [[cps(k), jv(v)] for k, v in x.items()]}
    raise TypeError(type(x))


def triples_to_j(ts):
    return [[cps(str(a)), cps(str(b)), cps(str(c))] for a, b, c in ts]


def py_indent(ind):
    return True if ind == "true" else False if ind == "false" else ind


def model_indent(ind):
    return 2 if ind == "true" else None if ind == "false" else ind


def x_indent(case):
    """the `indent` argument of the dmrx call of this case: 'LKB'/'Lkb'/'lkb' stand in for True when the case says so"""
    ind = case["indent"]
    if ind == "true" and case.get("lkb"):
        return case["lkb"]
    return py_indent(ind)


def x_model_indent(ind):
    return None if ind in (None, "false") else ind


# ------------------------------------------------------------------ domains (the property's quantifier, per format)

SYMBOL_RE = re.compile(r'[^\s"\'()\/:;<=>[\]{}]+')
LNK_RE = re.compile(r'<(?:-?\d+[:#]-?\d+|@\d+|\d+(?: +\d+)*)>')
PEN_ATOM_RE = re.compile(r"[\w+\-.*\u0301]+")
XML_NAME_RE = re.compile(r"[A-Za-z_][A-Za-z0-9_.\-]*")
PEN_ROLE_RE = re.compile(r"[^\W\d_][\w\-]*")
POSTS = ["EQ", "NEQ", "H", "HEQ"]
BAD_CHARS = set(chr(c) for c in list(range(0, 32)) + [0x7f, 0x85, 0x2028, 0x2029] + list(range(0x80, 0xa0)))


def text_ok(s):
    return s is None or not (set(s) & BAD_CHARS)


def is_symbol(s):
    return s is not None and SYMBOL_RE.fullmatch(s) is not None and text_ok(s)


def ascii_case_safe(s):
    """Python's case mapping agrees with the ASCII model on this string"""
    return all(ord(c) < 128 or (c.lower() == c and c.upper() == c) for c in s)


def lower_safe(s):
    """str.lower() agrees with the ASCII model: every non-ASCII character is its own lower case"""
    return all(ord(c) < 128 or c.lower() == c for c in s) and s.lower() == "".join(
        c.lower() if ord(c) < 128 else c for c in s)


def upper_safe(s):
    return all(ord(c) < 128 or c.upper() == c for c in s)


def normal_pred(p):
    """a predicate in the conventional form (the oracle's own statement, not predicate.normalize): lower
    case (str.lower, not casefold), no quotes, no _rel suffix"""
    return bool(p) and p == p.lower() and p[0] not in "\"'" and not p.lower().endswith("_rel")


def digits_safe(t):
    """`\\d` agrees with the ASCII model where it matters: no non-ASCII digit between a `<` and the next `>`
    (the only place where the lexer's LNK class looks at digits)"""
    return all(not c.isdigit() or c in "0123456789" for m in re.findall(r"<[^>]*>?", t) for c in m)


def islower_agree(rel):
    """str.islower() agrees with the ASCII model (some a-z, no A-Z)"""
    return rel.islower() == (any("a" <= c <= "z" for c in rel) and not any("A" <= c <= "Z" for c in rel))


def lnk_kind(l):
    return "none" if l is None or l.type == Lnk.UNSPECIFIED else \
        {Lnk.CHARSPAN: "charspan", Lnk.CHARTSPAN: "chartspan", Lnk.TOKENS: "tokens", Lnk.EDGE: "edge"}[l.type]


def common_domain(d):
    """what the property quantifies over for every format"""
    if d.top is not None and d.top < 10000 or d.index is not None and d.index < 10000:
        return False
    for n in d.nodes:
        if n.id < 10000 or not n.predicate or not text_ok(n.predicate) or not text_ok(n.carg):
            return False
        if n.type not in ("x", "e", "i", "u", "p", None):
            return False
        for k, v in n.properties.items():
            if not k or not v:
                return False
            if k.upper() != k or v.lower() != v or not text_ok(k) or not text_ok(v):
                return False
        if not text_ok(n.surface) or not text_ok(n.base):
            return False
    for l in d.links:
        if l.post not in POSTS or l.role == "" or not text_ok(l.role) or l.start < 10000 or l.end < 10000:
            return False
    return text_ok(d.surface) and text_ok(d.identifier)


def lnk_text_ok(l):
    return lnk_kind(l) == "none" or LNK_RE.fullmatch(str(l)) is not None


def lex_ok(d):
    """every printed piece of the SimpleDMRS text is one token of its class"""
    for n in d.nodes:
        if not is_symbol(n.predicate) or not lnk_text_ok(n.lnk):
            return False
        if n.type is not None and not is_symbol(n.type):
            return False
        if n.carg is not None and not text_ok(n.carg):
            return False
        for k, v in n.properties.items():
            if not is_symbol(k) or not is_symbol(v):
                return False
    for l in d.links:
        if l.role is not None and l.role != "" and not is_symbol(l.role):
            return False
        if not is_symbol(str(l.post)):
            return False
    if d.identifier is not None and not is_symbol(d.identifier):
        return False
    return lnk_text_ok(d.lnk) and text_ok(d.surface)


def case_safe_sd(d):
    """SimpleDMRS reads names with .upper() and values with .lower(): Python agrees with the ASCII model"""
    for n in d.nodes:
        for k, v in n.properties.items():
            if not upper_safe(k) or not lower_safe(v):
                return False
    return True


def case_guard(c, d):
    """None, or the reason why Python's case mapping may differ from the ASCII model for codec `c` on `d`"""
    if c == "j":
        return None                      # DMRS-JSON maps no case at all
    if c == "x":
        for n in d.nodes:
            if not lower_safe(n.predicate) or (n.type is not None and not lower_safe(n.type)):
                return "non-ASCII case mapping"
            if any(not ascii_case_safe(k) or not lower_safe(v) for k, v in n.properties.items()):
                return "non-ASCII case mapping"
            if set(n.predicate) & BAD_CHARS:
                return "control characters in a predicate"
        return None
    for n in d.nodes:                    # PENMAN: names lower then upper, roles upper, str.islower on relations
        if any(not ascii_case_safe(k) for k in n.properties):
            return "non-ASCII case mapping"
    for l in d.links:
        if l.role is not None and (not upper_safe(l.role) or not islower_agree(l.role.upper() + "-" + str(l.post))):
            return "non-ASCII case mapping"
    return None


def in_domain(codec, d):
    if not common_domain(d):
        return False
    if codec == "sd":
        return lex_ok(d)
    charspans = all(lnk_kind(n.lnk) in ("none", "charspan") for n in d.nodes) and lnk_kind(d.lnk) in ("none", "charspan")
    if codec == "x":
        for n in d.nodes:
            p = n.predicate
            if not normal_pred(p) or p.strip() != p:
                return False
            if any(k.lower().upper() != k for k in n.properties):
                return False
            if any(k.lower() == "cvarsort" or not XML_NAME_RE.fullmatch(k) for k in n.properties):
                return False
            if len({k.lower() for k in n.properties}) != len(n.properties):
                return False
        return charspans
    if codec == "j":
        return charspans and all("cvarsort" not in n.properties for n in d.nodes)
    if codec == "p":
        ids = [n.id for n in d.nodes]
        if len(set(ids)) != len(ids) or d.top is None or d.top not in ids or not charspans:
            return False
        for l in d.links:
            if l.role is None or not PEN_ROLE_RE.fullmatch(l.role) or l.start not in ids or l.end not in ids \
                    or l.role.upper() != l.role or (l.role + "-" + l.post).islower():
                return False
        for n in d.nodes:
            if not PEN_ATOM_RE.fullmatch(n.predicate):
                return False
            for k, v in n.properties.items():
                if not re.fullmatch(r"[A-Z][A-Z0-9]*", k) or not PEN_ATOM_RE.fullmatch(v):
                    return False
                if k.lower() in ("instance", "lnk", "carg", "cvarsort"):
                    return False
        return True
    raise ValueError(codec)


def component_of_top(d):
    adj = {n.id: set() for n in d.nodes}
    for l in d.links:
        adj[l.start].add(l.end)
        adj[l.end].add(l.start)
    seen, todo = set(), [d.top]
    while todo:
        x = todo.pop()
        if x not in seen:
            seen.add(x)
            todo.extend(adj[x])
    return seen


def penman_value_collision(d, o):
    """with properties written, some property value is spelled like a PENMAN variable this graph can get (`q`, `_` or
    a type letter, a position 1..n, then underscores): penman lays the other node out under the property edge"""
    if not o["properties"]:
        return False
    n = len(d.nodes)
    for nd in d.nodes:
        for text in nd.properties.values():
            m = re.fullmatch(r"(?:q|_|x|e|i|u|p)([1-9][0-9]*)_*", text)
            if m and int(m.group(1)) <= n:
                return True
    return False


def penman_value_is_variable(d, o):
    """EXACTLY the situation in which penman reads a property as an edge: in the triples written for `d`, the target of
    a property triple (lower-case role other than instance/lnk/carg) is the source of some :instance triple"""
    ts = dmrspenman.to_triples(d, **o)
    variables = {s_ for s_, r, _ in ts if r == ":instance"}
    return any(t in variables for _, r, t in ts
               if r not in (":instance", ":lnk", ":carg") and r[1:].islower())


def lnk_none(l):
    """no alignment: None, unspecified, or the character span <-1:-1> (stated here, not taken from Lnk.__bool__)"""
    return l is None or l.type == Lnk.UNSPECIFIED or (l.type == Lnk.CHARSPAN and tuple(l.data) == (-1, -1))


def lnk_eq(a, b):
    """same alignment; `None`, unspecified and <-1:-1> all mean: no alignment"""
    if lnk_none(a) and lnk_none(b):
        return True
    return lnk_to_j(a) == lnk_to_j(b)


def expected(codec, d, o):
    """The view of `d` that the property requires after decode(encode(d, **o)): plain dict, written
    naively from the property statement."""
    props, lnk = o["properties"], o["lnk"]
    type_in_sortinfo = codec in ("x", "j")
    nodes = list(d.nodes)
    links = list(d.links)
    ren = {n.id: n.id for n in nodes}
    if codec == "p":
        comp = component_of_top(d)
        order = [n for n in nodes if n.id == d.top] + [n for n in nodes if n.id != d.top]
        nodes = [n for n in order if n.id in comp]
        ren = {n.id: 10000 + i for i, n in enumerate(nodes)}
        links = [l for l in links if l.start in comp and l.end in comp]
    out_nodes = []
    for n in nodes:
        t = n.type
        if not props and type_in_sortinfo:
            t = None
        e = {"id": ren[n.id], "pred": n.predicate, "type": t,
             "props": dict(n.properties) if props else {}, "carg": n.carg,
             "lnk": n.lnk if lnk else None}
        if codec in ("x", "j"):
            e["surface"] = n.surface if lnk else None
            e["base"] = n.base if lnk else None
        out_nodes.append(e)
    res = {"nodes": out_nodes,
           "links": [(ren.get(l.start, l.start), ren.get(l.end, l.end), l.role, l.post) for l in links],
           "top": ren.get(d.top, d.top) if d.top is not None else None}
    if codec != "p":
        res["index"] = d.index
        res["glnk"] = d.lnk if lnk else None
        res["surface"] = d.surface if lnk else None
        res["identifier"] = d.identifier
    return res


def view_of(d):
    """a decoded PENMAN graph as a plain view (for comparisons up to renumbering)"""
    return {"nodes": [{"id": n.id, "pred": n.predicate, "type": n.type, "props": dict(n.properties), "carg": n.carg,
                       "lnk": n.lnk} for n in d.nodes],
            "links": [(l.start, l.end, l.role, l.post) for l in d.links], "top": d.top}


def same_up_to_renumbering(want, got):
    """Is there a bijection of node ids (top to top) under which nodes and the bag of links agree?
    Naive backtracking; nodes can only be matched with nodes of identical content."""
    wn, gn = want["nodes"], got["nodes"]
    if len(wn) != len(gn) or len(want["links"]) != len(got["links"]):
        return False

    def sig(n):
        return (n["pred"], n["type"], tuple(sorted(n["props"].items())), n["carg"],
                canon(None if lnk_none(n["lnk"]) else lnk_to_j(n["lnk"])))
    gl = sorted(map(repr, got["links"]))

    def rec(i, m, used):
        if i == len(wn):
            if want["top"] is not None and m.get(want["top"]) != got["top"]:
                return False
            return sorted(repr((m[a], m[b], r, p)) for a, b, r, p in want["links"]) == gl
        for j, g in enumerate(gn):
            if j not in used and sig(g) == sig(wn[i]):
                if wn[i]["id"] == want["top"] and g["id"] != got["top"]:
                    continue
                m[wn[i]["id"]] = g["id"]
                if rec(i + 1, m, used | {j}):
                    return True
                del m[wn[i]["id"]]
        return False
    return rec(0, {}, frozenset())


def compare_view(cname, want, got):
    """field-by-field; returns list of (clause, detail)"""
    out = []

    def fail(field, detail, node=None):
        out.append(("%s: %s not preserved by decode(encode(d))" % (cname, field),
                    {"codec": cname, "field": field, "node": node, "detail": detail}))
    if len(want["nodes"]) != len(got.nodes):
        fail("number of nodes", [len(want["nodes"]), len(got.nodes)])
        return out
    for i, (w, g) in enumerate(zip(want["nodes"], got.nodes)):
        if w["id"] != g.id:
            fail("node identifier", [w["id"], g.id], i)
        if w["pred"] != g.predicate:
            fail("predicate", [w["pred"], g.predicate], i)
        if w["type"] != g.type:
            fail("node type", {"want": w["type"], "got": g.type}, i)
        if w["props"] != g.properties:
            fail("properties", [w["props"], g.properties], i)
        if w["carg"] != g.carg:
            fail("constant", [w["carg"], g.carg], i)
        if not lnk_eq(w["lnk"], g.lnk):
            fail("surface alignment", [str(w["lnk"]), str(g.lnk)], i)
        if "surface" in w and (w["surface"] != g.surface or w["base"] != g.base):
            fail("node surface/base string", [w["surface"], g.surface, w["base"], g.base], i)
    gl = [(l.start, l.end, l.role, l.post) for l in got.links]
    if want["links"] != gl:
        fail("links (start, end, role, post)", [want["links"], gl])
    if want["top"] != got.top:
        fail("top", [want["top"], got.top])
    if "index" in want:
        if want["index"] != got.index:
            fail("index", [want["index"], got.index])
        if not lnk_eq(want["glnk"], got.lnk):
            fail("graph-level lnk", [str(want["glnk"]), str(got.lnk)])
        if want["surface"] != got.surface:
            fail("graph-level surface", [want["surface"], got.surface])
        if want["identifier"] != got.identifier:
            fail("graph identifier", [want["identifier"], got.identifier])
    return out


# ------------------------------------------------------------------ generators

PREDS = ["_rain_v_1", "_dog_n_1", "_the_q", "named", "udef_q", "_big_a_1", "neg", "_and_c", "pron", "_in_p_loc",
         "_a_n", "_a_b_n_1", "_a_n_1_2", "_abc", "_", "compound", "_x-y_a_1", "_a+b_n_1", "_look_v_up-at",
         "card", "_a.b_n_1", "_é_n_1", "_日本_n_1", "a_b", "_1_n_2", "_a_u_unknown", "_a_z_1", "_a_n_",
         "_straße_n_1", "_ﬁn_n_1", "_ſo_a_1", "_ısı_v_1", "_λόγος_n_1", "_σοφία_n_1", "_cafe\u0301_n_1", "_café_n_1",
         "_ａｂｃ_n_1", "straße_q", "_maß_n_ß", "x1", "e2", "q1", "x1_", "_2", "e2__"]
ODD_PREDS = ["_Dog_n_1", "_dog_n_1_rel", "\"_dog_n_1_rel\"", "'dog", "_a_n_rel_rel", "a b", "_a b_n_1", " x", "_a_N_1",
             "_a(b_n_1", "_a\"b_n_1", "a:b", "_a/b_n_1", "<x>", "_REL", "_rel", "rel", "x_rel", "_a_n_1_REL", "dmrs", "x=y",
             "_Straße_n_1", "_İstanbul_n_1", "_ΣΟΦΟΣ_n_1", "_ＡＢ_n_1", "_ǅ_n_1", "_a\u2028b_n_1", "_a\x85b_n_1", "_a\x0cb_n_1",
             "_straße_n_1_ＲＥＬ", "_a\u3000b_n_1"]
TYPES = ["x", "e", "i", "u", "p", None]
PROP_POOL = [("TENSE", ["past", "pres", "untensed"]), ("NUM", ["sg", "pl"]), ("PERS", ["3", "1"]), ("IND", ["+", "-"]),
             ("GEND", ["m-or-f", "n"]), ("SF", ["prop", "prop-or-ques"]), ("MOOD", ["indicative"]), ("PERF", ["-"]),
             ("PROG", ["+"]), ("PT", ["std"]), ("X1", ["y", "ﬁ"]), ("ZED", ["a.b", "ς"]), ("ASPECT", ["u"]), ("A", ["b"]),
             ("SF", ["straße"]), ("MOOD", ["ſıe\u0301", "ａ"]), ("ΑΣ", ["ς"]),
             # values that look like the PENMAN variables of other nodes (type letter or q/_ + 1-based position)
             ("PT", ["x1", "e2", "q1", "_1", "x2", "i3", "x1_"]), ("GEND", ["e1", "_2", "q2", "e2_"])]
ODD_PROPS = [("tense", "past"), ("TENSE", "PAST"), ("Tense", "Past"), ("cvarsort", "x"), ("CVARSORT", "x"),
             ("A B", "c"), ("A", "b c"), ("É", "é"), ("A=B", "c"), ("INSTANCE", "x"), ("LNK", "x"), ("CARG", "x"),
             ("1", "2"), ("K", ""), ("SF", "STRASSE"), ("SF", "ΟΔΟΣ"), ("SF", "İ"), ("STRAßE", "x"), ("ǅ", "ǅ")]
ROLES = ["ARG1", "ARG2", "ARG3", "RSTR", "L-INDEX", "R-HNDL", "MOD", "ARG", "ARG1", "ARGΣ", "ＡＲＧ１", "ARG-日", "ARGẞ", "İX",
         "ϴ1"]
ODD_ROLES = [None, "", "arg1", "A B", "Arg1", ":X", "1", "A/B", "straße", "ARGß", "ﬁ", "argς"]
TEXT_PIECES = ["a", "b", "Kim", " ", "\"", "\\", "\\\\", "\\\"", "'", "é", "日本", "\U0001F600", "<", ">", "&", "(", ")",
               ":", ";", "=", "[", "]", "{", "}", "/", "#", "@", "-1", "0", "&amp;", " ", "x y", "\"\"", "\\n",
               "ß", "ς", "σ", "Σ", "ﬁ", "ſ", "İ", "ı", "e\u0301", "é", "ａ", "Ａ", "Straße", "ǅ"]
LINE_PIECES = ["\x0b", "\x0c", "\x1c", "\x1d", "\x1e", "\x85", "\u2028", "\u2029", "\t", "\n", "\r\n"]
IDENTS = ["id1", "x-1", "42", "dmrs", "a.b", "É"]
ODD_IDENTS = ["", "a b", "a\"b", "{"]


def gen_text(rng, allow_empty=True, odd=False):
    n = rng.choice([0, 1, 1, 2, 2, 3, 4, 6]) if allow_empty else rng.choice([1, 1, 2, 3, 5])
    pieces = [rng.choice(TEXT_PIECES) for _ in range(n)]
    if odd:   # Unicode line boundaries: outside the property's quantifier, model correspondence only
        pieces.insert(rng.randrange(len(pieces) + 1), rng.choice(LINE_PIECES))
    return "".join(pieces)


def gen_lnk(rng, odd):
    r = rng.random()
    if r < 0.3:
        return None
    if r < 0.8:
        a = rng.choice([0, 1, 5, 10, 123])
        return ["c", a, a + rng.choice([0, 1, 4, 30])]
    if r < 0.88:
        return ["c", -1, -1]
    if not odd:
        return ["c", rng.choice([-1, 0, 7]), rng.choice([-1, 3, 12])]
    k = rng.choice(["v", "t", "e", "t0", "tneg", "eneg"])
    if k == "v":
        return ["v", rng.choice([0, 2, -1]), rng.choice([1, 5])]
    if k == "t":
        return ["t", [rng.randrange(0, 30) for _ in range(rng.choice([1, 2, 3]))]]
    if k == "e":
        return ["e", rng.randrange(0, 500)]
    if k == "t0":
        return ["t", []]
    if k == "tneg":
        return ["t", [-1, 2]]
    return ["e", -3]


def gen_dmrs(rng, odd=0.0, max_nodes=7):
    """constructor arguments as JSON.  `odd` is the probability of stepping outside some format's domain."""
    def isodd():
        return rng.random() < odd
    n = rng.choice([0, 1, 1, 1, 2, 2, 2, 3, 3, 4, 5, max_nodes])
    base = 10000 + rng.choice([0, 0, 0, 1, 7, 90000])
    offs = list(range(n)) if rng.random() < 0.6 else rng.sample(range(0, 3 * n + 3), n)
    if rng.random() < 0.3:
        rng.shuffle(offs)
    ids = [base + o for o in offs]
    if n >= 2 and isodd() and rng.random() < 0.3:
        ids[1] = ids[0]
    nodes = []
    for i in range(n):
        pred = rng.choice(ODD_PREDS) if isodd() else rng.choice(PREDS)
        ty = rng.choice(["h", "ei", "", "X", "u1"]) if isodd() and rng.random() < 0.5 else rng.choice(TYPES)
        props = []
        for _ in range(rng.choice([0, 0, 1, 1, 2, 3, 5])):
            if isodd():
                k, v = rng.choice(ODD_PROPS)
            else:
                k, vs = rng.choice(PROP_POOL)
                v = rng.choice(vs)
            if k not in [p[0] for p in props]:
                props.append([k, v])
        carg = gen_text(rng, odd=isodd() and rng.random() < 0.4) if rng.random() < 0.35 else None
        nodes.append({"id": ids[i], "pred": cps(pred), "type": ocps(ty), "props": [[cps(k), cps(v)] for k, v in props],
                      "carg": ocps(carg), "lnk": gen_lnk(rng, isodd()),
                      "surface": ocps(gen_text(rng)) if rng.random() < 0.2 else None,
                      "base": ocps(gen_text(rng)) if rng.random() < 0.12 else None})
    links = []
    if n:
        connected = rng.random() < 0.75
        order = list(range(n))
        if connected:
            for i in range(1, n):
                j = rng.randrange(0, i)
                a, b = (ids[i], ids[j]) if rng.random() < 0.5 else (ids[j], ids[i])
                links.append([a, b])
        for _ in range(rng.choice([0, 0, 1, 2]) if connected else rng.choice([0, 1, 2, 3])):
            links.append([rng.choice(ids), rng.choice(ids)])
        rng.shuffle(links)
        del order
    jl = []
    for a, b in links:
        role = rng.choice(ODD_ROLES) if isodd() else rng.choice(ROLES)
        post = rng.choice(POSTS)
        if role == "MOD":
            post = "EQ"
        if isodd() and rng.random() < 0.2:
            post = rng.choice(["", "NIL", "eq", None, "A-B"])
        if isodd() and rng.random() < 0.15:
            b = b + 50
        jl.append({"start": a, "stop": b, "role": ocps(role), "post": ocps(post)})
    top = rng.choice(ids) if n and rng.random() < 0.85 else None
    if n and rng.random() < 0.5:
        top = ids[0] if rng.random() < 0.5 else top
    index = rng.choice(ids) if n and rng.random() < 0.6 else None
    if isodd() and rng.random() < 0.3:
        top = rng.choice([0, 5, 10000 + 777])
    if isodd() and rng.random() < 0.2:
        index = rng.choice([0, 10000 + 778])
    if rng.random() < 0.15:     # legacy top link from node 0
        tgt = rng.choice(ids) if n else 10000
        pos = rng.randrange(0, len(jl) + 1)
        jl.insert(pos, {"start": 0, "stop": tgt, "role": None, "post": cps("H")})
        if rng.random() < 0.6:
            top = None
        if rng.random() < 0.2:
            jl.insert(rng.randrange(0, len(jl) + 1), {"start": 0, "stop": 10000 + 5, "role": cps("X"), "post": cps("EQ")})
    return {"top": top, "index": index, "nodes": nodes, "links": jl,
            "lnk": gen_lnk(rng, isodd()) if rng.random() < 0.6 else None,
            "surface": ocps(gen_text(rng, odd=isodd() and rng.random() < 0.4)) if rng.random() < 0.5 else None,
            "identifier": ocps(rng.choice(ODD_IDENTS) if isodd() else rng.choice(IDENTS)) if rng.random() < 0.35 else None}


def node_j(i, pred, ty=None, props=(), carg=None, lnk=None, surface=None, base=None):
    return {"id": i, "pred": cps(pred), "type": ocps(ty), "props": [[cps(k), cps(v)] for k, v in props],
            "carg": ocps(carg), "lnk": lnk, "surface": ocps(surface), "base": ocps(base)}


def link_j(a, b, role, post):
    return {"start": a, "stop": b, "role": ocps(role), "post": ocps(post)}


def dmrs_j(top, index, nodes, links, lnk=None, surface=None, identifier=None):
    return {"top": top, "index": index, "nodes": nodes, "links": links, "lnk": lnk, "surface": ocps(surface),
            "identifier": ocps(identifier)}


def witnesses():
    """the corners named by the property and the past findings F10-F14, F36, F37"""
    w = []
    w.append(("untyped-props", dmrs_j(10000, 10000, [node_j(10000, "_rain_v_1", None, [("TENSE", "past")])], [])))
    w.append(("type-u", dmrs_j(10000, None, [node_j(10000, "_x_n_1", "u")], [])))
    w.append(("type-u-props", dmrs_j(10000, None, [node_j(10000, "_x_n_1", "u", [("NUM", "sg")], lnk=["c", 0, 1])], [])))
    w.append(("quote-carg", dmrs_j(10000, None, [node_j(10000, "named", "x", carg="a\"b")], [])))
    w.append(("backslash-carg", dmrs_j(10000, None, [node_j(10000, "named", "x", carg="a\\")], [], surface="s\\\"")))
    w.append(("no-lnk", dmrs_j(10000, 10000, [node_j(10000, "_rain_v_1", "e")], [])))
    w.append(("empty-surface", dmrs_j(10000, 10000, [node_j(10000, "_rain_v_1", "e", surface="", base="", carg="")], [],
                                      surface="")))
    w.append(("props-upper", dmrs_j(10000, None, [node_j(10000, "_x_n_1", "x", [("NUM", "sg"), ("PERS", "3")])], [])))
    w.append(("legacy-top", dmrs_j(None, None, [node_j(10000, "_rain_v_1", "e")], [link_j(0, 10000, None, "H")])))
    w.append(("legacy-top-ignored", dmrs_j(10001, None, [node_j(10000, "a", "e"), node_j(10001, "b", "x")],
                                           [link_j(10000, 10001, "ARG1", "NEQ"), link_j(0, 10000, None, "H")])))
    w.append(("mod-eq", dmrs_j(10000, 10001, [node_j(10000, "_a_a_1", "e", lnk=["c", 0, 1]), node_j(10001, "_b_n_1", "x", lnk=["c", 2, 3])],
                               [link_j(10000, 10001, "MOD", "EQ"), link_j(10000, 10001, "ARG1", "EQ"),
                                link_j(10001, 10000, "ARG2", "HEQ"), link_j(10001, 10000, "ARG3", "H")],
                               lnk=["c", 0, 3], surface="a b", identifier="i-1")))
    w.append(("undirected-eq", dmrs_j(10000, None, [node_j(10000, "a", "e"), node_j(10001, "b", "e")],
                                      [link_j(10000, 10001, None, "EQ")])))
    w.append(("top-second", dmrs_j(10001, 10000, [node_j(10000, "_a_q", None), node_j(10001, "_b_n_1", "x", [("IND", "+")]),
                                                   node_j(10002, "_c_v_1", "e", [("TENSE", "past"), ("SF", "prop"), ("ZED", "a.b")])],
                                   [link_j(10000, 10001, "RSTR", "H"), link_j(10002, 10001, "ARG1", "NEQ")])))
    w.append(("disconnected", dmrs_j(10000, None, [node_j(10000, "a", "e"), node_j(10001, "b", "x"), node_j(10002, "c", "x")],
                                     [link_j(10001, 10002, "ARG1", "NEQ")])))
    w.append(("empty", dmrs_j(None, None, [], [])))
    # corners that independent seeded changes have hit (kept deterministic)
    w.append(("hyphen-roles", dmrs_j(10000, 10000, [node_j(10000, "_and_c", "e", lnk=["c", 0, 3]), node_j(10001, "_a_v_1", "e", lnk=["c", 4, 5]),
                                                    node_j(10002, "_b_v_1", "e", lnk=["c", 6, 7])],
                                     [link_j(10000, 10001, "L-INDEX", "NEQ"), link_j(10000, 10002, "R-INDEX", "NEQ"),
                                      link_j(10000, 10001, "L-HNDL", "H"), link_j(10000, 10002, "R-HNDL", "HEQ")])))
    w.append(("zero-width-spans", dmrs_j(10000, 10000, [node_j(10000, "_x_n_1", "x", [("NUM", "sg")], lnk=["c", 4, 4]),
                                                        node_j(10001, "udef_q", None, lnk=["c", 0, 0])],
                                         [link_j(10001, 10000, "RSTR", "H")], lnk=["c", 4, 4], surface="")))
    w.append(("index-no-top", dmrs_j(None, 10001, [node_j(10000, "_a_q", None), node_j(10001, "_b_n_1", "x")],
                                     [link_j(10000, 10001, "RSTR", "H")])))
    w.append(("u-props-and-untyped-props", dmrs_j(10000, 10001, [node_j(10000, "_a_n_1", "u", [("NUM", "pl"), ("IND", "+")], lnk=["c", 0, 1]),
                                                                 node_j(10001, "_b_n_1", None, [("PERS", "3")], carg="c")],
                                                  [link_j(10000, 10001, "ARG1", "NEQ")])))
    # round 6: classes of input that adversarial edits hit (kept deterministic)
    w.append(("lnk-kinds", dmrs_j(10000, 10001, [node_j(10000, "_a_n_1", "x", lnk=["t", [3, 1, 2]]), node_j(10001, "_b_v_1", "e", lnk=["e", 7]),
                                                 node_j(10002, "_c_a_1", "e", lnk=["v", 2, 5]), node_j(10003, "_d_n_1", "x", lnk=["t", [12]]),
                                                 node_j(10004, "_e_n_1", "x", lnk=["c", -1, 3]), node_j(10005, "_f_n_1", "x", lnk=["c", 3, -1])],
                                  [link_j(10001, 10000, "ARG1", "NEQ")], lnk=["t", [9, 8]], surface="s")))
    w.append(("half-spans", dmrs_j(10000, 10000, [node_j(10000, "_e_n_1", "x", [("NUM", "sg")], lnk=["c", -1, 3]),
                                                  node_j(10001, "_f_n_1", "x", lnk=["c", 3, -1]), node_j(10002, "_g_n_1", "x", lnk=["c", -1, 0])],
                                   [link_j(10000, 10001, "ARG1", "NEQ"), link_j(10001, 10002, "ARG2", "EQ")], lnk=["c", -1, 9], surface="t")))
    big = 2 ** 63
    w.append(("huge-numbers", dmrs_j(10000 + 2 ** 32, 10000 + big,
                                     [node_j(10000 + 2 ** 32, "_a_n_1", "x", [("NUM", "sg")], lnk=["c", 2 ** 31 - 1, 2 ** 31]),
                                      node_j(10000 + big, "_b_v_1", "e", lnk=["c", 2 ** 32, big + 1]),
                                      node_j(99999999999999999999, "_c_v_1", "e", lnk=["c", 4294967295, 4294967296])],
                                     [link_j(10000 + big, 10000 + 2 ** 32, "ARG1", "NEQ"), link_j(99999999999999999999, 10000 + big, "ARG2", "H")],
                                     lnk=["c", 0, big], surface="h")))
    w.append(("two-legacy-links", dmrs_j(None, None, [node_j(10000, "a", "e"), node_j(10001, "b", "x")],
                                         [link_j(0, 10001, None, "H"), link_j(10000, 10001, "ARG1", "NEQ"), link_j(0, 10000, None, "H")])))
    w.append(("two-legacy-links-top", dmrs_j(10000, None, [node_j(10000, "a", "e"), node_j(10001, "b", "x")],
                                             [link_j(0, 10001, None, "H"), link_j(0, 10000, "X", "EQ"), link_j(10000, 10001, "ARG1", "NEQ")])))
    w.append(("penman-collisions", dmrs_j(10001, 10001, [node_j(10000, "_the_q", None, lnk=["c", 0, 3]),
                                                         node_j(10001, "x1", "x", [("PT", "x2"), ("GEND", "q1"), ("NUM", "e3")], carg="x2", lnk=["c", 4, 7]),
                                                         node_j(10002, "e2", "e", [("PT", "e3"), ("TENSE", "x2")], lnk=["c", 8, 9]),
                                                         node_j(10003, "_u_n_1", None, [("PT", "_4"), ("GEND", "_1")], carg="_4")],
                                          [link_j(10000, 10001, "RSTR", "H"), link_j(10002, 10001, "ARG1", "NEQ"), link_j(10002, 10003, "ARG2", "NEQ")])))
    w.append(("penman-value-collisions", dmrs_j(10001, 10001, [node_j(10000, "_the_q", None, lnk=["c", 0, 3]),
                                                               node_j(10001, "_dog_n_1", "x", [("PT", "e3"), ("GEND", "q1"), ("NUM", "x2")], carg="x2", lnk=["c", 4, 7]),
                                                               node_j(10002, "_bark_v_1", "e", [("PT", "x2"), ("TENSE", "_4")], lnk=["c", 8, 9]),
                                                               node_j(10003, "_u_n_1", None, [("PT", "_4"), ("GEND", "q1")], carg="_4")],
                                                [link_j(10000, 10001, "RSTR", "H"), link_j(10002, 10001, "ARG1", "NEQ"), link_j(10002, 10003, "ARG2", "NEQ")])))
    w.append(("fresh-chain", dmrs_j(10000, None, [node_j(10000, "_v_v_1", "x"), node_j(10001, "x1", "e"), node_j(10002, "x1_", "e"),
                                                  node_j(10003, "x1__", "i"), node_j(10004, "e2", None), node_j(10005, "_5", None)],
                                    [link_j(10000, 10001, "ARG1", "NEQ"), link_j(10000, 10002, "ARG2", "NEQ"), link_j(10000, 10003, "ARG3", "NEQ"),
                                     link_j(10001, 10004, "ARG1", "EQ"), link_j(10004, 10005, "ARG1", "NEQ")])))
    w.append(("twins", dmrs_j(10002, 10001, [node_j(10000, "_a_n_1", "x", [("NUM", "sg")], carg="c", lnk=["c", 0, 1]),
                                           node_j(10001, "_b_v_1", "e", lnk=["c", 2, 3]),
                                           node_j(10002, "_a_n_1", "x", [("NUM", "sg")], carg="c", lnk=["c", 4, 5]),
                                           node_j(10003, "_a_n_1", "x", [("NUM", "sg")], carg="c", lnk=["c", 0, 1])],
                              [link_j(10001, 10000, "ARG1", "NEQ"), link_j(10001, 10002, "ARG2", "NEQ"), link_j(10003, 10002, "ARG1", "EQ")])))
    w.append(("same-key-nodes", dmrs_j(10000, None, [node_j(10000, "_a_n_1", "x", [("NUM", "sg")]), node_j(10001, "_a_n_1", "x", [("NUM", "pl")]),
                                                     node_j(10002, "_a_n_1", "x", [("PERS", "3")]), node_j(10003, "_a_n_1", "x")],
                                       [link_j(10000, 10001, "ARG1", "NEQ"), link_j(10001, 10002, "ARG1", "NEQ"), link_j(10002, 10003, "ARG1", "NEQ")])))
    return w


def long_doc(shift, total, variant, o):
    """Deterministic multi-graph document: the first graph is padded so that its SimpleDMRS encoding has
    `shift` more tokens than the unpadded one (properties are 3 tokens, type and lnk 1 each), then a fixed
    cycle of small graphs until the one-line text has more than `total` lexer tokens.  Graph boundaries
    therefore fall at different offsets around the multiples of the lexer's 1024-token look-ahead buffer."""
    a, b = divmod(shift, 3)
    props = [("P%d" % i, "v%d" % i) for i in range(a)]
    first = dmrs_j(10000, 10000,
                   [node_j(10000, "_pad_v_1", "e" if b >= 1 else None, props, lnk=["c", 0, 3] if b >= 2 else None)], [])
    cycle = [
        dmrs_j(10000, 10000, [node_j(10000, "_rain_v_1", "e", [("TENSE", "past"), ("SF", "prop")], lnk=["c", 0, 5])], [],
               lnk=["c", 0, 5], surface="it rains", identifier="i1"),
        dmrs_j(10001, None, [node_j(10000, "_the_q", None, lnk=["c", 0, 3]), node_j(10001, "_dog_n_1", "x", [("NUM", "sg")], lnk=["c", 4, 7]),
                             node_j(10002, "named", "x", [("PERS", "3")], carg="Kim \"K\"", lnk=["c", 8, 11])],
               [link_j(10000, 10001, "RSTR", "H"), link_j(10001, 10002, "MOD", "EQ")]),
        dmrs_j(10000, None, [node_j(10000, "_x_n_1", None, [("IND", "+")])], []),
        dmrs_j(10000, 10001, [node_j(10000, "_a_a_1", "e"), node_j(10001, "_b_n_1", "x")],
               [link_j(10000, 10001, "ARG1", "EQ"), link_j(10000, 10001, None, "EQ")], identifier="x-2"),
        dmrs_j(None, None, [], []),
        dmrs_j(10000, None, [node_j(10000, "udef_q", None), node_j(10001, "_c_n_1", "x", [("A", "b")])],
               [link_j(10000, 10001, "RSTR", "H")]),
    ]
    cycle = cycle[variant % len(cycle):] + cycle[:variant % len(cycle)]
    ds = [first]
    n = len(lex(simpledmrs.encode(build(first), **o)))
    i = 0
    while n <= total:
        g = cycle[i % len(cycle)]
        ds.append(copy.deepcopy(g))
        n += len(lex(simpledmrs.encode(build(g), **o)))
        i += 1
    return ds


def big_graph(k):
    """one DMRS whose SimpleDMRS text has well over 1024 tokens"""
    nodes = [node_j(10000 + i, "_n%d_n_1" % i, ["x", "e", None, "i"][i % 4], [("NUM", "sg")] if i % 3 == 0 else [],
                    carg="c%d" % i if i % 5 == 0 else None, lnk=["c", i, i + 1] if i % 2 == 0 else None) for i in range(k)]
    links = [link_j(10000 + i, 10000 + i - 1, "ARG1" if i % 2 else None, "NEQ" if i % 2 else "EQ") for i in range(1, k)]
    return dmrs_j(10000, 10000 + k - 1, nodes, links, lnk=["c", 0, k], surface="s", identifier="big")


FULL = {"properties": True, "lnk": True}


def char_doc(codec, size, shift, variant, indent):
    """Deterministic multi-graph document for `codec` whose text is longer than `size` characters; the leading
    graph's text varies with `shift` (1..40 characters of constant), so that graph boundaries fall at
    different offsets around the multiples of the readers' block sizes (8192 / 16384 / 65536)."""
    mod = CODECS[codec]
    first = dmrs_j(10000, 10000, [node_j(10000, "_pad_v_1", "e", [("TENSE", "past")], carg="p" * shift, lnk=["c", 0, 3])], [])
    cycle = [
        dmrs_j(10000, 10000, [node_j(10000, "_rain_v_1", "e", [("TENSE", "past"), ("SF", "prop")], lnk=["c", 0, 5],
                                     surface="rains" if codec != "sd" else None)], [],
               lnk=["c", 0, 5], surface="it rains", identifier="i1"),
        dmrs_j(10000, None, [node_j(10000, "_the_q", None, lnk=["c", 0, 3]), node_j(10001, "_dog_n_1", "x", [("NUM", "sg")], lnk=["c", 4, 7]),
                             node_j(10002, "named", "x", [("PERS", "3")], carg="Kim \"K\" <&> straße", lnk=["c", 8, 11])],
               [link_j(10000, 10001, "RSTR", "H"), link_j(10001, 10002, "MOD", "EQ")]),
        dmrs_j(10000, None, [node_j(10000, "_x_n_1", "x", [("IND", "+")])], []),
        dmrs_j(10000, 10001, [node_j(10000, "_a_a_1", "e"), node_j(10001, "_b_n_1", "x")],
               [link_j(10000, 10001, "ARG1", "EQ"), link_j(10000, 10001, "ARG2", "NEQ")], identifier="x-2"),
        dmrs_j(10000, None, [node_j(10000, "udef_q", None), node_j(10001, "_c_n_1", "x", [("A", "b")], lnk=["c", 1, 2])],
               [link_j(10000, 10001, "RSTR", "H")]),
    ]
    cycle = cycle[variant % len(cycle):] + cycle[:variant % len(cycle)]
    ds = [first]
    n = len(mod.encode(build(first), indent=indent, **FULL))
    sizes = [len(mod.encode(build(g), indent=indent, **FULL)) for g in cycle]
    i = 0
    while n <= size + 200:
        ds.append(copy.deepcopy(cycle[i % len(cycle)]))
        n += sizes[i % len(cycle)]
        i += 1
    while len(mod.dumps([build(dj) for dj in ds], indent=indent, **FULL)) <= size:
        for _ in range(5):
            ds.append(copy.deepcopy(cycle[i % len(cycle)]))
            i += 1
    return ds


def churn_structures(seed):
    """12 different DMRSs of the same shape (so that freed objects' addresses are reused)"""
    out = []
    for k in range(12):
        t = (seed * 12 + k)
        out.append(dmrs_j(10000 + (t % 2), 10000,
                          [node_j(10000, "_w%d_n_%d" % (t, k), ["x", "e", "i"][t % 3], [("NUM", ["sg", "pl"][t % 2]), ("PERS", str(t % 3 + 1))],
                                  carg="c%d" % t, lnk=["c", t, t + 1 + k], surface="s%d" % t),
                           node_j(10001, "_v%d_v_1" % t, "e", [("TENSE", ["past", "pres"][k % 2])], lnk=["c", k, k + 2])],
                          [link_j(10001, 10000, "ARG%d" % (t % 3 + 1), ["NEQ", "EQ", "H"][k % 3])],
                          lnk=["c", 0, t], surface="surf%d" % t, identifier="id%d" % t))
    return out


OPTS = [{"properties": p, "lnk": l} for p in (True, False) for l in (True, False)]
INDENTS = [None, "true", "false", 0, 1, 2, 3, 4, 7]
LKBS = [None, None, "LKB", "Lkb", "lkb"]


class C02(Check):
    pid = "C02"
    quick_cases = 3000
    thorough_cases = 12000
    rule = ("distinct case JSON (structure x options x indent x API) with at least one node or link; "
            "decoder-only and predicate cases by their text")
    assumptions = [
        "xml.etree, json and penman are parameters: identity on the trees/dicts/triple lists the encoders build "
        "(side oracles: tree re-parse, penman re-parse of the triples, on every generated case)",
        "the SimpleDMRS regex lexer is not modelled: the model's token lists are compared with the real lexer's "
        "output on every generated text inside the lexical domain",
        "str.upper/lower are modelled for ASCII letters; generators keep property names, values, types and "
        "predicates where Python agrees",
    ]
    trusted_base = ["harness/c02.py oracle (expected(), compare_view(), in_domain())",
                    "hand-written model lean/Verif/C02/Model.lean tied to the code by correspondence only"]

    def tables(self):
        """Generated constants the model is stated over, and PINS: every regular expression, format string,
        key name, magic number and default value of the anchored code that the hand-written model (or the
        oracle) mirrors, read from the live objects / code objects on every run."""
        import types
        from delphin import lnk as lnk_mod, util as util_mod
        lit = tables.lean_strlit
        MESSAGE = ("invalid", "disconnected", "expected", "could not", "unexpected")

        def consts(fn):
            """string and number constants of a function, nested code objects (comprehensions, lambdas)
            included, in code order; docstrings, None/bool and message texts dropped"""
            code = fn if isinstance(fn, types.CodeType) else getattr(fn, "__func__", fn).__code__
            doc = None if isinstance(fn, types.CodeType) else fn.__doc__
            out = []

            def walk(c):
                if isinstance(c, types.CodeType):
                    for x in c.co_consts:
                        walk(x)
                elif isinstance(c, bool) or c is None:
                    return
                elif isinstance(c, str):
                    if c == doc or c.lower().startswith(MESSAGE) or c.startswith("<") and "locals>" in c:
                        return
                    out.append(c)
                elif isinstance(c, int):
                    out.append(str(c))
                elif isinstance(c, (tuple, frozenset)):
                    for x in (sorted(c, key=repr) if isinstance(c, frozenset) else c):
                        walk(x)
            walk(code)
            return out

        def strlist(name, xs):
            return "def %s : List String := [%s]" % (name, ", ".join(lit(x) for x in xs))

        def defaults(fn):
            return [repr(x) for x in (fn.__defaults__ or ())] + \
                   ["%s=%r" % kv for kv in sorted((fn.__kwdefaults__ or {}).items())]

        pos_cls = predicate._pos_re.pattern[1:-1]      # built from a set: iteration order is not fixed

        def rx(r):
            return [r.pattern.replace(pos_cls, "".join(sorted(pos_cls))), str(int(r.flags))]
        lines = ["def c02TopNodeId : Int := %d" % dmrs_mod.TOP_NODE_ID,
                 "def c02FirstNodeId : Int := %d" % dmrs_mod.FIRST_NODE_ID,
                 "def c02Cvarsort : String := %s" % lit(dmrs_mod.CVARSORT),
                 "def c02EqPost : String := %s" % lit(dmrs_mod.EQ_POST),
                 "def c02RestrictionRole : String := %s" % lit(dmrs_mod.RESTRICTION_ROLE),
                 "def c02Pos : String := %s" % lit("".join(sorted(predicate._POS))),
                 "def c02CommonProperties : List String := [%s]"
                 % ", ".join(lit(p) for p in sembase._COMMON_PROPERTIES)]
        # ---- pins
        lines.append(strlist("c02LexerTokens", [x for pat, name in simpledmrs._SimpleDMRSLexer.tokens for x in (pat, name)]))
        lines.append(strlist("c02SdFormats", [simpledmrs._node, simpledmrs._link]))
        for nm, fn in [("SdEncode", simpledmrs._encode), ("SdEncodeDmrs", simpledmrs._encode_dmrs),
                       ("SdEncodeAttrs", simpledmrs._encode_attrs), ("SdEncodeNode", simpledmrs._encode_node),
                       ("SdEncodeSortinfo", simpledmrs._encode_sortinfo), ("SdEncodeLink", simpledmrs._encode_link),
                       ("SdEscape", simpledmrs._escape), ("SdUnescape", simpledmrs._unescape),
                       ("SdDecodeDmrs", simpledmrs._decode_dmrs), ("SdDecodeNode", simpledmrs._decode_node),
                       ("SdDecodeLink", simpledmrs._decode_link), ("SdDecodeProps", simpledmrs._decode_properties),
                       ("SdDecodeList", simpledmrs._decode),
                       ("XEncodeDmrs", dmrx._encode_dmrs), ("XEncodeNode", dmrx._encode_node),
                       ("XEncodePred", dmrx._encode_pred), ("XEncodeLink", dmrx._encode_link),
                       ("XDecodeDmrs", dmrx._decode_dmrs), ("XDecodeNode", dmrx._decode_node),
                       ("XDecodePred", dmrx._decode_pred), ("XDecodeSortinfo", dmrx._decode_sortinfo),
                       ("XDecodeLink", dmrx._decode_link), ("XDecodeLnk", dmrx._decode_lnk),
                       ("XDecodeList", dmrx._decode), ("XEncodeList", dmrx._encode), ("XIndent", dmrx._indent),
                       ("XEncode", dmrx.encode), ("XDump", dmrx.dump), ("JEncode", dmrsjson.encode), ("JDumps", dmrsjson.dumps),
                       ("JDump", dmrsjson.dump), ("PEncode", dmrspenman.encode), ("PDumps", dmrspenman.dumps),
                       ("PDump", dmrspenman.dump), ("SdDump", simpledmrs.dump),
                       ("JToDict", dmrsjson.to_dict), ("JFromDict", dmrsjson.from_dict),
                       ("PToTriples", dmrspenman.to_triples), ("PFromTriples", dmrspenman.from_triples),
                       ("PEscape", dmrspenman._escape), ("PUnescape", dmrspenman._unescape),
                       ("NormalizeTop", dmrs_mod._normalize_top_and_links), ("NodeSortinfo", dmrs_mod.Node.sortinfo.fget),
                       ("DmrsInit", dmrs_mod.DMRS.__init__), ("IsQuantifier", dmrs_mod.DMRS.is_quantifier),
                       ("StripPredicate", predicate._strip_predicate), ("PredNormalize", predicate.normalize),
                       ("PredSplit", predicate.split), ("PredCreate", predicate.create),
                       ("PredIsSurface", predicate.is_surface), ("PropertyPriority", sembase.property_priority),
                       ("LnkInit", Lnk.__init__), ("LnkStr", Lnk.__str__), ("LnkBool", Lnk.__bool__),
                       ("LnkCfrom", lnk_mod.LnkMixin.cfrom.fget), ("LnkCto", lnk_mod.LnkMixin.cto.fget),
                       ("LnkCharspan", Lnk.charspan), ("Bfs", util_mod._bfs),
                       ("LexerPeek", util_mod.LookaheadIterator.peek), ("LexerNext", util_mod.LookaheadIterator.next),
                       ("LexerAccept", util_mod.LookaheadLexer.accept), ("LexerExpect", util_mod.LookaheadLexer.expect)]:
            lines.append(strlist("c02" + nm + "Consts", consts(fn)))
        lines.append(strlist("c02PredicateRegexes",
                             rx(predicate._lemma_re) + rx(predicate._pos_re) + rx(predicate._sense_re)
                             + rx(predicate._strict_predicate_re) + rx(predicate._robust_predicate_re)))
        lines.append(strlist("c02LnkTypes", [str(x) for x in (Lnk.UNSPECIFIED, Lnk.CHARSPAN, Lnk.CHARTSPAN, Lnk.TOKENS, Lnk.EDGE)]))
        lines.append(strlist("c02DmrxFrame", [dmrx.HEADER, dmrx.JOINER, dmrx.FOOTER, dmrsjson.HEADER, dmrsjson.JOINER, dmrsjson.FOOTER]))
        lines.append(strlist("c02DmrsConstants", [str(dmrs_mod.TOP_NODE_ID), str(dmrs_mod.FIRST_NODE_ID), dmrs_mod.RESTRICTION_ROLE,
                                                  dmrs_mod.BARE_EQ_ROLE, dmrs_mod.EQ_POST, dmrs_mod.HEQ_POST, dmrs_mod.NEQ_POST,
                                                  dmrs_mod.H_POST, dmrs_mod.NIL_POST, dmrs_mod.CVARSORT]))
        dl = []
        for mn, mod in (("simpledmrs", simpledmrs), ("dmrx", dmrx), ("dmrsjson", dmrsjson), ("dmrspenman", dmrspenman)):
            for fn in ("encode", "dumps", "dump"):
                dl.append("%s.%s(%s)" % (mn, fn, ", ".join(defaults(getattr(mod, fn)))))
        dl.append("to_dict(%s)" % ", ".join(defaults(dmrsjson.to_dict)))
        dl.append("to_triples(%s)" % ", ".join(defaults(dmrspenman.to_triples)))
        dl.append("LookaheadIterator(%s)" % ", ".join(defaults(util_mod.LookaheadIterator.__init__)))
        dl.append("LookaheadLexer(%s)" % ", ".join(defaults(util_mod.LookaheadLexer.__init__)))
        dl.append("peek(%s)" % ", ".join(defaults(util_mod.LookaheadIterator.peek)))
        dl.append("Node(%s)" % ", ".join(defaults(dmrs_mod.Node.__init__)))
        dl.append("DMRS(%s)" % ", ".join(defaults(dmrs_mod.DMRS.__init__)))
        lines.append(strlist("c02Defaults", dl))
        return lines

    # ---- generators
    def cases(self, rng, tier, n):
        count = 0
        for name, dj in witnesses():
            for o in OPTS:
                for ind, single in ((None, True), ("true", False)):
                    ds = [dj] if single else [dj, copy.deepcopy(dj)]
                    yield {"kind": "rt", "name": name, "ds": ds, "o": o, "indent": ind, "single": single}
                    count += 1
            # every indent setting x single/list on the full options (DMRX: _indent depths; 'LKB' spellings)
            for k, (ind, single) in enumerate((i, s_) for i in ("true", "false", 0, 1, 3) for s_ in (True, False)):
                ds = [dj] if single else [dj, copy.deepcopy(dj)]
                yield {"kind": "rt", "name": name, "ds": ds, "o": OPTS[0], "indent": ind, "single": single,
                       "lkb": LKBS[1 + k % 4] if ind == "true" else None}
                count += 1
        for p in PREDS + ODD_PREDS:
            yield {"kind": "pred", "p": cps(p)}
            count += 1
        core = ["{", "]", "(", "<0:5>", "<", "\"a\"", "\"", ":", "/", "=", ";", "--", "->", "-", "x", "-5", "a-", ">", "'", " ", "\n"]
        for a in self.LEX_PIECES:
            yield {"kind": "lex", "text": cps(a)}
            count += 1
        for a in core:
            for b in core:
                yield {"kind": "lex", "text": cps(a + b)}
                count += 1
        # long documents (the lexer's look-ahead buffer holds 1024 tokens), every run
        full = {"properties": True, "lnk": True}
        for shift in range(0, 12):
            total = 1100 if shift % 2 == 0 else 2200
            ind = [None, "true", 2][shift % 3]
            oo = full if shift % 4 else {"properties": False, "lnk": True}
            yield {"kind": "rt", "name": "long-%d" % shift, "long": True, "ds": long_doc(shift, total, shift, oo),
                   "o": oo, "indent": ind, "single": False}
            count += 1
        # long documents for every codec by text length (block-wise readers: 8 KiB / 16 KiB / 64 KiB)
        sizes = [(16384, [1, 2, 3, 7, 19, 40]), (65536, [5, 23])]
        if tier != "quick":
            sizes.append((131072, [11, 31]))
        for c in ("x", "j", "p", "sd"):
            for size, shifts in sizes:
                for i, sh in enumerate(shifts):
                    yield {"kind": "longdoc", "codec": c, "size": size, "shift": sh, "variant": i,
                           "indent": None if i % 2 == 0 else 2, "file": ["stringio", "path"][i % 2]}
                    count += 1
        # object churn: state keyed by object identity
        for seed in range(3):
            yield {"kind": "churn", "seed": seed, "o": OPTS[seed % 4]}
            count += 1
        for k, ind in ((130, None), (150, "true")):
            yield {"kind": "rt", "name": "big-%d" % k, "long": True, "ds": [big_graph(k)], "o": full, "indent": ind,
                   "single": True}
            count += 1
        yield from self.random_cases(rng, max(0, n - count))

    def random_cases(self, rng, n, kinds=None):
        for _ in range(n):
            r = rng.random()
            k = rng.choice(kinds) if kinds else ("rt" if r < 0.70 else "lex" if r < 0.80 else "sd_dec" if r < 0.915
                                                 else "churn" if r < 0.92 else "pred")
            if k == "lex":
                yield self.gen_lex(rng)
                continue
            if k == "churn":
                yield {"kind": "churn", "seed": rng.randrange(3, 10**6), "o": rng.choice(OPTS)}
                continue
            if k == "longdoc":
                k = "rt"
            if k == "rt":
                odd = rng.choice([0.0, 0.0, 0.0, 0.0, 0.1, 0.3])
                single = rng.random() < 0.6
                m = 1 if single else rng.choice([0, 1, 2, 2, 3])
                ds = [gen_dmrs(rng, odd) for _ in range(m)]
                ind = rng.choice(INDENTS)
                yield {"kind": "rt", "ds": ds, "o": rng.choice(OPTS), "indent": ind, "single": single,
                       "lkb": rng.choice(LKBS) if ind == "true" else None}
            elif k == "sd_dec":
                yield self.gen_sd_dec(rng)
            else:
                base = rng.choice(PREDS + ODD_PREDS)
                if rng.random() < 0.6:
                    t = list(base)
                    for _ in range(rng.choice([1, 1, 2])):
                        i = rng.randrange(len(t) + 1)
                        op = rng.random()
                        c = rng.choice(["_", "_", "n", "v", "q", "1", "a", " ", "\"", "'", "R", "r", "e", "l", "E", "L", "_rel"])
                        if op < 0.4 and t:
                            t[min(i, len(t) - 1)] = c
                        elif op < 0.75:
                            t.insert(i, c)
                        elif t:
                            del t[min(i, len(t) - 1)]
                    base = "".join(t)
                yield {"kind": "pred", "p": cps(base)}

    LEX_PIECES = ["{", "}", "[", "]", "(", ")", "<0:5>", "<-1:-1>", "<@3>", "<1 2 3>", "<1  2>", "<", "<a>", "<1:>", "<1:2", "<:2>",
                  "<@>", "<@-1>", "<1#2>", "<1#-2>", "< 1>", "<1 >", "<1:2:3>", "<12>", "<>", "<1:2>>", "<<1:2>", "<-1>", "<1 -2>",
                  "\"a\"", "\"a\\\"b\"", "\"\\\\\"", "\"a\\\"", "\"", "\"\"", "\"a b\"", "\"<1:2>\"", ":", "/", "=", ";", "--", "->",
                  "-", "<-", "-->", "->>", "---", "x", "ARG1", "_rain_v_1", "10000", "-5", "a-b", "a-", "-a", "a->b", "a--b", "--a",
                  "'", "x'y", ">", " ", "  ", "\t", "\u3000", "\xa0", "é", "日本", "ß", "\n", "\r\n", "\x0c", "\u2028", "\x85",
                  "\x1c", "\x1f", "\u200b", "\\", "a\\b", "top=1", "dmrs", ":ARG1/NEQ->", ":/EQ--", "10000:ARG1/NEQ -> 10001;",
                  "10000 [_x_n_1<0:1>(\"c\") e A=b];", "\u0661", "#", "@", "&", "."]

    def gen_lex(self, rng):
        r = rng.random()
        if r < 0.65:
            n = rng.choice([1, 2, 3, 4, 6, 9])
            sep = rng.choice(["", "", " ", ""])
            return {"kind": "lex", "text": cps(sep.join(rng.choice(self.LEX_PIECES) for _ in range(n)))}
        # a real encoding with blanks removed / doubled / characters touched
        dj = gen_dmrs(rng, rng.choice([0.0, 0.0, 0.2]), max_nodes=3)
        d = build(dj)
        try:
            t = list(simpledmrs.encode(d, indent=rng.choice([None, True, 1]), **rng.choice(OPTS)))
        except Exception:
            t = list("dmrs { }")
        for _ in range(rng.choice([1, 2, 3, 5])):
            if not t:
                break
            i = rng.randrange(len(t))
            op = rng.random()
            if op < 0.35 and t[i] in " \n":
                del t[i]
            elif op < 0.5:
                t.insert(i, rng.choice([" ", "\n", "\t"]))
            elif op < 0.75:
                t[i] = rng.choice(list("<>-\"\\:/=;()[]{}' x1#@"))
            else:
                del t[i]
        return {"kind": "lex", "text": cps("".join(t))}

    def gen_sd_dec(self, rng):
        """decoder-only: a real encoding with a few token-level edits (mostly invalid)"""
        for _ in range(20):
            dj = gen_dmrs(rng, 0.0, max_nodes=3)
            d = build(dj)
            if lex_ok(d) and common_domain(d):
                break
        single = rng.random() < 0.6
        o = rng.choice(OPTS)
        text = simpledmrs.encode(d, **o) if single else simpledmrs.dumps([d, d], **o)
        toks = re.findall(r'<[^>]*>|"(?:[^"\\]|\\.)*"|--|->|[^\s"\'()\/:;<=>\[\]{}]+|\S', text)
        for _ in range(rng.choice([0, 1, 1, 1, 2])):
            if not toks:
                break
            i = rng.randrange(len(toks))
            op = rng.random()
            if op < 0.4:
                del toks[i]
            elif op < 0.6:
                toks.insert(i, toks[rng.randrange(len(toks))])
            elif op < 0.8:
                toks[i] = rng.choice(["[", "]", "{", "}", ";", ":", "/", "=", "(", ")", "->", "--", "x", "10000", "1x", "-5",
                                      "\"s\"", "<1:2>", "<@3>", "<1 2>", "dmrs", "top", "INDEX=10000", "a=b", "'"])
            else:
                toks = toks[:i]
        return {"kind": "sd_dec", "text": cps(" ".join(toks)), "single": single}

    def search_cases(self, rng, tier, n, seeds):
        kinds = sorted({c.get("kind", "rt") for c in seeds}) or None
        for c in self.cases(rng, tier, 0):
            yield c
        yield from self.random_cases(rng, n, kinds)

    # ---- implementation
    def impl(self, case):
        k = case["kind"]
        if k == "pred":
            p = uncps(case["p"])

            def leaf():
                e = dmrx._encode_pred(p)
                return {"tag": cps(e.tag), "attrs": [[cps(a), cps(b)] for a, b in e.attrib.items()], "text": ocps(e.text)}
            return {"normalize": cps(predicate.normalize(p)), "is_surface": predicate.is_surface(p),
                    "enc": guard(leaf), "dec": guard(lambda: cps(dmrx._decode_pred(reparse(dmrx._encode_pred(p)))))}
        if k == "longdoc":
            mod = CODECS[case["codec"]]
            ds = [build(dj) for dj in char_doc(case["codec"], case["size"], case["shift"], case["variant"], case["indent"])]
            text = mod.dumps(ds, indent=case["indent"], **FULL)
            return {"graphs": len(ds), "chars": len(text)}
        if k == "churn":
            return {"n": 12}
        if k == "lex":
            try:
                return {"ok": lex(uncps(case["text"]))}
            except simpledmrs.DMRSSyntaxError:
                return {"err": "DMRSSyntaxError"}
        if k == "sd_dec":
            text = uncps(case["text"])
            try:
                lex(text)
            except simpledmrs.DMRSSyntaxError:
                return {"lex_error": True}
            if case["single"]:
                return guard(lambda: canon_dmrs(simpledmrs.decode(text)))
            return guard(lambda: [canon_dmrs(d) for d in simpledmrs.loads(text)])
        ds = [build(dj) for dj in case["ds"]]
        o = case["o"]
        single = case["single"]
        ind = py_indent(case["indent"])
        res = {"ctor": [canon_dmrs(d) for d in ds]}
        # SimpleDMRS: text, tokens of the one-line text of every graph, decode of the one-line text
        text = guard(lambda: cps(simpledmrs.encode(ds[0], indent=ind, **o) if single
                                 else simpledmrs.dumps(ds, indent=ind, **o)))
        flat = simpledmrs.encode(ds[0], **o) if single else simpledmrs.dumps(ds, **o)
        try:
            toks = [lex(simpledmrs.encode(d, **o)) for d in ds]
        except simpledmrs.DMRSSyntaxError:
            toks = None
        if single:
            dec = guard(lambda: canon_dmrs(simpledmrs.decode(flat)))
        else:
            dec = guard(lambda: [canon_dmrs(d) for d in simpledmrs.loads(flat)])
        def lexall(t):
            try:
                return {"ok": lex(t)}
            except simpledmrs.DMRSSyntaxError:
                return {"err": "DMRSSyntaxError"}
        indtext = uncps(text["ok"]) if "ok" in text else flat
        res["sd"] = {"text": text.get("ok", text), "toks": toks, "dec": dec, "flat": cps(flat),
                     "lexflat": lexall(flat), "lexindent": lexall(indtext)}
        res["x"] = [{"enc": guard(lambda d=d: tree_to_j(dmrx._encode_dmrs(d, o["properties"], o["lnk"]))),
                     "dec": guard(lambda d=d: canon_dmrs(dmrx._decode_dmrs(reparse(dmrx._encode_dmrs(d, o["properties"], o["lnk"])))))}
                    for d in ds]
        xind = x_indent(case)
        res["xtext"] = guard(lambda: cps(dmrx.encode(ds[0], indent=xind, **o) if single else dmrx.dumps(ds, indent=xind, **o)))
        res["j"] = [{"enc": jv(dmrsjson.to_dict(d, **o)),
                     "dec": guard(lambda d=d: canon_dmrs(dmrsjson.from_dict(dmrsjson.to_dict(d, **o))))} for d in ds]
        res["p"] = [{"enc": guard(lambda d=d: triples_to_j(dmrspenman.to_triples(d, **o))),
                     "dec": guard(lambda d=d: canon_dmrs(dmrspenman.from_triples(dmrspenman.to_triples(d, **o))))}
                    for d in ds]
        return res

    def model_request(self, case):
        k = case["kind"]
        if k in ("longdoc", "churn"):
            return None
        if k == "lex":
            return {"op": "lex", "text": case["text"]}
        if k == "pred":
            return {"op": "pred", "p": case["p"]}
        if k == "sd_dec":
            try:
                toks = lex(uncps(case["text"]))
            except simpledmrs.DMRSSyntaxError:
                return None
            return {"op": "sd_dec", "toks": toks, "single": case["single"]}
        return {"op": "rt", "ds": case["ds"], "o": case["o"], "indent": model_indent(case["indent"]),
                "xindent": x_model_indent(case["indent"]), "single": case["single"]}

    def model_compare(self, case, expected_, answer):
        """Field-by-field comparison of the model's answer with the implementation.  Every sub-comparison is
        counted in `self.tie` (evidence field `tie`): `<field>:compared`, `<field>:skipped:<guard>` when a guard
        says the model does not describe this input (named guard), `<field>:unmodelled` when the model itself
        answers `unmodelled`.  An `unmodelled` answer, or an implementation-side XML ParseError, on a case INSIDE
        the format's domain (`in_domain`) is a disagreement, not an agreement."""
        k = case["kind"]
        tie = self.tie

        def note(field, what):
            key = "%s:%s" % (field, what)
            tie[key] = tie.get(key, 0) + 1

        def unmodelled(x):
            return isinstance(x, dict) and x.get("err") == "unmodelled"

        def cmp(path, field, a, b, indomain):
            if unmodelled(b):
                note(field, "unmodelled")
                if indomain:
                    return {"at": path, "expected_from_impl": a, "model": b,
                            "why": "the model answers 'unmodelled' on a case inside the format's domain"}
                return None
            if isinstance(a, dict) and a.get("err") == "ParseError":
                note(field, "skipped:implementation ParseError")
                if indomain:
                    return {"at": path, "expected_from_impl": a, "model": b,
                            "why": "xml.etree rejects the encoder's output on a case inside the format's domain"}
                return None
            note(field, "compared")
            if canon(a) != canon(b):
                return {"at": path, "expected_from_impl": a, "model": b}
            return None
        if k == "pred":
            p = uncps(case["p"])
            if not lower_safe(p):
                note("pred", "skipped:non-ASCII case mapping")
                return None
            if set(p) & BAD_CHARS:
                note("pred", "skipped:control characters")
                return None
            for f in ("normalize", "is_surface", "enc", "dec"):
                r = cmp(f, "pred." + f, expected_[f], answer[f], True)
                if r:
                    return r
            return None
        if k == "lex":
            if not digits_safe(uncps(case["text"])):
                note("lex", "skipped:non-ASCII digits")
                return None
            return cmp("lex", "lex", expected_, answer, True)
        if k == "sd_dec":
            tk = lex(uncps(case["text"]))
            risky = [uncps(tk[i - 1][1]) for i in range(1, len(tk)) if tk[i][0] == "EQUALS"] + \
                    [uncps(tk[i + 1][1]) for i in range(len(tk) - 1) if tk[i][0] == "EQUALS"]
            if any(not (upper_safe(x) and lower_safe(x)) for x in risky) or not digits_safe(uncps(case["text"])):
                note("sd_dec", "skipped:non-ASCII case mapping")
                return None
            return cmp("sd_dec", "sd_dec", expected_, answer, True)
        ds = [build(dj) for dj in case["ds"]]
        r = cmp("ctor", "ctor", expected_["ctor"], answer["ctor"], True)
        if r:
            return r
        r = cmp("sd.text", "sd.text", expected_["sd"]["text"], answer["sd"]["text"], True)
        if r:
            return r
        sd_dom = all(in_domain("sd", d) for d in ds)
        guard = None
        if not all(lex_ok(d) for d in ds) or expected_["sd"]["toks"] is None:
            guard = "outside the lexical domain"
        elif not all(case_safe_sd(d) for d in ds):
            guard = "non-ASCII case mapping"
        if guard is None:
            for f in ("toks", "dec"):
                r = cmp("sd." + f, "sd." + f, expected_["sd"][f], answer["sd"][f], sd_dom)
                if r:
                    return r
            # the model's single-line layout of its token list is the text the real encoder writes
            if all(n.type != "" for d in ds for n in d.nodes) and all(d.identifier != "" for d in ds):
                r = cmp("sd.render", "sd.render", expected_["sd"]["flat"], answer["sd"]["render"], sd_dom)
                if r:
                    return r
                if model_indent(case["indent"]) is not None and isinstance(expected_["sd"]["text"], list):
                    r = cmp("sd.renderindent", "sd.renderindent", expected_["sd"]["text"], answer["sd"]["renderindent"], sd_dom)
                    if r:
                        return r
            else:
                note("sd.render", "skipped:empty type or identifier")
        else:
            for f in ("toks", "dec", "render"):
                note("sd." + f, "skipped:" + guard)
        # the character-level lexer model on the real texts (any text: inside or outside the lexical domain)
        flat = uncps(expected_["sd"]["flat"])
        if digits_safe(flat):
            r = cmp("sd.lexflat", "sd.lexflat", expected_["sd"]["lexflat"], answer["sd"]["lexflat"], True)
            if r:
                return r
            if isinstance(expected_["sd"]["text"], list) and digits_safe(uncps(expected_["sd"]["text"])):
                r = cmp("sd.lexindent", "sd.lexindent", expected_["sd"]["lexindent"], answer["sd"]["lexindent"], True)
                if r:
                    return r
            else:
                note("sd.lexindent", "skipped:encode raised or non-ASCII digits")
            ntok = len(expected_["sd"]["lexflat"].get("ok", []))
            if not all(case_safe_sd(d) for d in ds):
                note("sd.dectext", "skipped:non-ASCII case mapping")
            elif ntok >= 1000:
                note("sd.dectext", "skipped:1000 tokens or more (lazy lexer)")
            else:
                r = cmp("sd.dectext", "sd.dectext", expected_["sd"]["dec"], answer["sd"]["dectext"], sd_dom)
                if r:
                    return r
        else:
            for f in ("lexflat", "lexindent", "dectext"):
                note("sd." + f, "skipped:non-ASCII digits")
        # the DMRX text: _encode_dmrs, then dmrx._indent for this indent setting, then the ElementTree writer
        xguard = next((g for g in (case_guard("x", d) for d in ds) if g), None)
        if xguard is None and any(ch in k for d in ds for n in d.nodes for k in n.properties for ch in "{}"):
            xguard = "brace in an attribute name (ElementTree namespace syntax)"
        if xguard is not None:
            note("x.text", "skipped:" + xguard)
        else:
            r = cmp("xtext", "x.text", expected_["xtext"], answer["xtext"], all(in_domain("x", d) for d in ds))
            if r:
                return r
        for c in ("x", "j", "p"):
            for i, d in enumerate(ds):
                guard = case_guard(c, d)
                if guard is not None:
                    note(c + ".enc", "skipped:" + guard)
                    note(c + ".dec", "skipped:" + guard)
                    continue
                dom = in_domain(c, d)
                for f in ("enc", "dec"):
                    r = cmp("%s[%d].%s" % (c, i, f), "%s.%s" % (c, f), expected_[c][i][f], answer[c][i][f], dom)
                    if r:
                        return r
        return None

    def extra_evidence(self):
        tie = dict(sorted(self.tie.items()))
        return {"penman_text_alternations_accepted": getattr(self, "alternations", 0), "tie": tie,
                "tie_totals": {"compared": sum(v for k_, v in tie.items() if k_.endswith(":compared")),
                               "skipped": sum(v for k_, v in tie.items() if ":skipped:" in k_),
                               "unmodelled": sum(v for k_, v in tie.items() if k_.endswith(":unmodelled"))}}

    # ---- direct oracle (public API only, independent of the model)
    tie = {}

    def setup(self):
        self.tie = {}
        self.alternations = 0
        self.tmp = tempfile.mkdtemp(prefix="c02-", dir="/var/tmp")

    def teardown(self):
        shutil.rmtree(getattr(self, "tmp", ""), ignore_errors=True)

    def oracle_longdoc(self, case, fail):
        c = case["codec"]
        mod, cname = CODECS[c], CODEC_NAME[c]
        ind = case["indent"]
        ds = [build(dj) for dj in char_doc(c, case["size"], case["shift"], case["variant"], ind)]
        own = [canon_dmrs(mod.decode(mod.encode(d, indent=ind, **FULL))) for d in ds]
        text = mod.dumps(ds, indent=ind, **FULL)
        if len(text) <= case["size"]:
            fail("harness: long document is not longer than the block size", [len(text), case["size"]])

        def same(tag, back):
            if len(back) != len(ds):
                fail("%s: long document: %s returns a different number of graphs" % (cname, tag), [len(ds), len(back)])
                return
            for i, b in enumerate(back):
                if canon_dmrs(b) != own[i]:
                    fail("%s: long document: graph read by %s differs from its own round trip" % (cname, tag),
                         {"graph": i, "of": len(ds), "chars": len(text)})
                    return
        try:
            same("loads", mod.loads(text))
            if case["file"] == "stringio":
                buf = io.StringIO()
                mod.dump(ds, buf, indent=ind, **FULL)
                if buf.getvalue().rstrip("\n") != text.rstrip("\n"):
                    fail("%s: long document: dump() differs from dumps()" % cname, None)
                same("load(StringIO)", mod.load(io.StringIO(buf.getvalue())))
            else:
                tmp = getattr(self, "tmp", None) or tempfile.mkdtemp(prefix="c02-", dir="/var/tmp")
                self.tmp = tmp
                fn = os.path.join(tmp, "long-%s-%d-%d.txt" % (c, case["size"], case["shift"]))
                with open(fn, "w", encoding="utf-8") as fh:   # a real file, written by the handle API
                    mod.dump(ds, fh, indent=ind, **FULL)
                same("load(path)", mod.load(fn))
                with open(fn, encoding="utf-8") as fh:
                    same("load(file handle)", mod.load(fh))
                os.remove(fn)
        except Exception as e:
            fail("%s: long document is not readable" % cname, "%s: %s" % (type(e).__name__, str(e)[:200]))

    def oracle_churn(self, case, fail):
        o = case["o"]
        djs = churn_structures(case["seed"])
        # reference: all twelve alive at once (distinct addresses)
        alive = [build(dj) for dj in djs]
        ref = [{c: mod.encode(d, **o) for c, mod in CODECS.items()} for d in alive]
        refdec = [{c: canon_dmrs(mod.decode(ref[i][c])) for c, mod in CODECS.items()} for i in range(len(alive))]
        del alive
        gc.collect(0)
        for k, dj in enumerate(djs):
            d = build(dj)
            got = {c: mod.encode(d, **o) for c, mod in CODECS.items()}
            dec = {c: canon_dmrs(mod.decode(got[c])) for c, mod in CODECS.items()}
            del d
            gc.collect(0)
            for c in CODECS:
                if got[c] != ref[k][c]:
                    fail("%s: encoding a freshly built structure after others were dropped gives a stale text "
                         "(state keyed by object identity)" % CODEC_NAME[c], {"k": k, "want": ref[k][c][:200], "got": got[c][:200]})
                    return
                if dec[c] != refdec[k][c]:
                    fail("%s: decoding after object churn gives a different graph" % CODEC_NAME[c], {"k": k})
                    return

    def oracle(self, case, res):
        fails = []

        def fail(clause, detail):
            fails.append({"clause": clause, "detail": detail})
        if case["kind"] == "longdoc":
            self.oracle_longdoc(case, fail)
            return fails
        if case["kind"] == "churn":
            self.oracle_churn(case, fail)
            return fails
        if case["kind"] != "rt":
            return []
        ds = [build(dj) for dj in case["ds"]]
        o = case["o"]
        ind = py_indent(case["indent"])
        single = case["single"]
        # constructor: legacy link from node 0
        for dj, d in zip(case["ds"], ds):
            zero = [l for l in dj["links"] if l["start"] == 0]
            if any(l.start == 0 for l in d.links):
                fail("constructor: a link from node 0 survives", None)
            if len(d.links) != len(dj["links"]) - len(zero):
                fail("constructor: links other than those from node 0 were dropped", None)
            want_top = dj["top"] if dj["top"] is not None else (zero[0]["stop"] if zero else None)
            if d.top != want_top:
                fail("constructor: top is not (given top, else target of the first node-0 link)", [want_top, d.top])
        for c, mod in CODECS.items():
            cname = CODEC_NAME[c]
            if not all(in_domain(c, d) for d in ds):
                continue
            # encode
            try:
                text = mod.encode(ds[0], indent=ind, **o) if single else mod.dumps(ds, indent=ind, **o)
            except Exception as e:
                fail("%s: encode raises on a DMRS of the format's domain" % cname, "%s: %s" % (type(e).__name__, e))
                continue
            # readability
            try:
                back = [mod.decode(text)] if single else mod.loads(text)
            except Exception as e:
                fail("%s: own output is not readable (decode raises)" % cname,
                     {"codec": cname, "exc": type(e).__name__, "text": text[:300]})
                continue
            if len(back) != len(ds):
                fail("%s: list API returns a different number of graphs" % cname, [len(ds), len(back)])
                continue
            # field-by-field
            for d, b in zip(ds, back):
                want = expected(c, d, o)
                if c == "p":
                    # the penman library lays the graph out as a tree and returns the nodes in tree order:
                    # compare up to the renumbering (top is 10000, ids are 10000..10000+k-1)
                    if sorted(n.id for n in b.nodes) != list(range(10000, 10000 + len(b.nodes))) or \
                            (b.nodes and b.top != 10000):
                        fail("dmrspenman: decoded ids are not 10000.. with the top at 10000", [n.id for n in b.nodes])
                    if same_up_to_renumbering(want, view_of(b)):
                        continue
                    if b.index is not None or b.surface is not None or b.identifier is not None or not lnk_none(b.lnk):
                        fail("dmrspenman: decoded graph carries index/surface/identifier/lnk out of nowhere", None)
                diffs = compare_view(cname, want, b)
                for clause, detail in diffs:
                    fail(clause, detail)
                # the structures' own equality (DMRS/Node/Link/Lnk.__eq__: top, index, predicate, type, properties,
                # constant, links) agrees with the field-by-field result where the view keeps all of these
                if c != "p" and not diffs and o["properties"] and not (c == "sd" and any(n.type == "u" for n in d.nodes)):
                    try:
                        if not (b == d) or not (d == b) or (b != d):
                            fail("%s: decoded graph is field-by-field the same but not equal (==) to the original" % cname, None)
                        elif d.nodes:
                            e = build(case["ds"][ds.index(d)])
                            e.nodes[-1].carg = "other" if e.nodes[-1].carg != "other" else None
                            e2 = build(case["ds"][ds.index(d)])
                            e2.top = (e2.top or 10000) + 1
                            e3 = build(case["ds"][ds.index(d)])
                            e3.nodes[0].properties = dict(e3.nodes[0].properties, ZZ="t")
                            if b == e or b == e2 or b == e3:
                                fail("%s: decoded graph compares equal (==) to a graph with another constant/top/property" % cname, None)
                            elif d.links:
                                e4 = build(case["ds"][ds.index(d)])
                                e4.links[-1].post = "H" if e4.links[-1].post != "H" else "EQ"
                                if b == e4:
                                    fail("%s: decoded graph compares equal (==) to a graph with another link post" % cname, None)
                        if o["lnk"]:
                            for n0, n1 in zip(d.nodes, b.nodes):
                                if not lnk_none(n0.lnk) and not lnk_none(n1.lnk) and \
                                        (n0.lnk == n1.lnk) != (lnk_to_j(n0.lnk) == lnk_to_j(n1.lnk)):
                                    fail("%s: Lnk.__eq__ disagrees with type and data of the alignments" % cname, None)
                                    break
                    except Exception as ex:
                        fail("%s: comparing the decoded graph with == raises" % cname, "%s: %s" % (type(ex).__name__, ex))
            # text stability
            try:
                again = mod.encode(back[0], indent=ind, **o) if single else mod.dumps(back, indent=ind, **o)
                if c != "p":
                    if again != text:
                        fail("%s: re-encoding the decoded graph does not reproduce the text" % cname, [text[:300], again[:300]])
                else:
                    # PENMAN: the text of the renumbered graph; the penman layout may renumber again, so
                    # iterate: every round must denote the same graph, and the text must reach a fixpoint
                    cur_text, cur = again, back
                    # a property value spelled like a variable: penman nests the other node under the property edge
                    # and the nesting moves with the renumbering, so the texts may alternate (observed period 2,
                    # every round the same graph); there the texts must come back to an earlier one
                    # Characterisation (checked here, every case): the text settles unless, in SOME round, a property
                    # value of the graph being written is the variable of one of its nodes; only then a return to an
                    # earlier text is accepted instead of a fixpoint.
                    cyc_ok = any(penman_value_is_variable(d, o) for d in back)
                    seen_texts = [text, again]
                    for _round in range(len(max(ds, key=lambda d: len(d.nodes)).nodes) + 3 if ds else 1):
                        nxt = [mod.decode(cur_text)] if single else mod.loads(cur_text)
                        if len(nxt) != len(cur) or not all(same_up_to_renumbering(view_of(a), view_of(b))
                                                           for a, b in zip(cur, nxt)):
                            fail("dmrspenman: text of the renumbered graph decodes to a different graph", cur_text[:300])
                            break
                        cyc_ok = cyc_ok or any(penman_value_is_variable(d, o) for d in nxt)
                        nxt_text = mod.encode(nxt[0], indent=ind, **o) if single else mod.dumps(nxt, indent=ind, **o)
                        if nxt_text == cur_text or (cyc_ok and nxt_text in seen_texts):
                            if nxt_text != cur_text:
                                self.alternations = getattr(self, "alternations", 0) + 1
                            break
                        seen_texts.append(nxt_text)
                        cur_text, cur = nxt_text, nxt
                    else:
                        fail("dmrspenman: re-encoding never becomes stable", cur_text[:300])
                    if all(len(d.nodes) == 1 for d in ds) and again != text:
                        fail("dmrspenman: re-encoding a one-node graph does not reproduce the text", [text[:300], again[:300]])
            except Exception as e:
                fail("%s: re-encoding the decoded graph raises" % cname, "%s: %s" % (type(e).__name__, e))
            if c == "x" and case.get("lkb") and case["indent"] == "true":
                lk = mod.encode(ds[0], indent=case["lkb"], **o) if single else mod.dumps(ds, indent=case["lkb"], **o)
                if lk != text:
                    fail("dmrx: indent=%r does not give the text of indent=True" % case["lkb"], [text[:300], lk[:300]])
            # purity / order independence: the same call gives the same text whatever was called before
            self.purity(fail, c, mod, cname, ds, o)
            self.decode_purity(fail, c, cname, ds, o)
            self.edit_in_place(fail, c, mod, cname, case["ds"], o)
            if not single and ds:
                self.path_api(fail, c, mod, cname, ds, o, ind, back, text)
            # the file API
            if not single:
                try:
                    buf = io.StringIO()
                    mod.dump(ds, buf, indent=ind, **o)
                    if buf.getvalue().rstrip("\n") != text.rstrip("\n"):
                        fail("%s: dump() writes a different text than dumps()" % cname, None)
                    loaded = mod.load(io.StringIO(buf.getvalue()))
                    if [canon_dmrs(x) for x in loaded] != [canon_dmrs(x) for x in back]:
                        fail("%s: load(dump(ds)) differs from loads(dumps(ds))" % cname, [len(loaded), len(back)])
                except Exception as e:
                    fail("%s: dump()/load() raises" % cname, "%s: %s" % (type(e).__name__, e))
            if case.get("long") and c == "sd":
                ntok = len(lex(text))
                if ntok <= 1024:
                    fail("harness: long document is not longer than the look-ahead buffer", ntok)
            # indentation and the API change the layout only
            if ind is not None or not single:
                try:
                    flat = [mod.decode(mod.encode(d, **o)) for d in ds]
                    if [canon_dmrs(x) for x in flat] != [canon_dmrs(x) for x in back]:
                        fail("%s: indent/list API changes the decoded content" % cname, None)
                except Exception as e:
                    fail("%s: one-line single encoding not readable" % cname, "%s: %s" % (type(e).__name__, e))
            # file API agrees with the string API
        # side oracles for the parameters of the model
        for d in ds:
            try:
                e = dmrx._encode_dmrs(d, o["properties"], o["lnk"])
                if all(text_ok(n.predicate) and n.predicate.strip() == n.predicate for n in d.nodes) and in_domain("x", d):
                    e2 = etree.fromstring(etree.tostring(e, encoding="unicode"))
                    if tree_to_j(e2) != tree_to_j(e):
                        fail("side: xml.etree does not reproduce the tree the encoder built", None)
            except Exception:
                pass
            if in_domain("p", d):
                try:
                    ts = dmrspenman.to_triples(d, **o)
                    g = penman.decode(penman.encode(penman.Graph(ts)))
                    if not same_up_to_renumbering(view_of(dmrspenman.from_triples(ts)), view_of(dmrspenman.from_triples(g.triples))):
                        fail("side: penman re-parse changes what from_triples reads (beyond the order of nodes)", None)
                    srcs = []
                    for s, _, _ in g.triples:
                        if s not in srcs:
                            srcs.append(s)
                    if ts and srcs[0] != ts[0][0]:
                        fail("side: penman does not keep the top first", None)
                except Exception as e:
                    fail("side: penman rejects the triples of an in-domain graph", "%s: %s" % (type(e).__name__, e))
        return fails

    PURITY_ORDER = [("s", None), ("s", 2), ("s", None), ("s", 4), ("s", None), ("s", True), ("l", None), ("l", 2),
                    ("l", True), ("l", 4), ("l", None), ("s", None), ("s", 2), ("l", 2), ("s", 4)]

    def purity(self, fail, c, mod, cname, ds, o):
        """Interleave indent settings and single/list API; every repeated call must return what it returned
        the first time; compact output has the compact layout; and at the end the compact re-encoding of
        decode(t0) is still t0."""
        first = {}
        t0 = None
        for api, ind in self.PURITY_ORDER:
            if api == "s" and not ds:
                continue
            try:
                out = mod.encode(ds[0], indent=ind, **o) if api == "s" else mod.dumps(ds, indent=ind, **o)
            except Exception as e:
                out = ("raises", type(e).__name__)
            key = (api, repr(ind))
            if key not in first:
                first[key] = out
                if key == ("s", "None"):
                    t0 = out
            elif first[key] != out:
                fail("%s: the same encode call returns a different text after other calls (state leaks between calls)"
                     % cname, {"api": api, "indent": repr(ind), "first": str(first[key])[:300], "now": str(out)[:300]})
                return
        for key, out in first.items():
            if key[1] != "None" or not isinstance(out, str):
                continue
            bad = None
            if c in ("sd", "p") and "\n" in out.strip("\n") and key[0] == "s":
                bad = "line break in a one-line encoding"
            elif c == "j":
                import json as _json
                if _json.dumps(_json.loads(out)) != out:
                    bad = "not the compact JSON layout"
            elif c == "x":
                root = etree.fromstring(out)
                for e in root.iter():
                    if (e.tail or "").strip() == "" and e.tail:
                        bad = "white space after <%s> in a compact encoding" % e.tag
                    if len(e) and e.text:
                        bad = "white space inside <%s> in a compact encoding" % e.tag
            if bad:
                fail("%s: compact encoding does not have the compact layout" % cname, {"what": bad, "text": out[:300]})
                return
        if isinstance(t0, str) and c != "p":
            try:
                again = mod.encode(mod.decode(t0), **o)
            except Exception as e:
                again = ("raises", type(e).__name__)
            if again != t0:
                fail("%s: after the interleaved calls, re-encoding decode(t0) no longer gives t0" % cname,
                     [t0[:300], str(again)[:300]])

    def decode_purity(self, fail, c, cname, ds, o):
        """Decoding the SAME intermediate object twice (dictionary, triple list, element) gives the same graph and
        leaves the object as it was; the encoder's intermediate object does not alias the graph's own dicts."""
        for d in ds:
            try:
                if c == "j":
                    obj = dmrsjson.to_dict(d, **o)
                    snap = copy.deepcopy(obj)
                    a = canon_dmrs(dmrsjson.from_dict(obj))
                    b = canon_dmrs(dmrsjson.from_dict(obj))
                    same = obj == snap
                    for n, nj in zip(d.nodes, obj["nodes"]):
                        if nj.get("sortinfo") is n.properties:
                            fail("dmrsjson: to_dict hands out the node's own property dict", None)
                            return
                elif c == "p":
                    obj = dmrspenman.to_triples(d, **o)
                    snap = copy.deepcopy(obj)
                    a = canon_dmrs(dmrspenman.from_triples(obj))
                    b = canon_dmrs(dmrspenman.from_triples(obj))
                    same = obj == snap
                elif c == "x":
                    obj = dmrx._encode_dmrs(d, o["properties"], o["lnk"])
                    snap = etree.tostring(obj, encoding="unicode")
                    a = canon_dmrs(dmrx._decode_dmrs(obj))
                    b = canon_dmrs(dmrx._decode_dmrs(obj))
                    same = etree.tostring(obj, encoding="unicode") == snap
                else:
                    return
            except Exception as e:
                fail("%s: decoding the encoder's intermediate object raises" % cname, "%s: %s" % (type(e).__name__, e))
                return
            if a != b:
                fail("%s: decoding the same dictionary/triples/element twice gives two different graphs" % cname, None)
                return
            if not same:
                fail("%s: decoding changes the dictionary/triples/element it was given" % cname, None)
                return

    EDIT_STEPS = ("prop-add", "prop-change", "type", "carg", "pred", "lnk", "top-index", "link-post")

    def edit_in_place(self, fail, c, mod, cname, djs, o):
        """Encode, edit the object in place, encode again: the second text must be the text of a freshly built
        object with the same edit (no memo keyed by identity or by part of the content)."""
        dj = next((x for x in djs if x["nodes"]), None)
        if dj is None:
            return
        d = build(dj)
        try:
            mod.encode(d, **o)
            mod.encode(d, indent=2, **o)
        except Exception:
            return
        e = copy.deepcopy(dj)
        n, ne = d.nodes[0], e["nodes"][0]
        for step in self.EDIT_STEPS:
            if step == "prop-add":
                if any(uncps(k) == "ZED" for k, _ in ne["props"]):
                    continue
                n.properties["ZED"] = "q"
                ne["props"].append([cps("ZED"), cps("q")])
            elif step == "prop-change":
                if not ne["props"]:
                    continue
                k0 = uncps(ne["props"][0][0])
                n.properties[k0] = "w"
                ne["props"][0][1] = cps("w")
            elif step == "type":
                n.type = "i" if n.type != "i" else "e"
                ne["type"] = cps(n.type)
            elif step == "carg":
                n.carg = "edited" if n.carg is None else None
                ne["carg"] = ocps(n.carg)
            elif step == "pred":
                n.predicate = "_edited_v_2"
                ne["pred"] = cps("_edited_v_2")
            elif step == "lnk":
                n.lnk = Lnk.charspan(41, 42)
                ne["lnk"] = ["c", 41, 42]
            elif step == "top-index":
                d.top, d.index = d.nodes[-1].id, d.nodes[0].id
                e["top"], e["index"] = d.top, d.index
            elif step == "link-post":
                if not d.links:
                    continue
                d.links[0].post = "HEQ" if d.links[0].post != "HEQ" else "NEQ"
                k = next(i for i, l in enumerate(e["links"]) if l["start"] != 0)
                e["links"][k]["post"] = cps(d.links[0].post)
            fresh = build(e)
            if not in_domain(c, fresh):
                return
            try:
                got = mod.encode(d, **o)
                want = mod.encode(fresh, **o)
            except Exception as ex:
                fail("%s: encoding after an in-place edit raises" % cname, "%s %s: %s" % (step, type(ex).__name__, ex))
                return
            if got != want:
                fail("%s: after an in-place edit (%s) the encoding is not that of a freshly built graph" % (cname, step),
                     {"step": step, "got": got[:300], "want": want[:300]})
                return

    def path_api(self, fail, c, mod, cname, ds, o, ind, back, text):
        """The list API with a FILE NAME (str or pathlib.Path, alternating) as destination/source, same options:
        dump(ds, name) must write what dumps(ds) returns (DMRS-JSON: the same data; its named-file branch does not
        indent), and load(name) / load(<open file>) must return the graphs of loads(dumps(ds))."""
        import pathlib
        fn = os.path.join(self.tmp, "rt-%s-%d.txt" % (c, len(ds)))
        name = pathlib.Path(fn) if (len(ds) + len(ds[0].nodes)) % 2 else fn
        try:
            mod.dump(ds, name, indent=ind, **o)
            with open(fn, encoding="utf-8") as fh:
                written = fh.read()
            if c == "j":
                import json as _json
                same_text = _json.loads(written) == _json.loads(text)
            else:
                same_text = written.rstrip("\n") == text.rstrip("\n")
            want = [canon_dmrs(x) for x in back]
            if not same_text:
                fail("%s: dump(ds, <file name>) does not write what dumps(ds) returns for the same options" % cname,
                     {"options": o, "indent": repr(ind), "file": written[:300], "dumps": text[:300]})
            elif [canon_dmrs(x) for x in mod.loads(written)] != want:
                fail("%s: dump(ds, <file name>) writes other graphs than dumps(ds) with the same options" % cname, None)
            elif [canon_dmrs(x) for x in mod.load(name)] != want:
                fail("%s: load(<file name>) differs from loads(dumps(ds))" % cname, None)
            else:
                with open(fn, encoding="utf-8") as fh:
                    if [canon_dmrs(x) for x in mod.load(fh)] != want:
                        fail("%s: load(<open file>) differs from loads(dumps(ds))" % cname, None)
        except Exception as e:
            fail("%s: dump()/load() with a file name raises" % cname, "%s: %s" % (type(e).__name__, e))
        finally:
            try:
                os.remove(fn)
            except OSError:
                pass

    def classify(self, case, failure):
        """F11: SimpleDMRS, a node of type 'u' comes back with type None, nothing else."""
        if failure.get("clause") != "simpledmrs: node type not preserved by decode(encode(d))":
            return None
        det = failure.get("detail") or {}
        if det.get("codec") != "simpledmrs" or det.get("field") != "node type":
            return None
        dd = det.get("detail") or {}
        if dd.get("want") != "u" or dd.get("got") is not None:
            return None
        i = det.get("node")
        for dj in case.get("ds", []):
            if i is not None and i < len(dj["nodes"]) and ouncps(dj["nodes"][i]["type"]) == "u":
                return "F11"
        return None

    def nontrivial_key(self, case, res):
        if case["kind"] == "rt" and not any(dj["nodes"] or dj["links"] for dj in case["ds"]):
            return None
        return canon({k: v for k, v in case.items() if k != "name"})

    def stats(self, case, res, counters):
        def inc(k, v=1):
            counters[k] = counters.get(k, 0) + v
        k = case["kind"]
        inc("kind:" + k)
        if k == "longdoc":
            if res is not None:
                inc("longdoc:%s:>%dK" % (case["codec"], case["size"] // 1024))
                inc("longdoc:graphs", res["graphs"])
            return
        if k == "churn":
            return
        if k == "lex":
            if res is not None:
                inc("lex:" + ("error" if "err" in res else "tokens%d" % min(len(res["ok"]), 9)))
                for t in res.get("ok", []):
                    inc("lex:class:" + t[0])
            return
        if k == "sd_dec":
            if res is not None:
                inc("sd_dec:" + ("lex_error" if "lex_error" in res else "ok" if "ok" in res else res.get("err", "?")))
            return
        if k == "pred":
            if res is not None:
                inc("pred:surface" if res["is_surface"] else "pred:abstract")
            return
        o = case["o"]
        inc("opt:properties=%s,lnk=%s" % (o["properties"], o["lnk"]))
        inc("indent:%s" % (case["indent"],))
        if case.get("lkb"):
            inc("indent:dmrx " + case["lkb"])
        inc("api:" + ("single" if case["single"] else "list%d" % len(case["ds"])))
        if not case["single"] and case["ds"]:
            inc("api:file name (str/Path) dump+load, properties=%s,lnk=%s,indent=%s" % (o["properties"], o["lnk"], case["indent"]))
        for dj in case["ds"]:
            d = build(dj)
            inc("nodes:%d" % min(len(d.nodes), 8))
            inc("links:%d" % min(len(d.links), 8))
            for c in CODECS:
                if in_domain(c, d):
                    inc("domain:" + c)
            if any(l["start"] == 0 for l in dj["links"]):
                inc("legacy_top_link")
            if in_domain("p", d):
                if penman_value_collision(d, {"properties": True}):
                    inc("penman:property value spelled like a variable")
                if any(re.fullmatch(r"(?:q|_|x|e|i|u|p)[1-9][0-9]*_*", n.predicate) for n in d.nodes):
                    inc("penman:predicate spelled like a variable")
            if d.top is None:
                inc("top:none")
            for n in d.nodes:
                inc("type:%s" % n.type)
                inc("lnk:" + lnk_kind(n.lnk))
                if n.type is None and n.properties:
                    inc("untyped_with_props")
                if n.carg is not None:
                    inc("carg")
                    if '"' in n.carg or "\\" in n.carg:
                        inc("carg_quote_or_backslash")
            for l in d.links:
                inc("post:%s" % l.post)
                if l.role is None:
                    inc("role:none")
                elif l.role == "MOD":
                    inc("role:MOD")
        if res is not None:
            for c in ("x", "p"):
                for e in res[c]:
                    if "err" in e["enc"]:
                        inc("%s.enc:%s" % (c, e["enc"]["err"]))
                    if "err" in e["dec"]:
                        inc("%s.dec:%s" % (c, e["dec"]["err"]))
            if "err" in res["sd"]["dec"]:
                inc("sd.dec:" + res["sd"]["dec"]["err"])

    def shrink(self, case, still_fails):
        if case.get("kind") != "rt":
            return case
        import time as _time
        deadline = _time.time() + 12.0      # shrinking is a convenience: bounded
        raw_fails = still_fails

        def still_fails(c):
            if _time.time() > deadline:
                return False
            try:
                return raw_fails(c)
            except Exception:
                return False
        cur = copy.deepcopy(case)
        cur.pop("name", None)
        # halves first (long documents)
        while len(cur["ds"]) > 3 and _time.time() < deadline:
            h = len(cur["ds"]) // 2
            for part in (cur["ds"][:h], cur["ds"][h:]):
                c = dict(cur, ds=copy.deepcopy(part))
                if still_fails(c):
                    cur = c
                    break
            else:
                break
        if len(cur["ds"]) > 12 or sum(len(dj["nodes"]) for dj in cur["ds"]) > 40:
            return cur
        changed = True
        while changed:
            changed = False
            if len(cur["ds"]) > 1:
                for i in range(len(cur["ds"])):
                    c = copy.deepcopy(cur)
                    del c["ds"][i]
                    if still_fails(c):
                        cur, changed = c, True
                        break
                if changed:
                    continue
            for di, dj in enumerate(cur["ds"]):
                for key in ("links", "nodes"):
                    for i in range(len(dj[key])):
                        c = copy.deepcopy(cur)
                        del c["ds"][di][key][i]
                        try:
                            if still_fails(c):
                                cur, changed = c, True
                                break
                        except Exception:
                            pass
                    if changed:
                        break
                if changed:
                    break
                for i, n in enumerate(dj["nodes"]):
                    for fld, val in (("props", []), ("carg", None), ("surface", None), ("base", None), ("lnk", None)):
                        if n[fld] != val:
                            c = copy.deepcopy(cur)
                            c["ds"][di]["nodes"][i][fld] = val
                            if still_fails(c):
                                cur, changed = c, True
                                break
                    if changed:
                        break
                if changed:
                    break
                for fld in ("lnk", "surface", "identifier", "index"):
                    if dj[fld] is not None:
                        c = copy.deepcopy(cur)
                        c["ds"][di][fld] = None
                        if still_fails(c):
                            cur, changed = c, True
                            break
                if changed:
                    break
        return cur


CHECK = C02()
