"""C09 — relation files hold exactly what was last written, in one physical form.

Two kinds of case:
  hist  one relation, a start state (absent / plain / compressed / both with either mtime order)
        and a history of `tsdb.write` calls (append x gzip, typed records from the C08 value space,
        occasionally a record of the wrong width, fields given or taken from the relations file)
        interleaved with environment actions (a stale file of the other form appears / a file
        disappears).  Observed after every step: which files exist, the raw read, the autocast
        read, `select_from`, the directory listing, a digest of the file bytes.
  db    one `tsdb.write_database` call: source schema and files, target = in place / new
        directory / existing directory with stale files, optional target schema derived by adding,
        dropping, reordering columns and relations, optional `names`, gzip flag.
"""
import datetime
import gzip as gzip_mod
import hashlib
import itertools
import os
import re
import shutil
import struct
import tempfile
import warnings

from .common import paths
from .common.runner import Check
from . import c08 as v

paths.ensure_repo_on_path()
from delphin import tsdb  # noqa: E402

cps, uncps = v.cps, v.uncps

MID = 2000000000          # model's mtime for files written by tsdb.write (ordering only)
NEW0 = 3000000000         # "new" plants: NEW0 + step index (later than any real write)
CODED = {"i-wf": "1", "i-difficulty": "1", "polarity": "-1"}   # documented coded defaults (naive copy)
MONTHS = ["jan", "feb", "mar", "apr", "may", "jun", "jul", "aug", "sep", "oct", "nov", "dec"]

COLS = [("i-id", ":integer"), ("i-input", ":string"), ("i-wf", ":integer"), ("i-date", ":date"),
        ("parse-id", ":integer"), ("polarity", ":integer"), ("i-comment", ":string"), ("x", ":string"),
        ("y", ":integer"), ("z", ":date"), ("i-difficulty", ":integer"), ("c0", ":string"), ("c1", ":string"),
        ("n0", ":integer")]
RELNAMES = ["item", "parse", "result", "run", "item-set", "fold", "a", "b2", "r_1", "output", "q", "item-phenomenon"]
FCOLS = [("score", ":float"), ("t-real", ":float")]       # float columns: oracle only (no float crosses the model boundary)
FLOAT_TEXTS = ["0.0", "-0.0", "1.0", "-1.0", "2.5", "1e-07", "1e+22", "0.1", "123456.789"]
FLAGS = [":key", ":partial", ":foreign", ":unique"]


# ---------------------------------------------------------------- naive helpers (independent of tsdb)

def n_escape(s):
    return s.replace("\\", "\\\\").replace("\n", "\\n").replace("@", "\\s")


def n_line(cells):
    return "@".join(n_escape(c or "") for c in cells)


def n_default(name, dt):
    return CODED.get(name, "-1" if dt == ":integer" else "")


def n_format(name, dt, val):
    """documented text of a typed value in a column"""
    if val is None:
        return n_default(name, dt)
    if isinstance(val, datetime.datetime):
        s = "%d-%s-%04d" % (val.day, MONTHS[val.month - 1], val.year)
        if (val.hour, val.minute, val.second) != (0, 0, 0):
            s += " %02d:%02d:%02d" % (val.hour, val.minute, val.second)
        return s
    return str(val)


def n_cast(dt, text, denotes=None):
    """documented typed value of a cell (only for the spellings the generators emit)"""
    if text == "":
        return None
    if dt == ":integer":
        return {"int": str(int(text))}
    if dt == ":date":
        return {"date": list(denotes)}
    if dt == ":float":
        return {"float": struct.unpack("<Q", struct.pack("<d", float(text)))[0]}
    return {"str": cps(text)}


def plant_file(path, recs, gz, mtime=None, mtime_ns=None, enc=None):
    data = "".join(n_line(r) + "\n" for r in recs).encode(enc or "utf-8")
    if gz:
        with gzip_mod.open(path, "wb") as f:
            f.write(data)
    else:
        with open(path, "wb") as f:
            f.write(data)
    if mtime_ns is not None:
        os.utime(path, ns=(mtime_ns, mtime_ns))
    elif mtime is not None:
        os.utime(path, (mtime, mtime))


def jraw(rec):
    return [None if c is None else cps(c) for c in rec]


def tag(e):
    if isinstance(e, NotImplementedError):
        return "NotImplementedError"
    if isinstance(e, tsdb.TSDBSchemaError):
        return "TSDBSchemaError"
    if isinstance(e, tsdb.TSDBError):
        return "TSDBError"
    for t in (KeyError, ValueError, AttributeError, IndexError, TypeError, OSError):
        if isinstance(e, t):
            return t.__name__
    return "Other:" + type(e).__name__


def guarded(f):
    try:
        with warnings.catch_warnings():
            warnings.simplefilter("ignore")
            return {"ok": f()}
    except Exception as e:  # noqa: BLE001 - mapped to an enum
        return {"err": tag(e)}


def guarded_schema(f):
    r = guarded(f)
    return {"ok": j_schema(r["ok"])} if "ok" in r else r


def mk_fields(fl):
    return [tsdb.Field(uncps(f["name"]), f["dt"], f.get("flags") or None, f.get("comment")) for f in fl]


def mk_schema(sj):
    return {uncps(t["name"]): mk_fields(t["fields"]) for t in sj}


def enc_kw(enc):
    """`encoding=` is handed over only when the case names one (else the documented default applies)"""
    return {} if enc is None else {"encoding": enc}


def encodable(text, enc):
    if enc in (None, "utf-8"):
        return True
    lim = 256 if enc == "latin-1" else 128
    return all(ord(ch) < lim for ch in text)


def read_raw(db, name):
    rel = db[name]
    try:
        out = []
        try:
            out.append(jraw(next(rel)))          # Relation.__next__, as in the class docstring
        except StopIteration:
            return out
        out.extend(jraw(r) for r in rel)         # Relation.__iter__ for the rest
        return out
    finally:
        rel.close()


def read_cast(db, name):
    rel = db[name]
    try:
        return [[v.j_val(x) for x in r] for r in rel]
    finally:
        rel.close()


def observe_rel(d, name, readable, sel=None, enc=None):
    """files + reads of one relation through the public interfaces; `sel`: None = no column-selecting reads,
    "all" = select_from with its default columns=None, a list = explicit columns"""
    o = {"tx": os.path.isfile(os.path.join(d, name)), "gz": os.path.isfile(os.path.join(d, name + ".gz"))}
    if not readable:
        return o
    kw = enc_kw(enc)
    made = {}

    def db(auto):
        # one fresh Database (and one fresh autocast Database) per observation
        if auto not in made:
            made[auto] = tsdb.Database(d, autocast=auto, **kw)
        return made[auto]
    o["raw"] = guarded(lambda: read_raw(db(False), name))
    o["cast"] = guarded(lambda: read_cast(db(True), name))
    if sel is not None:
        args = () if sel == "all" else ([uncps(c) for c in sel],)
        o["sel"] = guarded(lambda: [jraw(r) for r in db(False).select_from(name, *args)])
        o["selcast"] = guarded(lambda: [[v.j_val(x) for x in r] for r in db(False).select_from(name, *args, cast=True)])
        o["selauto"] = guarded(lambda: [[v.j_val(x) for x in r] for r in db(True).select_from(name, *args)])
        o["open"] = guarded(lambda: _read_open(d, name, enc))
        o["selraw"] = guarded(lambda: [jraw(r) for r in db(False)._select_raw(name, *args)])   # what TSQL reads through
    return o


def _read_open(d, name, enc=None):
    with tsdb.open(d, name, encoding=enc or "utf-8") as f:
        return [cps(line) for line in f]


SPELLINGS = ["same", "pathlib", "trailing_slash", "dotdot", "dot_relative", "relative", "symlink", "symlink_pathlib"]


class Spelled:
    """the same directory under another spelling: str / pathlib.Path, trailing slash, a detour through '..', relative
    to the current directory (which is changed for the duration and restored), through a symbolic link"""

    def __init__(self, path, how):
        self.path, self.how, self.cwd = path, how or "same", None

    def __enter__(self):
        import pathlib
        p, how = self.path, self.how
        parent, base = os.path.dirname(p), os.path.basename(p)
        if how == "pathlib":
            return pathlib.Path(p)
        if how == "trailing_slash":
            return p + os.sep
        if how == "dotdot":
            return os.path.join(parent, base, os.pardir, base)
        if how in ("relative", "dot_relative"):
            self.cwd = os.getcwd()
            os.chdir(parent)
            return base if how == "relative" else os.path.join(os.curdir, base)
        if how in ("symlink", "symlink_pathlib"):
            link = os.path.join(parent, "link-to-" + base)
            if not os.path.islink(link):
                os.symlink(p, link)
            return link if how == "symlink" else pathlib.Path(link)
        return p

    def __exit__(self, *exc):
        if self.cwd is not None:
            os.chdir(self.cwd)
        return False


class Watched:
    """the iterable handed to tsdb.write: every time a record is asked for it notes what the directory looks
    like at that moment (relation files present, temp files, whether the relation files still hold the bytes
    they held before the call)"""

    def __init__(self, d, name, recs):
        self.d, self.name, self.recs, self.i, self.seen = d, name, recs, 0, []
        self.before = self._bytes()

    def _bytes(self):
        out = []
        for fn in (self.name, self.name + ".gz"):
            p = os.path.join(self.d, fn)
            if os.path.isfile(p):
                with open(p, "rb") as f:
                    out.append(f.read())
            else:
                out.append(None)
        return out

    def __iter__(self):
        return self

    def __next__(self):
        now = self._bytes()
        others = [fn for fn in os.listdir(self.d) if fn not in ("relations", self.name, self.name + ".gz")]
        self.seen.append({"tx": now[0] is not None, "gz": now[1] is not None,
                          "tmp": sum(1 for fn in others if fn.startswith(self.name) and fn.endswith(".tmp")),
                          "same": now == self.before, "stray": sorted(fn for fn in others if not fn.endswith(".tmp"))})
        if self.i >= len(self.recs):
            raise StopIteration
        self.i += 1
        return self.recs[self.i - 1]


def digest(d):
    h = hashlib.sha1()
    for fn in sorted(os.listdir(d)):
        h.update(fn.encode() + b"\0")
        with open(os.path.join(d, fn), "rb") as f:
            h.update(f.read())
        h.update(b"\1")
    return h.hexdigest()


IMPL_ONLY = ("listing", "digest", "kept", "kept_cast", "stray", "selraw", "kept_meta", "schema_eq")


def j_schema(sch):
    """canonical form of a schema as tsdb returns it: names, datatypes, flags, comments"""
    return [{"name": cps(n), "fields": [[cps(f.name), cps(f.datatype), [cps(x) for x in f.flags],
                                         None if f.comment is None else cps(f.comment)] for f in sch[n]]}
            for n in sch]


def want_schema_of(Tl):
    """what reading back must give for a schema of the case language"""
    return [{"name": t["name"], "fields": [[f["name"], cps(f["dt"]), [cps(x) for x in (f.get("flags") or [])],
                                            cps(f["comment"]) if f.get("comment") else None]
                                           for f in t["fields"]]} for t in Tl]


def model_schema(s):
    return [{"name": t["name"], "fields": [{"name": f["name"], "dt": f["dt"], "dtc": cps(f["dt"]),
                                            "flags": [cps(x) for x in (f.get("flags") or [])],
                                            "comment": cps(f["comment"]) if f.get("comment") is not None else None}
                                           for f in t["fields"]]} for t in s]


def strip(o):
    if isinstance(o, dict):
        return {k: strip(x) for k, x in o.items() if k not in IMPL_ONLY}
    if isinstance(o, list):
        return [strip(x) for x in o]
    return o


def loose_eq(expected, answer, hits=None):
    """equality where a model answer {"err":"unmodelled"} stands for "outside the model" (C08 cast boundary:
    int()/date spellings the C08 model does not cover).  Every such match is RECORDED in `hits` as the
    implementation's value at that place; the caller decides whether it is acceptable."""
    if isinstance(answer, dict) and answer.get("err") == "unmodelled":
        if hits is not None:
            hits.append(expected)
        return True
    if isinstance(expected, dict) and isinstance(answer, dict):
        return set(expected) == set(answer) and all(loose_eq(expected[k], answer[k], hits) for k in expected)
    if isinstance(expected, list) and isinstance(answer, list):
        return len(expected) == len(answer) and all(loose_eq(a, b, hits) for a, b in zip(expected, answer))
    return expected == answer


# ---------------------------------------------------------------- generators

def gen_fields(rng, n=None, pool=COLS, unique=True):
    n = n or rng.choice([1, 1, 2, 2, 3, 3, 4, 5])
    if unique:
        cols = rng.sample(pool, min(n, len(pool)))
    else:
        cols = [rng.choice(pool) for _ in range(n)]
    out = []
    for name, dt in cols:
        f = {"name": cps(name), "dt": dt}
        if rng.random() < 0.3:
            f["flags"] = rng.sample(FLAGS, rng.randrange(1, 3))
        if rng.random() < 0.2:
            f["comment"] = rng.choice(["the id", "x # y", "a  b", "42", "naive comment"])
        out.append(f)
    return out


def gen_cell_val(rng, dt):
    """typed value for a `tsdb.write` record (C08 value space, castable in its column)"""
    r = rng.random()
    if r < 0.18:
        return None
    if dt == ":integer":
        return {"int": str(v.gen_int(rng))}
    if dt == ":date":
        if r < 0.8:
            return {"date": v.gen_dt(rng)}
        text, inst = rng.choice(v.spellings(v.gen_dt(rng), rng))
        return {"str": cps(text), "denotes": inst}
    if r < 0.3:
        return {"int": str(v.gen_int(rng))}
    return {"str": cps(v.gen_string(rng, 6))}


def gen_typed_rec(rng, fields):
    return [gen_cell_val(rng, f["dt"]) for f in fields]


def gen_raw_cell(rng, dt):
    """raw cell of a planted file: None or text (castable in its column)"""
    r = rng.random()
    if r < 0.2:
        return None
    if dt == ":integer":
        if r < 0.45:
            return rng.choice(["0", "0", "-1", "1", "-2"])        # falsy value, the text of the default, neighbours
        return str(v.gen_int(rng))
    if dt == ":float":
        return rng.choice(FLOAT_TEXTS)
    if dt == ":date":
        if r < 0.35:
            return rng.choice(["1-jan-1970", "1-jan-1000", "31-dec-9999 23:59:59", "29-feb-2000", "1-jan-1970 00:00:01"])
        return n_format("", ":date", datetime.datetime(*v.gen_dt(rng)))
    if r < 0.35:
        return rng.choice(["0", "0.0", "-1", "False", "None", " "])
    s = v.gen_string(rng, 5)
    return s or None


def gen_raw_recs(rng, fields, maxn=3):
    n = rng.choice([0, 1, 1, 2, 2, maxn])
    return [[cps_opt(gen_raw_cell(rng, f["dt"])) for f in fields] for _ in range(n)]


def cps_opt(s):
    return None if s is None else cps(s)


def gen_start(rng, fields, kind=None):
    kind = kind or rng.choice(["absent", "tx", "gz", "both_tx", "both_gz", "both_eq", "absent", "tx"])
    tx = gz = None
    if kind in ("tx", "both_tx", "both_gz", "both_eq"):
        tx = {"recs": gen_raw_recs(rng, fields), "mtime": {"tx": 5, "both_tx": 9, "both_gz": 4, "both_eq": 7}[kind]}
    if kind in ("gz", "both_tx", "both_gz", "both_eq"):
        gz = {"recs": gen_raw_recs(rng, fields), "mtime": {"gz": 5, "both_tx": 4, "both_gz": 9, "both_eq": 7}[kind]}
    return {"tx": tx, "gz": gz}


def gen_write_op(rng, fields, nrec=None):
    n = rng.choice([0, 1, 1, 1, 2, 3]) if nrec is None else nrec
    recs = [gen_typed_rec(rng, fields) for _ in range(n)]
    if recs and rng.random() < 0.05:
        i = rng.randrange(len(recs))
        if rng.random() < 0.5 or len(recs[i]) == 0:
            recs[i] = recs[i] + [{"str": cps("x")}]
        else:
            recs[i] = recs[i][:-1]
    return {"k": "write", "recs": recs, "append": rng.random() < 0.45, "gzip": rng.random() < 0.35,
            "schemafile": rng.random() < 0.2, "dir_spelling": rng.choice(SPELLINGS) if rng.random() < 0.3 else "same"}


def gen_hist(rng, nops=None):
    fields = gen_fields(rng)
    n = nops or rng.choice([1, 2, 2, 3, 3, 4, 4, 5, 6, 8, 12])
    ops = []
    for _ in range(n):
        r = rng.random()
        if r < 0.84:
            ops.append(gen_write_op(rng, fields))
        elif r < 0.95:
            ops.append({"k": "plant", "gz": rng.random() < 0.5, "recs": gen_raw_recs(rng, fields),
                        "when": rng.choice(["old", "new", "same"])})
        else:
            ops.append({"k": "remove", "gz": rng.random() < 0.5})
    names = [f["name"] for f in fields]
    sel = "all" if rng.random() < 0.15 else [rng.choice(names) for _ in range(rng.randrange(1, 4))]
    return {"kind": "hist", "op": "hist", "rel": rng.choice(["item", "item", "parse", "a", "item-set"]),
            "fields": fields, "start": gen_start(rng, fields), "ops": ops, "sel": sel,
            "enc": rng.choice([None, None, None, "utf-8"])}


def exhaustive_hists(maxlen):
    """all histories up to maxlen over {empty, one record} x append x gzip from the six start states"""
    fields = [{"name": cps("i-id"), "dt": ":integer"}, {"name": cps("i-input"), "dt": ":string"}]
    recsets = [[], None]
    alphabet = [(ri, a, g) for ri in range(2) for a in (False, True) for g in (False, True)]
    starts = ["absent", "tx", "gz", "both_tx", "both_gz", "both_eq"]
    sa = [[cps("1"), cps("old tx")]]
    sb = [[cps("2"), cps("old@gz")], [cps("3"), None]]
    for st in starts:
        start = {"tx": None, "gz": None}
        if st in ("tx", "both_tx", "both_gz", "both_eq"):
            start["tx"] = {"recs": sa, "mtime": {"tx": 5, "both_tx": 9, "both_gz": 4, "both_eq": 7}[st]}
        if st in ("gz", "both_tx", "both_gz", "both_eq"):
            start["gz"] = {"recs": sb, "mtime": {"gz": 5, "both_tx": 4, "both_gz": 9, "both_eq": 7}[st]}
        for L in range(1, maxlen + 1):
            for combo in itertools.product(alphabet, repeat=L):
                ops = []
                for k, (ri, a, g) in enumerate(combo):
                    recs = [] if ri == 0 else [[{"int": str(10 + k)}, {"str": cps("w%d\n@\\" % k)}]]
                    ops.append({"k": "write", "recs": recs, "append": a, "gzip": g, "schemafile": False})
                # every history: files, raw and autocast read after every step; the column-selecting reads and
                # tsdb.open too for all histories up to length 2 and the length-3 ones from two of the starts
                full = L <= 2 or st in ("absent", "both_gz") or maxlen > 3
                yield {"kind": "hist", "op": "hist", "rel": "item", "fields": fields, "start": start,
                       "ops": ops, "sel": [cps("i-input"), cps("i-id")] if full else None, "kept": False}


def derive_schema(rng, S):
    """target schema from S by adding, dropping, reordering columns and relations"""
    T = []
    used = {uncps(t["name"]) for t in S}
    for t in S:
        if rng.random() < 0.2:
            continue                                   # relation dropped
        fl = [dict(f) for f in t["fields"] if rng.random() > 0.25]          # columns dropped
        have = {uncps(f["name"]) for f in t["fields"]}
        for _ in range(rng.choice([0, 0, 1, 1, 2])):                       # columns added
            cand = [c for c in COLS if c[0] not in have]
            if cand:
                name, dt = rng.choice(cand)
                have.add(name)
                fl.insert(rng.randrange(len(fl) + 1), {"name": cps(name), "dt": dt})
        if rng.random() < 0.5:
            rng.shuffle(fl)                            # columns reordered
        if not fl:
            fl = [dict(rng.choice(t["fields"]))]
        T.append({"name": t["name"], "fields": fl})
    for _ in range(rng.choice([0, 0, 1, 1, 2])):       # relations added
        cand = [n for n in RELNAMES if n not in used]
        if cand:
            n = rng.choice(cand)
            used.add(n)
            T.insert(rng.randrange(len(T) + 1), {"name": cps(n), "fields": gen_fields(rng)})
    if rng.random() < 0.5:
        rng.shuffle(T)                                 # relations reordered
    if not T:
        T = [{"name": S[0]["name"], "fields": [dict(S[0]["fields"][0])]}]
    return T


def gen_files(rng, schema_like, p_absent=0.15, arbitrary_width=False):
    out = []
    for t in schema_like:
        fields = t["fields"]
        if arbitrary_width:
            fields = gen_fields(rng)
        st = gen_start(rng, fields, "absent" if rng.random() < p_absent else None)
        out.append({"name": t["name"], "tx": st["tx"], "gz": st["gz"]})
    return out



def db_fixed():
    """deterministic write_database block: relation names that are prefixes of one another, falsy and default-like
    values (0, 0.0, -0.0, -1, '0' in a string column, empty cells, epoch / midnight dates), raw and autocast
    sources, every destination kind (stale files with skewed and tied mtimes), schema None / same / derived, names
    subsets, gzip on and off"""
    def F(n, dt, fl=None):
        f = {"name": cps(n), "dt": dt}
        if fl:
            f["flags"] = fl
        return f

    def R(*cells):
        return [None if c is None else cps(c) for c in cells]
    count = 0
    for with_float in (False, True):
        item = [F("i-id", ":integer", [":key"]), F("i-input", ":string"), F("i-wf", ":integer"), F("i-date", ":date")]
        rows = [R("0", "0", "0", "1-jan-1970"), R("-1", None, None, None), R("1", "zero", "1", "31-dec-1999 23:59:59"),
                R(None, "0.0", "-1", "1-jan-1970 00:00:01")]
        if with_float:
            item.append(F("score", ":float"))
            rows = [r + [cps(x)] if x is not None else r + [None] for r, x in zip(rows, ["0.0", "-0.0", None, "2.5"])]
        iset = [F("i-id", ":integer", [":key"]), F("polarity", ":integer"), F("n0", ":integer")]
        iphen = [F("i-id", ":integer"), F("x", ":string")]
        S = [{"name": cps("item"), "fields": item}, {"name": cps("item-set"), "fields": iset},
             {"name": cps("item-phenomenon"), "fields": iphen},
             {"name": cps("set"), "fields": [F("s-id", ":integer"), F("x", ":string")]},   # no source file at all
             {"name": cps("q"), "fields": [F("c0", ":string")]}]                           # one column, blank cells
        files = [{"name": cps("item"), "tx": {"recs": rows, "mtime": 5}, "gz": None},
                 {"name": cps("item-set"), "tx": None,
                  "gz": {"recs": [R("0", "0", "0"), R("1", "-1", "-1"), R(None, None, None)], "mtime": 5}},
                 {"name": cps("item-phenomenon"), "tx": {"recs": [R("9", "stale")], "mtime": 4},
                  "gz": {"recs": [R("0", "0"), R("2", None)], "mtime": 9}},
                 {"name": cps("q"), "tx": {"recs": [R(None), R(" "), R(None), R("x"), R(None)], "mtime": 5}, "gz": None}]
        derived = [{"name": cps("item-set"), "fields": [iset[2], iset[1], iset[0]]},
                   {"name": cps("item"), "fields": [item[2], F("y", ":integer"), item[0]] + item[3:]},
                   {"name": cps("item-phenomenon"), "fields": [iphen[1], iphen[0], F("c0", ":string")]},
                   {"name": cps("set"), "fields": [F("x", ":string")]},
                   {"name": cps("q"), "fields": [F("c0", ":string")]}]
        reordered = [{"name": cps("q"), "fields": [F("c0", ":string")]},
                     {"name": cps("set"), "fields": [F("x", ":string"), F("s-id", ":integer")]},
                     {"name": cps("item-phenomenon"), "fields": [iphen[1], iphen[0]]},
                     {"name": cps("item"), "fields": list(reversed(item))},
                     {"name": cps("item-set"), "fields": [iset[1], iset[2], iset[0]]}]     # reorder only
        stale = [{"name": cps("item"), "tx": {"recs": [R("7")], "mtime": 9}, "gz": {"recs": [R("8", "g")], "mtime": 4}},
                 {"name": cps("item-set"), "tx": {"recs": [R("7", "7", "7")], "mtime": 7},
                  "gz": {"recs": [R("8", "8", "8")], "mtime": 7}},
                 {"name": cps("item-phenomenon"), "tx": None, "gz": {"recs": [R("5", "five")], "mtime": 3}},
                 {"name": cps("set"), "tx": {"recs": [R("1", "stale set")], "mtime": 2},
                  "gz": {"recs": [R("2", "stale set gz")], "mtime": 6}}]
        for autocast in ((True,) if with_float else (False, True)):
            for schema in (None, S, derived, reordered):
                T = schema if schema is not None else S
                for names in (None, ["item", "q"], ["item-set", "set"], ["item-phenomenon", "item"]):
                    for dst in ("inplace", "new", "existing"):
                        for gz in (False, True):
                            count += 1
                            yield {"kind": "db", "op": "db", "src_schema": S, "src_files": files,
                                   "src_autocast": autocast, "dst": dst,
                                   # the destination spelled in every way: in place each spelling meets every schema
                                   # kind, names subset and gzip flag over the block
                                   "dst_spelling": SPELLINGS[(count // 2 if dst == "inplace" else count) % len(SPELLINGS)]
                                   if dst != "new" else "same",
                                   "dst_files": None if dst == "inplace" else [] if dst == "new" else stale,
                                   "names": None if names is None else [cps(n) for n in names],
                                   "names_as": "list" if gz else "iter", "schema": schema, "gzip": gz,
                                   "dst_old_schema": (reordered if T is not reordered else derived)
                                   if dst == "existing" and (gz or names is None) else None,
                                   "schema_via": "obj" if schema is None or with_float or names is not None
                                   else ("path_dir", "str_file", "str_dir")[("inplace", "new", "existing").index(dst)],
                                   "watch": [cps("item"), cps("item-phenomenon"), cps("item-set"), cps("q"), cps("set")],
                                   "sel": {uncps(t["name"]): ("all" if dst == "new" and gz else
                                                              [t["fields"][-1]["name"], t["fields"][0]["name"]]) for t in T},
                                   "stream": "fixed"}


def gen_db(rng):
    nrel = rng.choice([1, 2, 2, 3, 4])
    relnames = rng.sample(RELNAMES, nrel)
    S = [{"name": cps(n), "fields": gen_fields(rng)} for n in relnames]
    src_autocast = rng.random() < 0.4
    if rng.random() < (0.4 if src_autocast else 0.1):
        t = rng.choice(S)                    # a float column (such cases are decided by the oracle only)
        name, dt = rng.choice(FCOLS)
        t["fields"].insert(rng.randrange(len(t["fields"]) + 1), {"name": cps(name), "dt": dt})
    if rng.random() < 0.1:
        # a source relation with a repeated column name (dict(zip()) keeps the last one)
        t = rng.choice(S)
        t["fields"].insert(rng.randrange(len(t["fields"]) + 1), dict(rng.choice(t["fields"])))
    src_files = gen_files(rng, S)
    r = rng.random()
    if r < 0.3:
        schema = None
    elif r < 0.4:
        schema = [dict(t) for t in S]                  # same schema given explicitly: records remade
    else:
        schema = derive_schema(rng, S)
    T = schema if schema is not None else S
    tnames = [t["name"] for t in T]
    r = rng.random()
    if r < 0.45:
        names = None
    else:
        k = rng.randrange(0, len(tnames) + 1)
        names = rng.sample(tnames, k)
        if rng.random() < 0.05:
            names.insert(rng.randrange(len(names) + 1), cps("nosuch"))
        if names and rng.random() < 0.12:
            names.insert(rng.randrange(len(names) + 1), rng.choice(names))      # a relation named twice
    r = rng.random()
    if r < 0.4:
        dst = "inplace"
        dst_files = None
    elif r < 0.65:
        dst = "new"
        dst_files = []
    else:
        dst = "existing"
        pool = {uncps(t["name"]): t for t in list(S) + list(T)}
        junk = [pool[n] for n in sorted(pool) if rng.random() < 0.7]
        dst_files = [f for f in gen_files(rng, junk, p_absent=0.2, arbitrary_width=True)
                     if f["tx"] is not None or f["gz"] is not None]
    watch = sorted({uncps(t["name"]) for t in list(S) + list(T)} | {uncps(f["name"]) for f in (dst_files or [])})
    sel = {}
    for t in T:
        fn = [f["name"] for f in t["fields"]]
        sel[uncps(t["name"])] = "all" if rng.random() < 0.15 else [rng.choice(fn) for _ in range(rng.randrange(1, 4))]
    has_float = any(f["dt"] == ":float" for sc in (S, schema or []) for t in sc for f in t["fields"])
    via = "obj" if schema is None or has_float or rng.random() < 0.7 else rng.choice(["str_dir", "path_dir", "str_file", "path_file"])
    return {"kind": "db", "op": "db", "src_schema": S, "src_files": src_files, "src_autocast": src_autocast, "dst": dst,
            "dst_files": dst_files, "names": names, "names_as": rng.choice(["list", "list", "iter", "gen", "tuple"]),
            "schema": schema, "schema_via": via, "gzip": rng.random() < 0.4,
            "dst_spelling": rng.choice(SPELLINGS) if dst != "new" and rng.random() < 0.6 else "same",
            "dst_old_schema": derive_schema(rng, S) if dst == "existing" and rng.random() < 0.5 else None,
            "enc": rng.choice([None, None, None, "utf-8"]),
            "watch": [cps(n) for n in watch], "sel": sel}



# ---------------------------------------------------------------- schema text (relations file)

IDENT1 = "abcxyzIQ_09"                 # first character of a relation name (a word character)
IDENTC = "abcxyz_-09"
DTYPES = [":integer", ":string", ":date", ":float", ":integer", ":string"]
SFLAGS = [":key", ":partial", ":foreign", ":unique", ":primary", "x-1", ":a:b"]
COMMENT_OK = ["the id", "x # y", "a  b", "42", "#", "# #", "it's", "key: item", "a\tb", "(c)", "ä", "x" * 30]
COMMENT_ODD = ["", " lead", "trail ", "ends with colon:", ":", " ", "\ttab"]   # outside the round-trip region


def gen_ident(rng, first=IDENT1, minlen=1):
    n = rng.choice([1, 1, 2, 3, 5, 8, 14, 30])
    n = max(n, minlen)
    return rng.choice(first) + "".join(rng.choice(IDENTC) for _ in range(n - 1))


def gen_sfield(rng, used, odd=False):
    while True:
        name = gen_ident(rng, first=IDENT1 + "-")
        if name not in used:
            used.add(name)
            break
    f = {"name": cps(name), "dt": rng.choice(DTYPES)}
    if rng.random() < 0.5:
        f["flags"] = [rng.choice(SFLAGS) for _ in range(rng.choice([1, 1, 2, 3, 6]))]
    r = rng.random()
    if r < 0.4:
        f["comment"] = rng.choice(COMMENT_OK)
    elif odd and r < 0.7:
        f["comment"] = rng.choice(COMMENT_ODD)
    return f


def gen_schema_rt(rng, region=True):
    nt = rng.choice([0, 1, 1, 2, 2, 3, 4]) if not region else rng.choice([1, 1, 2, 2, 3, 4])
    names = set()
    tables = []
    for _ in range(nt):
        while True:
            n = gen_ident(rng)
            if not region and rng.random() < 0.3:
                n = rng.choice(["-x", "my table", "a:", "a#b", ":", "t:u", "a b:"])
            if n not in names:
                names.add(n)
                break
        used = set()
        nf = rng.choice([1, 1, 2, 3, 5]) if region else rng.choice([0, 1, 2, 3])
        tables.append({"name": cps(n), "fields": [gen_sfield(rng, used, odd=not region) for _ in range(nf)]})
    return {"kind": "schema_rt", "op": "schema_rt", "schema": tables, "region": region,
            "via": rng.choice(["write_schema", "initialize_database"])}


def schema_rt_fixed():
    """the F27 regression and the layout corners, deterministically"""
    F = lambda n, dt, fl=None, c=None: {k: x for k, x in (("name", cps(n)), ("dt", dt), ("flags", fl), ("comment", c))
                                       if x is not None}
    long = "f" * 31                       # '  ' + name + ' :string' = 41 characters: no padding before '#'
    mid = "g" * 30                        # exactly 40: no padding either
    short = "h" * 29                      # 39: one space of padding
    tabs = [
        [{"name": cps("a"), "fields": [F("x", ":integer")]}],
        [{"name": cps("item"), "fields": [F("i-id", ":integer", [":key"])]}, {"name": cps("q"), "fields": [F("y", ":string")]}],
        [{"name": cps("q"), "fields": [F("y", ":string", None, "c")]}, {"name": cps("_"), "fields": [F("z", ":date")]},
         {"name": cps("0"), "fields": [F("-", ":x")]}],
        [{"name": cps("t"), "fields": [F(long, ":string", None, "tight"), F(mid, ":string", None, "forty"),
                                      F(short, ":string", None, "thirty-nine"), F("k", ":integer", [":key", ":a:b"], "# x")]}],
        [{"name": cps("item"), "fields": [F("i-id", ":integer", [":key"], "item id"), F("i-input", ":string")]},
         {"name": cps("item-set"), "fields": [F("i-id", ":integer", [":key", ":partial"]), F("s-id", ":integer", [":key"])]}],
    ]
    for t in tabs:
        for via in ("write_schema", "initialize_database"):
            yield {"kind": "schema_rt", "op": "schema_rt", "schema": t, "region": True, "via": via}


LINE_ALPHA = ["a", "b", "x1", ":", "#", " ", "  ", "\t", "-", "_", ":string", ":integer", ":key", "item", "Z"]


def gen_schema_parse(rng):
    lines = []
    for _ in range(rng.choice([1, 2, 3, 4, 6, 9])):
        r = rng.random()
        if r < 0.25:
            lines.append(gen_ident(rng) + ":" + rng.choice(["", "", " ", ":"]))
        elif r < 0.55:
            parts = [gen_ident(rng), rng.choice(DTYPES)] + [rng.choice(SFLAGS) for _ in range(rng.randrange(0, 3))]
            line = rng.choice(["  ", "", "\t", " "]) + rng.choice([" ", " ", "  ", "\t"]).join(parts)
            if rng.random() < 0.4:
                line += rng.choice(["", " ", "  ", "   "]) + "#" + rng.choice(["", " ", "  "]) + rng.choice(COMMENT_OK + COMMENT_ODD)
            lines.append(line)
        elif r < 0.65:
            lines.append(rng.choice(["", " ", "\t "]))
        else:
            lines.append("".join(rng.choice(LINE_ALPHA) for _ in range(rng.randrange(1, 7))))
    return {"kind": "schema_parse", "op": "schema_parse", "text": cps(join_odd(rng, lines))}


BREAKS = ["\n", "\n", "\n", "\r\n", "\r", "\x0b", "\x0c", "\x1c", "\x1d", "\x1e", "\x85", "\u2028", "\u2029", "\n\n", "\r\r\n"]
ODD_SPACES = [" ", " ", "\t", "\xa0", "\u2003", "\u3000", "\x1f", "\u1680", "\u202f", "\u205f"]


def join_odd(rng, lines):
    """schema text from lines: odd line breaks, odd spacing, sometimes damaged"""
    out = []
    for ln in lines:
        if rng.random() < 0.3:
            ln = "".join(rng.choice(ODD_SPACES) if ch == " " and rng.random() < 0.5 else ch for ch in ln)
        out.append(ln)
        out.append(rng.choice(BREAKS) if rng.random() < 0.5 else "\n")
    text = "".join(out)
    r = rng.random()
    if r < 0.15 and text:
        text = text[:rng.randrange(len(text))]            # truncated
    elif r < 0.25:
        text = text.rstrip("\n")                          # no final newline
    elif r < 0.3 and text:
        i = rng.randrange(len(text))
        text = text[:i] + rng.choice(["#", ":", " ", "\r", "\x00", "x"]) + text[i:]
    return text


def schema_parse_fixed():
    for lines in (["a:"], ["a:", "  x :integer"], ["item:", "x"], ["item:", "x #c"], ["item:", "x  #c"], ["item:", "x  # c"],
                  ["item:", "x   "], ["x :integer"], ["item:", "item:"], ["item:", "", "item:"], ["a:b:", " x y"],
                  ["item:", "x y#"], ["item:", "x y #  "], ["item:", "x y # z:"], ["item:", "x\ty\tz"], ["1:", "-:"],
                  ["item:", "x :string # a # b"], [":"], ["::"], ["a::"], ["item:", "x :string # é"], ["item:", "x :string", "", "parse:", "y :integer"]):
        yield {"kind": "schema_parse", "op": "schema_parse", "text": cps("\n".join(lines))}
    for text in ("", "\n", "a:", "a:\r\n  x :s\r\n", "a:\r  x :s\r\rb:\r", "a:\x0b  x :s", "a:\x1c x :s\x1d\x1eb:",
                 "a:\x85 x :s", "a:\u2028 x :s \u2029", "a:\n\xa0\xa0x\xa0:s\xa0:k\xa0#\xa0c\xa0\n", "a:\n\u3000x\u2003:s\n",
                 "a:\n x :s\x1f:k\n", "a:\n x :s # c\x1f\n", "item:\n  i-id :integer :key                    # id\n\nparse:\n",
                 "item:\n  i-id :integer :key", "item:\n  i-id :integ", "item\n  i-id :integer", "  i-id :integer\nitem:\n",
                 "item:\n\n\n\n  i-id :integer\n", "item:\nitem:\n", "item:\n x y\nparse:\n z w\nitem:\n", "a:\n x\x00y :s\n"):
        yield {"kind": "schema_parse", "op": "schema_parse", "text": cps(text)}


# ---------------------------------------------------------------- carriage returns and friends

CR_VALUES = ["\r", "\r\n", "\n", "\n\r", "a\rb", "a\r\nb", "\\n", "\\\n", "\\r", "\x00", "a\x00b", "\x0b", "\x0c", "\x1c",
             "\x1d", "\x1e", "\x85", "\u2028", "\u2029", "\r\r", "x\r", "\rx", "@\r@", "\\s\r"]


def cr_hists():
    """every special value through plain and gz, overwrite and overwrite+append, as the only, first and last column"""
    fields = [{"name": cps("i-id"), "dt": ":integer"}, {"name": cps("i-input"), "dt": ":string"},
              {"name": cps("i-comment"), "dt": ":string"}]
    for i, val in enumerate(CR_VALUES):
        rec1 = [{"int": str(i)}, {"str": cps(val)}, {"str": cps("t")}]
        rec2 = [{"int": str(i + 100)}, {"str": cps("h")}, {"str": cps(val)}]
        for gz in (False, True):
            sp = lambda k: SPELLINGS[(i + k + 4 * gz) % len(SPELLINGS)]       # noqa: E731 - every spelling of the directory
            ops = [{"k": "write", "recs": [rec1, rec2], "append": False, "gzip": gz, "schemafile": False, "dir_spelling": sp(0)},
                   {"k": "write", "recs": [rec2, rec1], "append": True, "gzip": False, "schemafile": False, "dir_spelling": sp(1)},
                   {"k": "write", "recs": [rec2], "append": False, "gzip": not gz, "schemafile": True, "dir_spelling": sp(2)},
                   {"k": "write", "recs": [rec1], "append": True, "gzip": False, "schemafile": False, "dir_spelling": sp(3)}]
            start = {"tx": None, "gz": None}
            start["gz" if gz else "tx"] = {"recs": [[cps("7"), cps(val), cps(val + val)]], "mtime": 5}
            yield {"kind": "hist", "op": "hist", "rel": "item", "fields": fields, "start": start, "ops": ops,
                   "sel": [cps("i-comment"), cps("i-input")], "stream": "cr"}



def single_col_hists():
    """single-column relations whose records are empty or blank: the stored line is empty (or one space)"""
    for dt, vals in ((":string", [None, {"str": cps(" ")}, {"str": cps("x")}, {"str": cps("\t")}]),
                     (":integer", [None, {"int": "0"}, {"int": "-1"}]),
                     (":date", [None, {"date": [1970, 1, 1, 0, 0, 0]}])):
        fields = [{"name": cps("x" if dt != ":integer" else "i-wf"), "dt": dt}]
        recs_all = [[x] for x in vals]
        for gz in (False, True):
            for first in ([[None]], [[None], [None]], recs_all, [[None]] + recs_all + [[None]]):
                ops = [{"k": "write", "recs": first, "append": False, "gzip": gz, "schemafile": False},
                       {"k": "write", "recs": [[None]], "append": True, "gzip": False, "schemafile": False},
                       {"k": "write", "recs": recs_all, "append": True, "gzip": False, "schemafile": True},
                       {"k": "write", "recs": [[None], [None]], "append": False, "gzip": not gz, "schemafile": False}]
                start = {"tx": None, "gz": None}
                start["gz" if gz else "tx"] = {"recs": [[None], [cps(" ")] if dt == ":string" else [None], [None]],
                                               "mtime": 5}
                yield {"kind": "hist", "op": "hist", "rel": "item", "fields": fields, "start": start, "ops": ops,
                       "sel": [fields[0]["name"], fields[0]["name"]], "stream": "single_column"}


def gen_hist_cr(rng):
    nf = rng.choice([1, 2, 3])
    fields = [{"name": cps("c%d" % i), "dt": ":string"} for i in range(nf)]
    if rng.random() < 0.5:
        fields.insert(rng.randrange(nf + 1), {"name": cps("i-id"), "dt": ":integer"})

    def sval():
        return "".join(rng.choice(CR_VALUES + ["a", "@", "\\"]) for _ in range(rng.choice([1, 1, 2, 3])))

    def rec():
        return [({"int": str(v.gen_int(rng))} if f["dt"] == ":integer" else {"str": cps(sval())}) for f in fields]

    def rawrec():
        return [cps(str(v.gen_int(rng))) if f["dt"] == ":integer" else cps(sval()) for f in fields]
    ops = []
    for _ in range(rng.choice([1, 2, 3, 4, 6])):
        if rng.random() < 0.85:
            ops.append({"k": "write", "recs": [rec() for _ in range(rng.choice([0, 1, 2, 3]))],
                        "append": rng.random() < 0.45, "gzip": rng.random() < 0.45, "schemafile": rng.random() < 0.2})
        else:
            ops.append({"k": "plant", "gz": rng.random() < 0.5, "recs": [rawrec() for _ in range(rng.choice([1, 2]))],
                        "when": rng.choice(["old", "new", "same"])})
    st = rng.choice(["absent", "tx", "gz", "both_gz", "both_tx"])
    start = {"tx": None, "gz": None}
    if st in ("tx", "both_gz", "both_tx"):
        start["tx"] = {"recs": [rawrec()], "mtime": 9 if st == "both_tx" else 4}
    if st in ("gz", "both_gz", "both_tx"):
        start["gz"] = {"recs": [rawrec(), rawrec()], "mtime": 9 if st == "both_gz" else 4 if st == "both_tx" else 5}
    names = [f["name"] for f in fields]
    return {"kind": "hist", "op": "hist", "rel": "item", "fields": fields, "start": start, "ops": ops,
            "sel": [rng.choice(names) for _ in range(rng.randrange(1, 3))], "stream": "cr"}



# ---------------------------------------------------------------- encodings, malformed records, initialize_database

ENC_VALUES = ["a", "\x7f", "\x80", "é", "\xff", "Ā", "€"]


def enc_hists():
    """`encoding=` through write / Database / open: every boundary value (last ASCII, first non-ASCII, last Latin-1,
    first beyond) as an appended record and in the middle of an overwrite, plain and compressed"""
    fields = [{"name": cps("i-id"), "dt": ":integer"}, {"name": cps("i-input"), "dt": ":string"}]

    def rec(i, text):
        return [{"int": str(i)}, {"str": cps(text)}]
    for enc in ("latin-1", "ascii", "utf-8"):
        base = "é\xff" if enc == "latin-1" else "e\x7f" if enc == "ascii" else "é€"
        for g in (False, True):
            for val in ENC_VALUES:
                ops = [{"k": "write", "recs": [rec(1, base), rec(2, "x")], "append": False, "gzip": g, "schemafile": False},
                       {"k": "write", "recs": [rec(3, val)], "append": True, "gzip": False, "schemafile": False},
                       {"k": "write", "recs": [rec(4, base), rec(5, val), rec(6, "y")], "append": False, "gzip": not g,
                        "schemafile": False},
                       {"k": "write", "recs": [rec(7, val)], "append": False, "gzip": g, "schemafile": True}]
                start = {"tx": None, "gz": None}
                start["gz" if g else "tx"] = {"recs": [[cps("0"), cps(base)]], "mtime": 5}
                yield {"kind": "hist", "op": "hist", "rel": "item", "fields": fields, "start": start, "ops": ops,
                       "sel": "all" if g else [cps("i-input")], "enc": enc, "stream": "encoding"}


def gen_hist_enc(rng):
    enc = rng.choice(["latin-1", "latin-1", "ascii", "utf-8"])
    okc = {"latin-1": ["a", "é", "\xff", "\xa0", "@", "\\", "\n", "\x85"], "ascii": ["a", "@", "\\", "\n", "\x7f", "\r"],
           "utf-8": ["a", "é", "€", "\U0001F600", "\n"]}[enc]
    badc = {"latin-1": ["€", "Ā", "\U0001F600"], "ascii": ["é", "\x80", "€"], "utf-8": []}[enc]
    fields = [{"name": cps("c0"), "dt": ":string"}, {"name": cps("n0"), "dt": ":integer"}, {"name": cps("c1"), "dt": ":string"}]
    fields = fields[:rng.choice([1, 2, 3])]

    def text(bad):
        t = [rng.choice(okc) for _ in range(rng.choice([1, 2, 3]))]
        if bad and badc:
            t.insert(rng.randrange(len(t) + 1), rng.choice(badc))
        return "".join(t)

    def rec(bad=False):
        cols = [i for i, f in enumerate(fields) if f["dt"] == ":string"]
        hit = rng.choice(cols) if bad else None
        return [({"int": str(v.gen_int(rng))} if f["dt"] == ":integer" else {"str": cps(text(i == hit))})
                for i, f in enumerate(fields)]

    def rawrec():
        return [cps(str(v.gen_int(rng))) if f["dt"] == ":integer" else cps(text(False)) for f in fields]
    ops = []
    for _ in range(rng.choice([2, 3, 4, 6])):
        r = rng.random()
        if r < 0.85:
            recs = [rec(rng.random() < 0.2) for _ in range(rng.choice([0, 1, 2, 3]))]
            ops.append({"k": "write", "recs": recs, "append": rng.random() < 0.45, "gzip": rng.random() < 0.4,
                        "schemafile": rng.random() < 0.2})
        else:
            ops.append({"k": "plant", "gz": rng.random() < 0.5, "recs": [rawrec()], "when": rng.choice(["old", "new", "same"])})
    st = rng.choice(["absent", "tx", "gz", "both_gz"])
    start = {"tx": None, "gz": None}
    if st in ("tx", "both_gz"):
        start["tx"] = {"recs": [rawrec()], "mtime": 4}
    if st in ("gz", "both_gz"):
        start["gz"] = {"recs": [rawrec(), rawrec()], "mtime": 9}
    return {"kind": "hist", "op": "hist", "rel": "item", "fields": fields, "start": start, "ops": ops,
            "sel": rng.choice(["all", [fields[-1]["name"]]]), "enc": enc, "stream": "encoding"}


def malformed_hists():
    """a record of the wrong width at every position of a three-record request, from every kind of start, for every
    flag pair: whatever was staged before it must leave no trace (then a normal overwrite and an append)"""
    fields = [{"name": cps("i-id"), "dt": ":integer"}, {"name": cps("i-input"), "dt": ":string"}]
    good = [[{"int": str(k)}, {"str": cps("g%d" % k)}] for k in range(3)]
    for st in ("absent", "tx", "gz", "both_gz"):
        start = {"tx": None, "gz": None}
        if st in ("tx", "both_gz"):
            start["tx"] = {"recs": [[cps("1"), cps("old tx")]], "mtime": 4}
        if st in ("gz", "both_gz"):
            start["gz"] = {"recs": [[cps("2"), cps("old gz")]], "mtime": 9}
        for a in (False, True):
            for g in (False, True):
                for pos in range(3):
                    recs = [list(r) for r in good]
                    recs[pos] = recs[pos][:1] if (pos + a + g) % 2 else recs[pos] + [{"str": cps("x")}]
                    ops = [{"k": "write", "recs": recs, "append": a, "gzip": g, "schemafile": pos == 1},
                           {"k": "write", "recs": good[:2], "append": False, "gzip": g, "schemafile": False},
                           {"k": "write", "recs": recs, "append": True, "gzip": False, "schemafile": False},
                           {"k": "write", "recs": good[2:], "append": True, "gzip": False, "schemafile": False}]
                    yield {"kind": "hist", "op": "hist", "rel": "item", "fields": fields, "start": start, "ops": ops,
                           "sel": [cps("i-id")], "stream": "malformed_position"}


def big_hists(shifts):
    """relations larger than the 8 KiB / 64 KiB / 128 KiB blocks that buffered readers, shutil.copyfileobj and gzip
    work in: an overwrite past 64 KiB, an append past 128 KiB, the whole rewritten compressed and read back, with
    multi-byte characters, CRs and escapes lying across the block boundaries (`shift` moves them byte by byte)"""
    fields = [{"name": cps("i-id"), "dt": ":integer"}, {"name": cps("i-input"), "dt": ":string"}]
    units = ["abcdefghij", "é€\U0001F600z", "x\ry\n@w\\", "0123456789" * 9, "ü" * 33, ""]

    def recs(lo, hi):
        return [[{"int": str(i)}, {"str": cps(units[i % len(units)] * (1 + i % 4))}] for i in range(lo, hi)]
    for shift in shifts:
        first = [[{"int": "0"}, {"str": cps("s" * shift)}]]
        ops = [{"k": "write", "recs": first + recs(1, 1300), "append": False, "gzip": False, "schemafile": False},
               {"k": "write", "recs": recs(1300, 2600), "append": True, "gzip": False, "schemafile": False},
               {"k": "write", "recs": first + recs(1, 2600), "append": False, "gzip": True, "schemafile": False},
               {"k": "write", "recs": first + recs(1, 1300), "append": False, "gzip": False, "schemafile": False}]
        yield {"kind": "hist", "op": "hist", "rel": "item", "fields": fields, "start": {"tx": None, "gz": None},
               "ops": ops, "sel": None, "kept": False, "stream": "big"}


def api_cases():
    """the refusals of the public API around the relation files (each must raise its documented exception and leave
    the directory as it was) and the small accessors"""
    yield {"kind": "api", "op": "api", "fields": [_F("i-id", ":integer"), _F("i-input", ":string")],
           "recs": [[{"int": "1"}, {"str": cps("one")}]]}


def _F(n, dt, fl=None, c=None):
    f = {"name": cps(n), "dt": dt}
    if fl:
        f["flags"] = fl
    if c:
        f["comment"] = c
    return f


def _R(*cells):
    return [None if c is None else cps(c) for c in cells]


def init_fixed():
    """initialize_database: new and existing directories, stale files of both forms for relations inside and outside
    the schema, an old relations file with another schema, files=False / True / left out, schema as an object or a path"""
    T = [{"name": cps("item"), "fields": [_F("i-id", ":integer", [":key"]), _F("i-input", ":string", None, "the text")]},
         {"name": cps("item-set"), "fields": [_F("i-id", ":integer"), _F("s-id", ":integer")]},
         {"name": cps("q"), "fields": [_F("c0", ":string")]}]
    old = [{"name": cps("item"), "fields": [_F("i-input", ":string")]}, {"name": cps("parse"), "fields": [_F("parse-id", ":integer")]}]
    stale = [{"name": cps("item"), "tx": {"recs": [_R("7", "stale")], "mtime": 9}, "gz": {"recs": [_R("8", "g")], "mtime": 4}},
             {"name": cps("item-set"), "tx": None, "gz": {"recs": [_R("1", "2")], "mtime": 5}},
             {"name": cps("q"), "tx": {"recs": [_R("z")], "mtime": 5}, "gz": None},
             {"name": cps("parse"), "tx": {"recs": [_R("5")], "mtime": 5}, "gz": {"recs": [_R("6")], "mtime": 6}},
             {"name": cps("set"), "tx": None, "gz": {"recs": [_R("9")], "mtime": 6}}]
    watch = [cps(n) for n in ("item", "item-set", "q", "parse", "set")]
    for dst, dst_files, old_schema in (("new", [], None), ("existing", stale, None), ("existing", stale, old),
                                       ("existing", stale[:2], old), ("existing", [], None)):
        for files in (None, False, True):
            for via in ("obj", "str_dir", "path_dir", "path_file", "str_file"):
                if via != "obj" and (files is None or dst == "new"):
                    continue
                yield {"kind": "init", "op": "init", "schema": T, "files": files, "dst": dst, "dst_files": dst_files,
                       "old_schema": old_schema, "via": via, "watch": watch}


def gen_init(rng):
    rel = rng.sample(RELNAMES, rng.choice([1, 2, 3]))
    T = [{"name": cps(n), "fields": gen_fields(rng)} for n in rel]
    others = [n for n in RELNAMES if n not in rel]
    around = [{"name": cps(n), "fields": gen_fields(rng)} for n in rel + rng.sample(others, 2)]
    dst = rng.choice(["new", "existing", "existing", "existing"])
    dst_files = [f for f in gen_files(rng, around, p_absent=0.25) if f["tx"] is not None or f["gz"] is not None] \
        if dst == "existing" else []
    return {"kind": "init", "op": "init", "schema": T, "files": rng.choice([None, False, True, True]), "dst": dst,
            "dst_files": dst_files, "old_schema": around[:2] if dst == "existing" and rng.random() < 0.5 else None,
            "via": rng.choice(["obj", "obj", "str_dir", "path_dir", "path_file", "str_file"]),
            "watch": [t["name"] for t in around]}


def db_dup_fixed():
    """a source relation with a repeated column name and records narrower / wider than its schema: the LAST column of
    a name that the record is wide enough to have is the one copied (remake_last / remake_absent / fieldIndex_last)"""
    S = [{"name": cps("item"), "fields": [_F("x", ":string"), _F("y", ":string"), _F("x", ":string")]}]
    files = [{"name": cps("item"), "tx": {"recs": [_R("1", "2", "3"), _R("first", "only two"), _R("a", "b", "c", "d"),
                                                  _R(None, "m", None), _R("solo")], "mtime": 5}, "gz": None}]
    targets = [[{"name": cps("item"), "fields": [_F("x", ":string"), _F("z", ":string")]}],
               [{"name": cps("item"), "fields": [_F("y", ":string"), _F("x", ":string"), _F("x", ":string")]}],
               S]
    for T in targets:
        for dst in ("inplace", "new"):
            for autocast in (False, True):
                # a typed source checks the width of every line (TSDBError): full-width records only there
                src = files if not autocast else [dict(files[0], tx={"recs": [r for r in files[0]["tx"]["recs"] if len(r) == 3],
                                                                     "mtime": 5})]
                yield {"kind": "db", "op": "db", "src_schema": S, "src_files": src, "src_autocast": autocast, "dst": dst,
                       "dst_files": None if dst == "inplace" else [], "names": None, "names_as": "list", "schema": T,
                       "schema_via": "obj", "gzip": autocast, "watch": [cps("item")],
                       "sel": {"item": "all" if autocast else [cps("x")]}, "stream": "duplicate_column"}


def db_enc_fixed():
    """write_database with encodings: source read under one, destination written under another (or the same, then
    also in place); Latin-1 letters survive a Latin-1 / UTF-8 destination and are refused by an ASCII one; a schema
    handed over as a directory or file path (str and Path); the destination being a plain file"""
    S = [{"name": cps("item"), "fields": [_F("i-id", ":integer", [":key"]), _F("i-input", ":string"), _F("x", ":string")]},
         {"name": cps("q"), "fields": [_F("c0", ":string")]}]
    files = [{"name": cps("item"), "tx": {"recs": [_R("1", "é\xff", "a"), _R("2", None, "\xa0@\\")], "mtime": 5}, "gz": None},
             {"name": cps("q"), "tx": {"recs": [_R("plain")], "mtime": 3}, "gz": {"recs": [_R("ÿ"), _R("e")], "mtime": 8}}]
    derived = [{"name": cps("q"), "fields": [_F("c0", ":string"), _F("c1", ":string")]},
               {"name": cps("item"), "fields": [_F("x", ":string"), _F("i-id", ":integer", [":key"], "id"), _F("i-input", ":string")]}]
    stale = [{"name": cps("item"), "tx": {"recs": [_R("7", "é")], "mtime": 9}, "gz": {"recs": [_R("8", "g")], "mtime": 4}}]
    watch = [cps("item"), cps("q")]
    for enc_src, enc in (("latin-1", "latin-1"), ("utf-8", "latin-1"), ("latin-1", "utf-8"), ("latin-1", None),
                         ("utf-8", "ascii"), (None, None)):
        for dst in ("inplace", "new", "existing"):
            if dst == "inplace" and (enc_src or "utf-8") != (enc or "utf-8"):
                continue
            for gz in (False, True):
                for schema, via in ((None, "obj"), (derived, "obj"), (derived, "path_dir" if gz else "str_file"),
                                    (S, "str_dir" if gz else "path_file")):
                    T = schema or S
                    yield {"kind": "db", "op": "db", "src_schema": S, "src_files": files, "src_autocast": False,
                           "dst": dst, "dst_files": None if dst == "inplace" else [] if dst == "new" else
                           (stale if enc != "ascii" else [dict(stale[0], tx={"recs": [_R("7", "e")], "mtime": 9})]),
                           "names": None, "names_as": "list", "schema": schema, "schema_via": via, "gzip": gz,
                           "dst_spelling": SPELLINGS[(3 * gz + len(via)) % len(SPELLINGS)] if dst == "inplace" else "same",
                           "watch": watch, "enc_src": enc_src, "enc": enc,
                           "sel": {uncps(t["name"]): ("all" if gz else [t["fields"][-1]["name"]]) for t in T},
                           "stream": "encoding"}
    for gz in (False, True):
        yield {"kind": "db", "op": "db", "src_schema": S, "src_files": files, "src_autocast": False, "dst": "isfile",
               "dst_files": [], "names": None, "names_as": "list", "schema": None, "gzip": gz, "watch": watch,
               "enc_src": "latin-1", "enc": "latin-1", "sel": {}, "stream": "destination_is_a_file"}

# ---------------------------------------------------------------- the check

class C09(Check):
    pid = "C09"
    props_modules = ["Verif.C09.Props", "Verif.C09.FsProps", "Verif.C09.HistProps"]
    quick_cases = 1000
    thorough_cases = 6000
    rule = ("hist: one relation of 1-5 typed columns, start in {absent, plain, gz, both with plain newer / gz "
            "newer / equal mtime}, 1-12 steps of tsdb.write (append x gzip, 0-3 records of ints incl. huge, "
            "strings over the C08 alphabet, date-times, None; 5% a record of wrong width; 20% fields taken from the "
            "relations file) mixed with stale-file plants (older/newer/equal mtime) and removals; exhaustive over "
            "{empty, one record} x append x gzip up to length 3 (quick) / 4 (thorough) from the six starts. db: 1-4 "
            "source relations, target schema None / same / derived by dropping, adding, reordering columns and "
            "relations, names None or a sub-list given as list / tuple / one-shot iterator / generator (5% with an unknown name), in place / new directory / existing "
            "directory with stale files in both forms, gzip flag. Round 6: the iterable handed to tsdb.write observes the "
            "directory at every pull; one pair of Database objects stays open through each history; encoding= (utf-8 / "
            "latin-1 / ascii, boundary characters U+7F U+80 U+FF U+100, unencodable records at every position) through "
            "write, write_database, Database, open; a record of the wrong width at every position x start x flags; "
            "relations of 100-200 KiB across the 8/64/128 KiB blocks (oracle only); the directory spelled as str / Path / "
            "trailing slash / '..' / relative after chdir / symlink for write and for in-place and existing-directory "
            "write_database; schema handed over as str / Path of a directory or relations file; an old relations file in "
            "the destination; a source relation with a repeated column name and records narrower / wider than it; "
            "select_from with default columns; initialize_database (new / existing directory, stale files inside and "
            "outside the schema, files flag); the API refusals. Non-trivial: at least one write accepted (hist) "
            "or one relation written (db); distinct by JSON text.")
    assumptions = [
        "file system and gzip: a relation is a pair of optional line lists with logical mtimes; gzip is the "
        "identity on content; no crash points (not in the property)",
        "relation names are dot-free (tsdb._get_paths strips a dotted suffix: 'it.a' and 'it.b' share the file "
        "'it' - observation, outside the generated space) and start with a letter or digit; column names over "
        "[a-z0-9-]; datatypes :integer/:string/:date (floats never cross the model boundary)",
        "the relations file is modelled as its character text (write_schema / read_schema through a model of "
        "str.splitlines, str.strip, str.split and hand-coded matchers for the two _parse_schema patterns); \\w is "
        "modelled on ASCII, \\s / str.isspace on ASCII plus FS GS RS US NEL NBSP and the Unicode Zs/LS/PS spaces; "
        "generated relation, field, flag names are ASCII; tsdb.open, Database[...] and the three select_from variants "
        "are modelled and compared after every step (float columns excepted)",
        "write_database sources are opened with autocast=False (raw cells copied verbatim) or autocast=True "
        "(typed values: the model casts every source cell with the C08 cast and prints it with the C08 format; "
        "remake by name on typed values is `remakeV`); cells of planted files are castable in their column and "
        "spelled canonically (str(int), repr(float), D-mon-YYYY[ HH:MM:SS]) so that 'preserved' means the same text "
        "for both kinds of source; cases with a :float column are decided by the direct oracle only",
        "names with a relation repeated (12% of sub-lists): out of place and in place without a new schema the "
        "oracle demands the usual result; in place under a new schema the second pass remakes the file the first "
        "pass rewrote (observed on the code: columns end up swapped, or TSDBError with an autocast source) - the "
        "oracle makes no record claim there, the model follows the code, writeDb_preserves excludes it",
        "a model answer 'unmodelled' (C08 cast boundary) is accepted only where the implementation raised too or "
        "for cast-type reads of foreign stale files left by an aborted write_database; counted in the evidence "
        "(model_answers_unmodelled), as are the float-column cases that get no model request",
        "'preserves every record' is read modulo the documented replacement of an empty cell by Field.default "
        "(-1 for :integer, coded attributes) that tsdb.join applies on every write",
    ]
    trusted_base = ["hand-written model lean/Verif/C09/Model.lean (+ C08 model for escape/split/cast/format), tied "
                    "to delphin.tsdb by the correspondence run",
                    "generated tables fieldDelimiter, tsdbEscapes, codedAttributes read from the live module"]


    # ---- pins: constants of the anchored code that the model / oracle hand-code an equivalent of
    PINNED = [("GetPaths", "_get_paths", True), ("GetPath", "get_path", False), ("Open", "open", False),
              ("Write", "write", True), ("WriteDatabase", "write_database", False),
              ("RemakeRecords", "_remake_records", False), ("MakeRecord", "make_record", False),
              ("CleanupFiles", "_cleanup_files", False), ("InitializeDatabase", "initialize_database", False),
              ("ParseSchema", "_parse_schema", False), ("FormatSchema", "_format_schema", False),
              ("WriteSchema", "write_schema", False), ("ReadSchema", "read_schema", False),
              ("FieldStr", "Field.__str__", False), ("FieldInit", "Field.__init__", False),
              ("Split", "split", False), ("Join", "join", False), ("RelationInit", "Relation.__init__", False),
              ("DatabaseInit", "Database.__init__", False), ("DatabaseGetitem", "Database.__getitem__", False),
              ("SelectFrom", "Database.select_from", False), ("MakeFieldIndex", "make_field_index", False)]

    def tables(self):
        """Constants (string/number/None/bool literals, keyword arguments with literal values, for `_get_paths`
        and `write` also the comparison/boolean operators) of the anchored functions, in source order, read from
        the live module through its AST; docstrings, annotations and everything inside `raise` / `warnings.warn`
        (message texts) left out.  Plus default argument values and the module-level constants."""
        import ast
        import inspect
        import textwrap
        from .common import tables as T

        def resolve(path):
            obj = tsdb
            for part in path.split("."):
                obj = getattr(obj, part)
            return obj

        def consts(fn, ops):
            fdef = ast.parse(textwrap.dedent(inspect.getsource(fn))).body[0]
            doc = ast.get_docstring(fdef, clean=False)
            out = []

            def walk(node, kw=None):
                if isinstance(node, ast.Raise):
                    return
                if (isinstance(node, ast.Call) and isinstance(node.func, ast.Attribute)
                        and node.func.attr == "warn"):
                    return
                if isinstance(node, ast.Constant):
                    val = node.value
                    if isinstance(val, str) and val == doc and kw is None:
                        return
                    out.append(("%s=%r" % (kw, val)) if kw else (val if isinstance(val, str) else repr(val)))
                    return
                if isinstance(node, ast.keyword):
                    walk(node.value, node.arg if isinstance(node.value, ast.Constant) else None)
                    return
                if ops and isinstance(node, ast.Compare):
                    out.extend("op:" + type(o).__name__ for o in node.ops)
                if ops and isinstance(node, (ast.BoolOp, ast.UnaryOp)):
                    out.append("op:" + type(node.op).__name__)
                for ch in ast.iter_child_nodes(node):
                    if isinstance(node, ast.FunctionDef) and (ch is node.args or ch is node.returns):
                        continue
                    if isinstance(ch, ast.AnnAssign):
                        if ch.value is not None:
                            walk(ch.value)
                        continue
                    walk(ch)
            walk(fdef)
            return out
        lit = T.lean_strlit
        lines = []
        defaults = []
        for lean_name, path, ops in self.PINNED:
            fn = resolve(path)
            lines.append("def c09%sConsts : List String := [%s]" % (lean_name, ", ".join(lit(c) for c in consts(fn, ops))))
            defaults.append((path, repr(fn.__defaults__), repr(fn.__kwdefaults__)))
        lines.append("def c09Defaults : List (String × String × String) := [%s]"
                     % ", ".join("(%s, %s, %s)" % (lit(a), lit(b), lit(c)) for a, b, c in defaults))
        lines.append("def c09SchemaFilename : String := %s" % lit(tsdb.SCHEMA_FILENAME))
        lines.append("def c09CastAlias : Bool := %s" % ("true" if tsdb._cast is tsdb.cast else "false"))
        return lines

    root = None
    unmodelled = {}
    no_request = {}

    def extra_evidence(self):
        return {"model_answers_unmodelled": dict(self.unmodelled),
                "cases_without_model_request": dict(self.no_request),
                "unmodelled_rule": "a model answer 'unmodelled' (C08 cast boundary) is accepted only where the "
                                   "implementation raised too, for cast-type reads of foreign stale files left by a "
                                   "write_database that an unknown relation name aborted, or for cast-type reads after an "
                                   "in-place write_database under a new schema that names a relation twice (columns of one "
                                   "datatype then hold text of another); anywhere else it is a disagreement"}

    def setup(self):
        self.unmodelled = {}
        self.no_request = {}
        self.root = tempfile.mkdtemp(dir="/var/tmp", prefix="c09-")

    def teardown(self):
        if self.root:
            shutil.rmtree(self.root, ignore_errors=True)
            self.root = None

    def _dir(self):
        if self.root is None or not os.path.isdir(self.root):
            self.setup()
        return tempfile.mkdtemp(dir=self.root)

    # ---- cases
    def cases(self, rng, tier, n):
        yield from exhaustive_hists(3 if tier == "quick" else 4)
        yield from cr_hists()
        yield from single_col_hists()
        yield from api_cases()
        yield from enc_hists()
        yield from malformed_hists()
        yield from big_hists((0, 1) if tier == "quick" else range(8))
        yield from db_fixed()
        yield from db_enc_fixed()
        yield from db_dup_fixed()
        yield from init_fixed()
        yield from schema_rt_fixed()
        yield from schema_parse_fixed()
        for i in range(n):
            k = i % 20
            if k < 6:
                yield gen_db(rng) if i % 40 != 5 else gen_init(rng)
            elif k < 14:
                yield gen_hist(rng)
            elif k < 16:
                yield gen_hist_cr(rng) if k == 14 else gen_hist_enc(rng)
            elif k < 18:
                yield gen_schema_rt(rng, region=(k == 16 or rng.random() < 0.5))
            else:
                yield gen_schema_parse(rng)

    def search_cases(self, rng, tier, n, seeds):
        kinds = {c.get("kind") for c in seeds} or {"hist", "db"}
        if "hist" in kinds:
            yield from exhaustive_hists(3)
            yield from cr_hists()
            yield from single_col_hists()
            yield from enc_hists()
            yield from malformed_hists()
        if "db" in kinds:
            yield from db_fixed()
            yield from db_enc_fixed()
            yield from db_dup_fixed()
        if "init" in kinds or "db" in kinds:
            yield from init_fixed()
        if kinds & {"schema_rt", "schema_parse", "db"}:
            yield from schema_rt_fixed()
            for _ in range(n // 4):
                yield gen_schema_rt(rng, region=True)
        for _ in range(n):
            if "db" in kinds and ("hist" not in kinds or rng.random() < 0.5):
                yield gen_db(rng)
            else:
                yield gen_hist(rng)

    # ---- implementation
    def impl(self, case):
        d = self._dir()
        try:
            if case["kind"] == "hist":
                return self._impl_hist(case, d)
            if case["kind"] == "schema_rt":
                return self._impl_schema_rt(case, d)
            if case["kind"] == "init":
                return self._impl_init(case, d)
            if case["kind"] == "api":
                return self._impl_api(case, d)
            if case["kind"] == "schema_parse":
                with open(os.path.join(d, "relations"), "wb") as f:
                    f.write(uncps(case["text"]).encode("utf-8"))
                return guarded_schema(lambda: tsdb.read_schema(d))
            return self._impl_db(case, d)
        finally:
            shutil.rmtree(d, ignore_errors=True)

    def _impl_schema_rt(self, case, d):
        schema = mk_schema(case["schema"])
        if case.get("via") == "write_schema":
            tsdb.write_schema(d, schema)
        else:
            tsdb.initialize_database(d, schema)
        with open(os.path.join(d, "relations"), encoding="utf-8", newline="") as f:
            text = f.read()
        return {"text": cps(text),
                "parsed": guarded_schema(lambda: tsdb.Database(d).schema)}

    def _impl_hist(self, case, d):
        name = case["rel"]
        fields = mk_fields(case["fields"])
        enc = case.get("enc")
        kw = enc_kw(enc)
        tsdb.write_schema(d, {name: fields})
        txp, gzp = os.path.join(d, name), os.path.join(d, name + ".gz")
        st = case["start"]
        if st["tx"] is not None:
            plant_file(txp, [[None if c is None else uncps(c) for c in r] for r in st["tx"]["recs"]], False,
                       st["tx"]["mtime"], enc=enc)
        if st["gz"] is not None:
            plant_file(gzp, [[None if c is None else uncps(c) for c in r] for r in st["gz"]["recs"]], True,
                       st["gz"]["mtime"], enc=enc)
        # ONE pair of Database objects lives through the whole history (a reader that stays open across writes)
        kept = tsdb.Database(d, **kw)
        kept_auto = tsdb.Database(d, autocast=True, **kw)

        def obs(res):
            o = {"res": res}
            o.update(observe_rel(d, name, True, case.get("sel"), enc))
            if case.get("kept", True):
                o["kept"] = guarded(lambda: read_raw(kept, name))
                o["kept_cast"] = guarded(lambda: read_cast(kept_auto, name))
                if res == "start":
                    o["kept_meta"] = [list(kept), len(kept_auto), os.fspath(kept.path) == os.fspath(d)]
            o["listing"] = sorted(os.listdir(d))
            o["digest"] = digest(d)
            return o
        out = [obs("start")]
        for k, op in enumerate(case["ops"]):
            watched = None
            if op["k"] == "write":
                recs = [tuple(v.py_val(x) for x in r) for r in op["recs"]]
                watched = Watched(d, name, recs)
                try:
                    with Spelled(d, op.get("dir_spelling")) as d_arg:
                        tsdb.write(d_arg, name, watched, None if op.get("schemafile") else fields,
                                   append=op["append"], gzip=op["gzip"], **kw)
                    res = "ok"
                except Exception as e:  # noqa: BLE001
                    res = tag(e)
            elif op["k"] == "plant":
                p, q = (gzp, txp) if op["gz"] else (txp, gzp)
                recs = [[None if c is None else uncps(c) for c in r] for r in op["recs"]]
                if op["when"] == "old":
                    plant_file(p, recs, op["gz"], mtime=1, enc=enc)
                elif op["when"] == "new" or not os.path.isfile(q):
                    plant_file(p, recs, op["gz"], mtime=NEW0 + k, enc=enc)
                else:
                    plant_file(p, recs, op["gz"], mtime_ns=os.stat(q).st_mtime_ns, enc=enc)
                res = "planted"
            else:
                p = gzp if op["gz"] else txp
                if os.path.isfile(p):
                    os.unlink(p)
                res = "removed"
            o = obs(res)
            if watched is not None:
                o["during"] = watched.seen
                o["tmp_left"] = any(fn.endswith(".tmp") for fn in o["listing"])
            out.append(o)
        return out

    def _plant_all(self, d, files, enc=None):
        for f in files:
            n = uncps(f["name"])
            for form, gz in (("tx", False), ("gz", True)):
                if f[form] is not None:
                    plant_file(os.path.join(d, n + (".gz" if gz else "")),
                               [[None if c is None else uncps(c) for c in r] for r in f[form]["recs"]],
                               gz, f[form]["mtime"], enc=enc)

    def _impl_api(self, case, d):
        fields = mk_fields(case["fields"])
        recs = [tuple(v.py_val(x) for x in r) for r in case["recs"]]
        bare = os.path.join(d, "bare")            # a directory without relations file
        os.mkdir(bare)
        dbd = os.path.join(d, "db")
        os.mkdir(dbd)
        tsdb.write_schema(dbd, {"item": fields})
        plainfile = os.path.join(d, "file")
        with open(plainfile, "wb") as f:
            f.write(b"x")

        def listing():
            return {n: sorted(os.listdir(os.path.join(d, n))) for n in ("bare", "db")}
        before = listing()
        out = {}

        def t(key, f):
            r = guarded(f)
            out[key] = r["err"] if "err" in r else "ok"
        t("write_into_missing_directory", lambda: tsdb.write(os.path.join(d, "nosuch"), "item", iter(recs), fields))
        t("write_into_plain_file", lambda: tsdb.write(plainfile, "item", iter(recs), fields))
        t("write_fields_none_without_relations_file", lambda: tsdb.write(bare, "item", iter(recs)))
        t("write_fields_none_unknown_relation", lambda: tsdb.write(dbd, "nosuch", iter(recs)))
        t("database_of_bare_directory", lambda: tsdb.Database(bare))
        t("database_of_missing_directory", lambda: tsdb.Database(os.path.join(d, "nosuch")))
        t("read_schema_of_bare_directory", lambda: tsdb.read_schema(bare))
        t("getitem_unknown_relation", lambda: tsdb.Database(dbd)["nosuch"])
        t("select_raw_unknown_relation", lambda: list(tsdb.Database(dbd)._select_raw("nosuch")))
        t("select_from_unknown_relation", lambda: list(tsdb.Database(dbd).select_from("nosuch")))
        t("select_from_unknown_column", lambda: list(tsdb.Database(dbd).select_from("item", ["nosuch"])))
        t("getitem_relation_without_file", lambda: tsdb.Database(dbd)["item"])
        t("get_path_without_file", lambda: tsdb.get_path(dbd, "item"))
        t("open_without_file", lambda: tsdb.open(dbd, "item"))
        out["is_database_directory"] = [tsdb.is_database_directory(x) for x in (dbd, bare, plainfile, os.path.join(d, "nosuch"))]
        out["unchanged"] = listing() == before and not os.path.exists(os.path.join(d, "nosuch"))
        sfile = os.path.join(d, "a-schema-file")
        t("write_schema_to_a_file_path", lambda: tsdb.write_schema(sfile, {"item": fields}))
        back = guarded(lambda: tsdb.read_schema(sfile))
        out["schema_file_round_trip"] = "ok" in back and dict(back["ok"]) == {"item": fields}
        t("write_encoding_none", lambda: tsdb.write(dbd, "item", iter(recs), fields, encoding=None))
        out["after_write_encoding_none"] = guarded(lambda: read_raw(tsdb.Database(dbd), "item"))
        return out

    def _impl_init(self, case, d):
        """initialize_database on a new or an existing directory (stale files of both forms, an old relations file)"""
        dst = os.path.join(d, "dst")
        if case["dst"] == "existing":
            os.mkdir(dst)
            self._plant_all(dst, case["dst_files"])
            if case.get("old_schema") is not None:
                tsdb.write_schema(dst, mk_schema(case["old_schema"]))
        schema = mk_schema(case["schema"])
        via = case.get("via", "obj")
        if via != "obj":
            sdir = os.path.join(d, "schema-dir")
            os.mkdir(sdir)
            tsdb.write_schema(sdir, schema)
            target = sdir if via.endswith("_dir") else os.path.join(sdir, "relations")
            if via.startswith("path_"):
                import pathlib
                target = pathlib.Path(target)
            schema = target
        kw = {} if case["files"] is None else {"files": case["files"]}
        try:
            tsdb.initialize_database(dst, schema, **kw)
            res = "ok"
        except Exception as e:  # noqa: BLE001
            res = tag(e)
        out = {"res": res}
        back = guarded(lambda: tsdb.read_schema(dst))
        sch = back.get("ok")
        out["schema"] = {"ok": j_schema(sch)} if sch is not None else back
        out["rels"] = [observe_rel(dst, uncps(w), sch is not None and uncps(w) in sch, "all") for w in case["watch"]]
        out["listing"] = sorted(os.listdir(dst)) if os.path.isdir(dst) else None
        return out

    def _impl_db(self, case, d):
        src = os.path.join(d, "src")
        os.mkdir(src)
        S = mk_schema(case["src_schema"])
        enc_src, enc = case.get("enc_src"), case.get("enc")
        tsdb.write_schema(src, S)
        self._plant_all(src, case["src_files"], enc_src)
        if case["dst"] == "inplace":
            dst = src
        else:
            dst = os.path.join(d, "dst")
            if case["dst"] == "existing":
                os.mkdir(dst)
                self._plant_all(dst, case["dst_files"], enc)
                if case.get("dst_old_schema") is not None:
                    tsdb.write_schema(dst, mk_schema(case["dst_old_schema"]))     # superseded by the call
            elif case["dst"] == "isfile":
                with open(dst, "wb") as f:
                    f.write(b"not a directory\n")
        db = tsdb.Database(src, autocast=bool(case.get("src_autocast", False)), **enc_kw(enc_src))
        schema = mk_schema(case["schema"]) if case["schema"] is not None else None
        via = case.get("schema_via", "obj")
        if schema is not None and via != "obj":
            # the schema is handed over as a path: of a directory holding a relations file, or of such a file
            sdir = os.path.join(d, "schema-dir")
            os.mkdir(sdir)
            tsdb.write_schema(sdir, schema)
            target = sdir if via.endswith("_dir") else os.path.join(sdir, "relations")
            if via.startswith("path_"):
                import pathlib
                target = pathlib.Path(target)
            schema = target
        names = [uncps(n) for n in case["names"]] if case["names"] is not None else None
        if names is not None:
            how = case.get("names_as", "list")
            if how == "iter":
                names = iter(names)             # one-shot iterator (F51 regression)
            elif how == "gen":
                names = (n for n in list(names))
            elif how == "tuple":
                names = tuple(names)
        try:
            with Spelled(dst, case.get("dst_spelling")) as dst_arg:
                tsdb.write_database(db, dst_arg, names=names, schema=schema, gzip=case["gzip"], **enc_kw(enc))
            res = "ok"
        except Exception as e:  # noqa: BLE001
            res = tag(e)
        out = {"res": res}
        if case["dst"] == "isfile":
            with open(dst, "rb") as f:
                out["file_untouched"] = f.read() == b"not a directory\n"
            return out
        back = guarded(lambda: tsdb.read_schema(dst))
        if "ok" in back:
            sch = back["ok"]
            out["schema"] = {"ok": j_schema(sch)}
            given = mk_schema(case["schema"] if case["schema"] is not None else case["src_schema"])
            out["schema_eq"] = dict(sch) == given and list(sch) == list(given)        # Field.__eq__
        else:
            sch = None
            out["schema"] = back
        rels = []
        for wn in case["watch"]:
            n = uncps(wn)
            readable = sch is not None and n in sch
            rels.append(observe_rel(dst, n, readable, case["sel"].get(n) if readable else None, enc))
        out["rels"] = rels
        out["listing"] = sorted(os.listdir(dst)) if os.path.isdir(dst) else None
        return out

    # ---- model
    def model_request(self, case):
        if case["kind"] == "hist":
            return {"op": "hist", "fields": [{"name": f["name"], "dt": f["dt"]} for f in case["fields"]],
                    "start": case["start"], "ops": case["ops"], "sel": case.get("sel"), "enc": case.get("enc")}
        if case["kind"] == "schema_rt":
            return {"op": "schema_rt", "schema": model_schema(case["schema"])}
        if case["kind"] == "schema_parse":
            return {"op": "schema_parse", "text": case["text"]}
        if case["kind"] == "api":
            self.no_request["api_refusals"] = self.no_request.get("api_refusals", 0) + 1
            return None
        if case["kind"] == "init":
            return {"op": "init", "schema": model_schema(case["schema"]), "files": bool(case["files"]),
                    "dst_files": case["dst_files"] if case["dst"] == "existing" else [], "watch": case["watch"]}
        if case["dst"] == "isfile":
            self.no_request["db_destination_is_a_file"] = self.no_request.get("db_destination_is_a_file", 0) + 1
            return None                       # decided by the direct oracle: TSDBError, file untouched
        sj = model_schema
        if any(f["dt"] == ":float" for sc in (case["src_schema"], case["schema"] or []) for t in sc for f in t["fields"]):
            self.no_request["db_with_float_column"] = self.no_request.get("db_with_float_column", 0) + 1
            return None                       # float columns: direct oracle only
        return {"op": "db", "src_schema": sj(case["src_schema"]), "src_files": case["src_files"],
                "src_autocast": bool(case.get("src_autocast", False)),
                "dst_files": case["dst_files"] if case["dst"] != "inplace" else None,
                "names": case["names"], "schema": sj(case["schema"]) if case["schema"] is not None else None,
                "gzip": case["gzip"], "watch": case["watch"], "enc": case.get("enc"),
                "schema_via": case.get("schema_via", "obj"),
                "sel": [case["sel"].get(uncps(w)) for w in case["watch"]]}

    def model_expected(self, case, impl_res):
        return strip(impl_res)

    def model_compare(self, case, expected, answer):
        hits = []
        if loose_eq(expected, answer, hits):
            # the model declined to answer somewhere.  Acceptable (and counted) only where the implementation
            # raised as well, or in the documented class: cast-type reads of foreign stale files that a
            # write_database aborted by an unknown relation name left behind.
            aborted = case["kind"] == "db" and isinstance(expected, dict) and expected.get("res") != "ok"
            # third documented class: an in-place write_database under a new schema that names a relation twice
            # remakes, on the second pass, the file the first pass rewrote (old field list on new lines), so text of
            # one column lands in a column of another datatype (e.g. 'False' in a :date column); files, raw reads and
            # tsdb.open are still compared exactly, only the cast-type reads hit the C08 cast boundary there
            nm = case.get("names") if case["kind"] == "db" else None
            repeated = (case["kind"] == "db" and case["dst"] == "inplace" and case["schema"] is not None
                        and nm is not None and len({tuple(x) for x in nm}) < len(nm))
            for h in hits:
                impl_err = isinstance(h, dict) and "err" in h
                key = ("impl_error" if impl_err else "impl_ok_aborted_db" if aborted
                       else "impl_ok_repeated_names_inplace" if repeated else "impl_ok")
                self.unmodelled[key] = self.unmodelled.get(key, 0) + 1
                if not impl_err and not aborted and not repeated:
                    return {"unmodelled_where_implementation_succeeded": h, "model": answer}
            return None
        if isinstance(expected, list) and isinstance(answer, list) and len(expected) == len(answer):
            for i, (a, b) in enumerate(zip(expected, answer)):
                if not loose_eq(a, b):
                    return {"step": i, "expected_from_impl": a, "model": b}
        return {"expected_from_impl": expected, "model": answer}

    # ---- direct oracle
    def oracle(self, case, res):
        if case["kind"] == "hist":
            return oracle_hist(case, res)
        if case["kind"] == "schema_rt":
            if case.get("region") and res["parsed"] != {"ok": want_schema_of(case["schema"])}:
                return [{"clause": "a database initialised with a schema cannot be opened with the same schema",
                         "detail": {"text": uncps(res["text"]), "got": res["parsed"]}}]
            return []
        if case["kind"] == "schema_parse":
            return []
        if case["kind"] == "init":
            return oracle_init(case, res)
        if case["kind"] == "api":
            want = {"write_into_missing_directory": "TSDBError", "write_into_plain_file": "TSDBError",
                    "write_fields_none_without_relations_file": "TSDBError", "write_fields_none_unknown_relation": "KeyError",
                    "database_of_bare_directory": "TSDBError", "database_of_missing_directory": "TSDBError",
                    "read_schema_of_bare_directory": "TSDBSchemaError", "getitem_unknown_relation": "TSDBError",
                    "select_raw_unknown_relation": "TSDBError", "select_from_unknown_relation": "KeyError",
                    "select_from_unknown_column": "KeyError", "getitem_relation_without_file": "TSDBError",
                    "get_path_without_file": "TSDBError", "open_without_file": "TSDBError",
                    "is_database_directory": [True, False, False, False], "unchanged": True,
                    "write_encoding_none": "ok", "write_schema_to_a_file_path": "ok", "schema_file_round_trip": True,
                    "after_write_encoding_none": {"ok": [[cps("1"), cps("one")]]}}
            return [{"clause": "API refusal or accessor differs from the documented behaviour: " + k,
                     "detail": {"want": w, "got": res.get(k)}} for k, w in want.items() if res.get(k) != w]
        return oracle_db(case, res)

    # ---- bookkeeping
    def nontrivial_key(self, case, res):
        if case["kind"] == "hist":
            if not any(o["res"] == "ok" for o in res):
                return None
        elif case["kind"] in ("schema_rt", "init", "api"):
            pass
        elif case["kind"] == "schema_parse":
            if not case["text"]:
                return None
        elif res["res"] != "ok" or not any(r.get("tx") or r.get("gz") for r in res.get("rels", [])):
            return None
        return super().nontrivial_key(case, res)

    def stats(self, case, res, c):
        def inc(k, n=1):
            c[k] = c.get(k, 0) + n
        inc("kind:" + case["kind"])
        if case["kind"] == "schema_rt":
            inc("schema_rt.region:%s" % bool(case.get("region")))
            inc("schema_rt.parsed:" + ("ok" if "ok" in res["parsed"] else res["parsed"]["err"]))
            inc("schema_rt.tables:%d" % min(len(case["schema"]), 4))
            if any(len(uncps(t["name"])) == 1 for t in case["schema"]):
                inc("schema_rt.one_char_relation")
            if any(f.get("comment") for t in case["schema"] for f in t["fields"]):
                inc("schema_rt.with_comment")
            if any(len(l) > 42 and "#" in l for l in uncps(res["text"]).splitlines()):
                inc("schema_rt.comment_without_padding")
        elif case["kind"] == "schema_parse":
            inc("schema_parse:" + ("ok" if "ok" in res else res["err"]))
        elif case["kind"] == "api":
            for k, x in res.items():
                if isinstance(x, str):
                    inc("api.%s:%s" % (k, x))
        elif case["kind"] == "init":
            inc("init.dst:" + case["dst"] + (":old_relations_file" if case.get("old_schema") else ""))
            inc("init.files:%s" % case["files"])
            inc("init.schema_via:" + case.get("via", "obj"))
            inc("init.res:" + res["res"])
            T = {uncps(t["name"]) for t in case["schema"]}
            for f in (case["dst_files"] if case["dst"] == "existing" else []):
                inside = uncps(f["name"]) in T
                for form in ("tx", "gz"):
                    if f[form] is not None:
                        inc("init.stale_file_%s_schema:%s" % ("inside" if inside else "outside", form))
        elif case["kind"] == "hist":
            if case.get("stream"):
                inc("hist.stream:" + case["stream"])
            inc("hist.encoding:%s" % (case.get("enc") or "default"))
            inc("hist.sel:" + ("none" if case.get("sel") is None else "all" if case.get("sel") == "all" else "columns"))
            if case.get("kept", True):
                inc("hist.long_lived_readers")
            inc("hist.records_pulled_while_watching", sum(len(o.get("during") or []) for o in res))
            inc("hist.len:%d" % min(len(case["ops"]), 12))
            st = case["start"]
            both = st["tx"] is not None and st["gz"] is not None
            inc("hist.start:" + ("both" if both else "tx" if st["tx"] is not None else "gz" if st["gz"] is not None
                                 else "absent"))
            for op, o, prev in zip(case["ops"], res[1:], res):
                if op["k"] != "write":
                    inc("hist.op:" + op["k"] + (":" + op["when"] if op["k"] == "plant" else ""))
                    continue
                inc("hist.write:%s%s:%s" % ("append" if op["append"] else "overwrite", "+gzip" if op["gzip"] else "",
                                            o["res"]))
                inc("hist.write.nrec:%d" % min(len(op["recs"]), 3))
                if op.get("dir_spelling", "same") != "same":
                    inc("hist.write.dir_spelling:" + op["dir_spelling"])
                if prev["tx"] and prev["gz"]:
                    inc("hist.write.on_both_forms")
                if o["res"] == "ok":
                    inc("hist.result_form:" + ("gz" if o["gz"] else "tx"))
                    if op["gzip"] and not o["gz"]:
                        inc("hist.gzip_requested_but_empty")
            inc("hist.cols:%d" % len(case["fields"]))
        else:
            inc("db.dst:" + case["dst"] + (":old_relations_file" if case.get("dst_old_schema") else ""))
            inc("db.schema:" + ("none" if case["schema"] is None else "same" if case["schema"] == case["src_schema"]
                                else "derived"))
            inc("db.names:" + ("none" if case["names"] is None else "sublist:" + case.get("names_as", "list")))
            if case["names"] is not None and len({tuple(x) for x in case["names"]}) < len(case["names"]):
                inc("db.names_repeated:" + case["dst"] + (":schema" if case["schema"] is not None else ""))
            inc("db.gzip:%s" % case["gzip"])
            if case.get("dst_spelling", "same") != "same":
                inc("db.dst_spelling:%s:%s" % (case["dst"], case["dst_spelling"]))
            inc("db.encoding:%s->%s" % (case.get("enc_src") or "default", case.get("enc") or "default"))
            inc("db.schema_via:" + (case.get("schema_via", "obj") if case["schema"] is not None else "no schema"))
            if any(x == "all" for x in case["sel"].values()):
                inc("db.select_from_default_columns")
            inc("db.src_autocast:%s" % bool(case.get("src_autocast")))
            if any(f["dt"] == ":float" for t in case["src_schema"] for f in t["fields"]):
                inc("db.with_float_column")
            if case.get("stream"):
                inc("db.stream:" + case["stream"])
            zeros = sum(1 for f in case["src_files"] for form in ("tx", "gz") if f[form] for r in f[form]["recs"]
                        for c in r if c in ([48], [48, 46, 48], [45, 48, 46, 48]))
            if zeros:
                inc("db.src_cells_zero", zeros)
            inc("db.res:" + res["res"])
            inc("db.relations_src:%d" % len(case["src_schema"]))
            if any(len({tuple(f["name"]) for f in t["fields"]}) < len(t["fields"]) for t in case["src_schema"]):
                inc("db.src_duplicate_column")
            if "err" in res.get("schema", {}):
                inc("db.schema_unreadable:" + res["schema"]["err"])
            for r in res.get("rels", []):
                if "raw" in r:
                    inc("db.rel_read:" + ("gz" if r["gz"] else "tx" if r["tx"] else "nofile"))

    def shrink(self, case, still_fails):
        if case["kind"] != "hist":
            return case
        cur = case
        changed = True
        while changed:
            changed = False
            for i in range(len(cur["ops"])):
                cand = dict(cur, ops=cur["ops"][:i] + cur["ops"][i + 1:])
                if cand["ops"] and still_fails(cand):
                    cur = cand
                    changed = True
                    break
            else:
                for i, op in enumerate(cur["ops"]):
                    if op["k"] == "write" and len(op["recs"]) > 1:
                        cand = dict(cur, ops=cur["ops"][:i] + [dict(op, recs=op["recs"][:1])] + cur["ops"][i + 1:])
                        if still_fails(cand):
                            cur = cand
                            changed = True
                            break
        return cur


# ---------------------------------------------------------------- oracle: histories

def _row_expect(fields, rec):
    """(raw cells, cast cells) a correctly stored typed record reads back as"""
    raw, cast = [], []
    for f, val in zip(fields, rec):
        name, dt = uncps(f["name"]), f["dt"]
        text = n_format(name, dt, v.py_val({k: x for k, x in val.items() if k != "denotes"}) if val else None)
        raw.append(None if text == "" else cps(text))
        if val is not None and "denotes" in val:
            cast.append({"date": list(val["denotes"])})
        elif val is not None and "date" in val:
            cast.append({"date": list(val["date"])})
        else:
            cast.append(n_cast(dt if dt != ":date" else ":string", text))
    return raw, cast


def _planted_expect(fields, rec):
    raw, cast = [], []
    for f, c in zip(fields, rec):
        text = "" if c is None else uncps(c)
        raw.append(None if text == "" else cps(text))
        if f["dt"] == ":date" and text:
            d = datetime.datetime.strptime(_date_iso(text), "%Y-%m-%d %H:%M:%S")
            cast.append({"date": [d.year, d.month, d.day, d.hour, d.minute, d.second]})
        else:
            cast.append(n_cast(f["dt"], text))
    # rows planted with another width are only ever read raw
    return raw, cast


def _date_iso(text):
    m = re.match(r"^(\d+)-([a-z]{3})-(\d{4})(?: (\d\d):(\d\d):(\d\d))?$", text)
    d, mon, y = int(m.group(1)), MONTHS.index(m.group(2)) + 1, int(m.group(3))
    return "%04d-%02d-%02d %02d:%02d:%02d" % (y, mon, d, int(m.group(4) or 0), int(m.group(5) or 0),
                                              int(m.group(6) or 0))


def _project(rows, fields, sel):
    names = [uncps(f["name"]) for f in fields]
    idx = {n: i for i, n in enumerate(names)}           # last column of that name
    if sel == "all":
        sel = [f["name"] for f in fields]               # documented default: every column, in schema order
    return [[r[idx[uncps(c)]] for c in sel] for r in rows]


def oracle_hist(case, res):
    fails = []

    def fail(clause, detail):
        fails.append({"clause": clause, "detail": detail})
    fields = case["fields"]
    nf = len(fields)
    name = case["rel"]
    enc = case.get("enc")
    # environment bookkeeping: which physical files exist, with what rows and mtime
    phys = {"tx": None, "gz": None}
    for form in ("tx", "gz"):
        if case["start"][form] is not None:
            rows = [_planted_expect(fields, r) for r in case["start"][form]["recs"]]
            phys[form] = (rows, case["start"][form]["mtime"])

    def current():
        """what reading must return: the newer file wins, plain on a tie"""
        tx, gz = phys["tx"], phys["gz"]
        if gz is not None and (tx is None or gz[1] > tx[1]):
            return gz[0], True
        if tx is not None:
            return tx[0], False
        return None, False

    def check_read(o, step, why):
        rows, _ = current()
        want_files = (phys["tx"] is not None, phys["gz"] is not None)
        if (o["tx"], o["gz"]) != want_files:
            fail("files present differ from what the history requires (%s)" % why,
                 {"step": step, "want_tx_gz": want_files, "got": (o["tx"], o["gz"])})
        want_listing = sorted(["relations"] + ([name] if want_files[0] else []) + ([name + ".gz"] if want_files[1] else []))
        if o["listing"] != want_listing:
            fail("directory holds unexpected files (%s)" % why, {"step": step, "listing": o["listing"]})
        if rows is None:
            if o["raw"] != {"err": "TSDBError"}:
                fail("reading an absent relation does not raise TSDBError", {"step": step, "got": o["raw"]})
            return
        if o["raw"] != {"ok": [r[0] for r in rows]}:
            fail("raw read differs from last overwrite + later appends (%s)" % why,
                 {"step": step, "want": [r[0] for r in rows], "got": o["raw"]})
        if "kept_meta" in o and o["kept_meta"] != [[name], 1, True]:
            fail("a Database does not enumerate its relations / report its path", {"got": o["kept_meta"]})
        if "selraw" in o and o["selraw"] != o["sel"] and (
                case.get("sel") != "all" or len({tuple(f["name"]) for f in fields}) == nf):
            fail("the raw column-selecting read differs from select_from (%s)" % why,
                 {"step": step, "selraw": o["selraw"], "sel": o["sel"]})
        if "kept" in o and (o["kept"] != o["raw"] or o["kept_cast"] != o["cast"]):
            fail("a Database object opened before the writes reads something else than a fresh one (%s)" % why,
                 {"step": step, "kept": o["kept"], "fresh": o["raw"]})
        if "open" in o and o["open"] != {"ok": [cps(n_line([None if c is None else uncps(c) for c in r[0]]) + "\n") for r in rows]}:
            fail("tsdb.open lines differ from last overwrite + later appends (%s)" % why,
                 {"step": step, "got": o["open"]})
        if all(len(r[0]) == nf for r in rows):
            if o["cast"] != {"ok": [r[1] for r in rows]}:
                fail("autocast read differs from the typed records written (%s)" % why,
                     {"step": step, "want": [r[1] for r in rows], "got": o["cast"]})
            sel = case.get("sel")
            if sel:
                if o["sel"] != {"ok": _project([r[0] for r in rows], fields, sel)}:
                    fail("select_from differs from the projection of the records (%s)" % why,
                         {"step": step, "got": o["sel"]})
                want = {"ok": _project([r[1] for r in rows], fields, sel)}
                if o["selcast"] != want or o["selauto"] != want:
                    fail("select_from with cast differs from the projection of the typed records (%s)" % why,
                         {"step": step, "got": [o["selcast"], o["selauto"]], "want": want})

    check_read(res[0], 0, "start")
    for k, (op, o) in enumerate(zip(case["ops"], res[1:])):
        step = k + 1
        prev = res[k]
        if op["k"] == "plant":
            rows = [_planted_expect(fields, r) for r in op["recs"]]
            form, other = ("gz", "tx") if op["gz"] else ("tx", "gz")
            if op["when"] == "old":
                mt = 1
            elif op["when"] == "new" or phys[other] is None:
                mt = NEW0 + k
            else:
                mt = phys[other][1]
            phys[form] = (rows, mt)
            check_read(o, step, "after plant")
            continue
        if op["k"] == "remove":
            phys["gz" if op["gz"] else "tx"] = None
            check_read(o, step, "after remove")
            continue
        before, compressed = current()
        malformed = any(len(r) != nf for r in op["recs"])
        unenc = any(len(r) == nf and not all(encodable("" if c is None else uncps(c), enc)
                                             for c in _row_expect(fields, r)[0]) for r in op["recs"])
        # temp-file staging: whenever the records were asked for, the relation files still held their old bytes
        # and nothing but the one temp file had appeared
        # (whether the temp file exists yet at that moment is the code's business: compared with the model only)
        for i, w in enumerate(o.get("during") or []):
            if not w["same"] or w["stray"]:
                fail("the relation files changed (or stray files appeared) while the records were still being read",
                     {"step": step, "pull": i, "seen": w})
                break
        if o.get("tmp_left"):
            fail("a temp file was left in the directory", {"step": step, "listing": o["listing"]})
        if o["res"] == "ok":
            if malformed:
                return fails          # outside the property: what a malformed record stores is undefined
            if unenc:
                fail("a record the encoding cannot represent was accepted", {"step": step, "enc": enc})
                return fails
            new = [_row_expect(fields, r) for r in op["recs"]]
            content = ((before or []) + new) if op["append"] else new
            want_gz = bool(op["gzip"]) and len(content) > 0
            phys = {"tx": None, "gz": None}
            phys["gz" if want_gz else "tx"] = (content, MID)
            check_read(o, step, "after accepted write")
        else:
            if o["res"] == "NotImplementedError":
                if not (op["append"] and (op["gzip"] or compressed)):
                    fail("a write the API documents as accepted was refused",
                         {"step": step, "append": op["append"], "gzip": op["gzip"], "compressed": compressed})
            elif o["res"] == "TSDBError":
                if not malformed:
                    fail("write of well-formed records raised TSDBError", {"step": step})
            elif o["res"] == "ValueError":
                if not unenc:
                    fail("write of encodable records raised ValueError", {"step": step, "enc": enc})
            else:
                fail("write raised an undocumented exception", {"step": step, "res": o["res"]})
            skip = ("res", "during", "tmp_left", "kept_meta")
            same = {k2: x for k2, x in o.items() if k2 not in skip} == {k2: x for k2, x in prev.items() if k2 not in skip}
            if not same:
                fail("a rejected write changed the stored data", {"step": step, "before": strip(prev), "after": strip(o)})
            check_read(o, step, "after rejected write")
    return fails


# ---------------------------------------------------------------- oracle: write_database

def _newer(f):
    """rows of the file a reader must see: the newer form, plain on a tie; None if absent"""
    tx, gz = f["tx"], f["gz"]
    if gz is not None and (tx is None or gz["mtime"] > tx["mtime"]):
        return gz["recs"]
    if tx is not None:
        return tx["recs"]
    return None


def oracle_db(case, res):
    fails = []

    def fail(clause, detail):
        fails.append({"clause": clause, "detail": detail})
    S = {uncps(t["name"]): t["fields"] for t in case["src_schema"]}
    Tl = case["schema"] if case["schema"] is not None else case["src_schema"]
    T = {uncps(t["name"]): t["fields"] for t in Tl}
    names = [uncps(n) for n in case["names"]] if case["names"] is not None else list(T)
    if case["dst"] == "isfile":
        if res["res"] != "TSDBError" or not res.get("file_untouched"):
            fail("write_database onto an existing plain file did not raise TSDBError leaving the file alone", res)
        return fails
    if any(fn.endswith(".tmp") for fn in (res.get("listing") or [])):
        fail("a temp file was left in the destination directory", res["listing"])
    if any(n not in T for n in names):
        if res["res"] != "KeyError":
            fail("a name outside the destination schema did not raise KeyError", res["res"])
        return fails
    if res["res"] != "ok":
        if case["dst"] == "inplace" and case["schema"] is not None and len(set(names)) < len(names):
            # documented exclusion (see below): the second pass over a relation named twice reads the file the
            # first pass rewrote under the new schema, with the old fields - with an autocast source the width
            # check may then raise.  The model follows the code; no claim is made.
            return fails
        if res["res"] == "ValueError" and case.get("enc") not in (None, "utf-8"):
            # a character of a source relation that the destination encoding cannot represent: the call is
            # rejected (what it had written before stays; the model follows the code)
            srcf = {uncps(f["name"]): f for f in case["src_files"]}
            if any(not encodable(uncps(c), case["enc"]) for n in names if n in S and n in srcf
                   for r in (_newer(srcf[n]) or []) for c in r if c is not None):
                return fails
        fail("write_database raised on a valid request", res["res"])
        return fails
    # schema text round trip
    want_schema = want_schema_of(Tl)
    if res["schema"] != {"ok": want_schema} or not res.get("schema_eq"):
        fail("the schema read back differs from the schema written", {"want": want_schema, "got": res["schema"]})
        return fails
    src_files = {uncps(f["name"]): f for f in case["src_files"]}
    obs = {uncps(w): r for w, r in zip(case["watch"], res["rels"])}
    listing_ok = {"relations"}
    for n, tf in T.items():
        o = obs[n]
        if n not in names:
            if o["tx"] or o["gz"]:
                fail("a stale file remains for a relation of the target schema that was not written",
                     {"relation": n, "tx": o["tx"], "gz": o["gz"]})
            continue
        rows = []
        if n in S and n in src_files and _newer(src_files[n]) is not None:
            sf = S[n]
            for rec in _newer(src_files[n]):
                cells = [None if c is None or c == [] else uncps(c) for c in rec]
                if case["schema"] is not None:
                    row = []
                    for f in tf:
                        cands = [cells[i] for i, g in enumerate(sf) if g["name"] == f["name"] and i < len(cells)]
                        opts = {(c if c is not None else n_default(uncps(f["name"]), f["dt"])) for c in cands} \
                            if cands else {n_default(uncps(f["name"]), f["dt"])}
                        row.append(opts)
                else:
                    row = [{c if c is not None else n_default(uncps(f["name"]), f["dt"])} for c, f in zip(cells, sf)]
                rows.append(row)
        want_gz = bool(case["gzip"]) and len(rows) > 0
        if (o["tx"], o["gz"]) != (not want_gz, want_gz):
            fail("not exactly one physical form, compressed iff requested and non-empty",
                 {"relation": n, "want_gz": want_gz, "tx": o["tx"], "gz": o["gz"]})
        listing_ok.add(n + (".gz" if want_gz else ""))
        got = o.get("raw")
        ok = isinstance(got, dict) and "ok" in got and len(got["ok"]) == len(rows) and all(
            len(g) == len(w) and all(("" if c is None else uncps(c)) in opts for c, opts in zip(g, w))
            for g, w in zip(got["ok"], rows))
        if not ok and names.count(n) > 1 and case["dst"] == "inplace" and case["schema"] is not None:
            # documented exclusion: an in-place call under a new schema that names a relation twice remakes,
            # the second time, the file it has just rewritten (the model follows the code; see writeDb_preserves)
            ok = isinstance(got, dict) and "ok" in got
            if not ok:
                continue
        elif not ok:
            fail("a written relation does not hold the source records matched by column name",
                 {"relation": n, "want": [[sorted(o_) for o_ in r] for r in rows], "got": got})
            continue
        # the other interfaces agree with the raw read
        raw_rows = got["ok"]
        lines = [cps(n_line([None if c is None else uncps(c) for c in r]) + "\n") for r in raw_rows]
        if o.get("open") != {"ok": lines}:
            fail("tsdb.open lines differ from the raw read", {"relation": n, "got": o.get("open")})
        sel = case["sel"].get(n)
        if sel and o.get("sel") != {"ok": _project(raw_rows, tf, sel)}:
            fail("select_from differs from the projection of the records", {"relation": n, "got": o.get("sel")})
        # (with a repeated column name and the default columns, select_from resolves every name to the LAST column of
        # that name while _select_raw takes the positions: observed, outside the quantifier, not compared)
        distinct = len({tuple(f["name"]) for f in tf}) == len(tf)
        if sel and (sel != "all" or distinct) and o.get("selraw") != o.get("sel"):
            fail("the raw column-selecting read differs from select_from", {"relation": n, "got": o.get("selraw")})
        try:
            typed = [_planted_expect(tf, r)[1] for r in raw_rows]
        except Exception:  # noqa: BLE001 - cell not in the castable spellings (dtype changed by name): skip
            typed = None
        if typed is not None:
            if o.get("cast") != {"ok": typed}:
                fail("autocast read differs from the typed records", {"relation": n, "want": typed, "got": o.get("cast")})
            if sel:
                want = {"ok": _project(typed, tf, sel)}
                if o.get("selcast") != want or o.get("selauto") != want:
                    fail("select_from with cast differs from the projection of the typed records",
                         {"relation": n, "got": [o.get("selcast"), o.get("selauto")]})
    # nothing but relation files of known relations in the directory (no temp file left behind)
    allowed = set(listing_ok)
    for w in obs:
        if w not in T:
            allowed |= {w, w + ".gz"}
    extra = [fn for fn in (res["listing"] or []) if fn not in allowed]
    if extra:
        fail("directory holds unexpected files after write_database", extra)
    return fails


# ---------------------------------------------------------------- oracle: initialize_database

def oracle_init(case, res):
    fails = []

    def fail(clause, detail):
        fails.append({"clause": clause, "detail": detail})
    if res["res"] != "ok":
        fail("initialize_database raised on a valid request", res["res"])
        return fails
    T = {uncps(t["name"]): t["fields"] for t in case["schema"]}
    if res["schema"] != {"ok": want_schema_of(case["schema"])}:
        fail("an initialised database does not open with the schema it was given", res["schema"])
        return fails
    files = bool(case["files"])
    had = {uncps(f["name"]): f for f in (case["dst_files"] if case["dst"] == "existing" else [])}
    listing = {"relations"}
    for w, o in zip(case["watch"], res["rels"]):
        n = uncps(w)
        if n in T:
            if o["gz"] or o["tx"] != files:
                fail("a stale file remains for a relation of the schema after initialize_database",
                     {"relation": n, "tx": o["tx"], "gz": o["gz"], "files": files})
            elif files and (o.get("raw") != {"ok": []} or o.get("open") != {"ok": []}):
                fail("a freshly initialised relation is not empty", {"relation": n, "raw": o.get("raw")})
            elif not files and o.get("raw") != {"err": "TSDBError"}:
                fail("reading an absent relation does not raise TSDBError", {"relation": n, "raw": o.get("raw")})
            if files:
                listing.add(n)
        else:
            f = had.get(n)
            want = (f is not None and f["tx"] is not None, f is not None and f["gz"] is not None)
            if (o["tx"], o["gz"]) != want:
                fail("initialize_database touched a relation outside its schema", {"relation": n, "want": want})
            listing |= {n} if want[0] else set()
            listing |= {n + ".gz"} if want[1] else set()
    if set(res["listing"] or []) != listing:
        fail("directory holds unexpected files after initialize_database", sorted(res["listing"] or []))
    return fails


CHECK = C09()
