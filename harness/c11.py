"""C11 — TSQL select: generators, implementation runner, direct oracle.

A case is a database (schema + raw rows) and a query.  Grammar cases carry the query as the
generator's own abstract syntax (projection, relations, list of where-trees) together with the
text that was printed from it and the token list the generator intended; mangled cases carry a
token list that a naive recogniser of the documented grammar classifies as inside/outside.
"""
import datetime
import gzip
import itertools
import os
import re
import shutil
import tempfile
import warnings

from .common import paths
from .common.runner import Check

paths.ensure_repo_on_path()
from delphin import itsdb, tsdb, tsql  # noqa: E402


def cps(s):
    return [ord(c) for c in s]


def uncps(a):
    return "".join(chr(x) for x in a)


# ----------------------------------------------------------------------------------------------
# schemas

def base_schema():
    return [
        ["item", [["i-id", "integer", True], ["i-input", "string", False], ["i-length", "integer", False],
                  ["i-date", "date", False]]],
        ["run", [["run-id", "integer", True], ["r-comment", "string", False], ["r-date", "date", False]]],
        ["parse", [["parse-id", "integer", True], ["run-id", "integer", True], ["i-id", "integer", True],
                   ["readings", "integer", False], ["p-note", "string", False]]],
        ["result", [["parse-id", "integer", True], ["result-id", "integer", False], ["mrs", "string", False]]],
    ]


STR_POOL = ["dog", "cat barks", "Dog", "a.b", "o", "the dog", "x@y", "b\\c", 'a"b', "it's", "d", "dd", " ",
            "or", "(x)", "7", "line\nbreak"]
DATE_POOL = ["1-jan-2020", "2020-01-01", "2-feb-2020 10:30:00", "2020-02-02 (10:30)", "15-mar-99", "mar-2021",
             "2020-13-45", "2021-03-01 00:00:01", "31-dec-2019 (23:59:59)"]
INT_SPELL = [lambda n: str(n), lambda n: str(n), lambda n: str(n), lambda n: "0%d" % n if n >= 0 else str(n),
             lambda n: "+%d" % n if n >= 0 else str(n), lambda n: "00%d" % n if n >= 0 else str(n)]


def gen_schema(rng, tier):
    sch = base_schema()
    feats = []
    r = rng.random()
    if r < 0.35:
        pass
    else:
        if rng.random() < 0.4:
            sch.append(["output", [["i-id", "integer", True], ["o-text", "string", False]]])
            feats.append("output")
        if rng.random() < 0.35:
            sch.append(["fs", [["parse-id", "integer", True], ["i-id", "integer", True], ["f-val", "string", False]]])
            feats.append("fs2keys")
        if rng.random() < 0.3:
            sch.append(["misc", [["m-id", "integer", True], ["m-note", "string", False]]])
            feats.append("misc")
        if rng.random() < 0.3:
            # a chain below result: needs result-id as a key of result
            for f in sch[3][1]:
                if f[0] == "result-id":
                    f[2] = True
            sch.append(["edge", [["result-id", "integer", True], ["e-lab", "string", False]]])
            feats.append("edge")
        if rng.random() < 0.35:
            for nm in rng.sample(["item", "run", "result", "parse"], rng.randrange(2, 4)):
                for rel in sch:
                    if rel[0] == nm:
                        rel[1].insert(rng.randrange(1, len(rel[1]) + 1), ["tag", "string", False])
            feats.append("sharedcol")
        if rng.random() < 0.15:
            for rel in sch:
                if rel[0] in ("item", "result"):
                    rel[1].append(["score", "float", False])
            feats.append("floatcol")
        if rng.random() < 0.14:
            # an extra NON-key column named like a key column of another relation (finding F58 and its family)
            kind = rng.choice(["result.i-id", "run.parse-id", "item.run-id", "xx"])
            if kind == "xx":
                sch.append(["xx", [["parse-id", "integer", True], ["i-id", "integer", False], ["x-note", "string", False]]])
            else:
                rname, cname = kind.split(".")
                for rel in sch:
                    if rel[0] == rname:
                        rel[1].insert(rng.randrange(1, len(rel[1]) + 1), [cname, "integer", False])
            feats.append("homonym")
        if rng.random() < 0.12:
            rel = rng.choice(sch)
            rng.shuffle(rel[1])
            feats.append("fieldshuffle")
        if rng.random() < 0.15:
            rng.shuffle(sch)
            feats.append("relshuffle")
        if rng.random() < 0.08:
            # a key column typed as string in one relation: keys of different types never match
            for rel in sch:
                if rel[0] == "parse":
                    for f in rel[1]:
                        if f[0] == "i-id":
                            f[1] = "string"
            feats.append("keytype")
        if rng.random() < 0.08:
            sch = [rel for rel in sch if rel[0] != "run"]
            for rel in sch:
                rel[1] = [f for f in rel[1] if f[0] != "run-id"]
            feats.append("norun")
        if rng.random() < 0.06:
            # item keyed by a date as well (date-typed join key)
            for rel in sch:
                if rel[0] in ("item", "output"):
                    rel[1].append(["d-key", "date", True])
            feats.append("datekey")
    return sch, feats


def gen_value(rng, dtype, is_key, colname):
    r = rng.random()
    if dtype == "integer":
        if r < (0.08 if is_key else 0.2):
            return None
        n = rng.randrange(0, 4) if is_key else rng.choice([-1, 0, 1, 2, 3, 5, 10, 100])
        return rng.choice(INT_SPELL)(n)
    if dtype == "string":
        if r < 0.2:
            return None
        if is_key:
            return rng.choice(["1", "2", "01", "a"])
        return rng.choice(STR_POOL)
    if dtype == "date":
        if r < 0.2:
            return None
        return rng.choice(DATE_POOL)
    if dtype == "float":
        if r < 0.2:
            return None
        return rng.choice(["0.5", "1", "2.25", "-1.5", "1e1", "10"])
    raise ValueError(dtype)


def gen_data(rng, sch, tier):
    data = {}
    for name, fields in sch:
        n = 0 if rng.random() < 0.04 else rng.choice([1, 2, 2, 3, 3, 3, 4, 4, 5, 5, 6, 8])
        if len(sch) > 5:
            n = min(n, 5)
        rows = []
        for _ in range(n):
            rows.append([gen_value(rng, f[1], f[2], f[0]) for f in fields])
        if rows and rng.random() < 0.2:
            rows.append(list(rng.choice(rows)))     # an exact duplicate row (multiplicity)
        data[name] = rows
    return data


# ----------------------------------------------------------------------------------------------
# casting (tsdb.cast is a parameter of the model; C08 covers it)

def date_num(d):
    return ((((d.year * 100 + d.month) * 100 + d.day) * 100 + d.hour) * 100 + d.minute) * 100 + d.second


def cast(dtype, raw):
    with warnings.catch_warnings():
        warnings.simplefilter("ignore")
        return tsdb.cast(":" + dtype, raw)


def j_val(v):
    if v is None:
        return None
    if isinstance(v, int):
        return {"i": str(v)}
    if isinstance(v, str):
        return {"s": cps(v)}
    if isinstance(v, datetime.datetime):
        return {"d": date_num(v)}
    if isinstance(v, float):
        return None        # :float cells: the model only type-checks conditions on them
    raise TypeError(type(v))


# ----------------------------------------------------------------------------------------------
# queries: abstract syntax = {"proj": ["*"] | [col…], "rels": [...], "wheres": [tree…]}
# tree = ["leaf", op, col, lit] | ["not", t] | ["and", [t…]] | ["or", [t…]]
# lit = {"i": int} | {"s": str} | {"d": text}     (date literals are kept as their spelling)

DATE_LITS = ["2020-01-01", "2020-1-1", "2020-jan-01", "1-jan-2020", "01-01-2020", "jan-2020", "1-1-20",
             "2020-02-02 10:30:00", "2020-02-02 (10:30)", "2020-02-02(10:30:00)", "2-feb-2020 (10:30:00)",
             "2-feb-2020 10:30:00", "15-mar-99", "1999-03-15", "2021-03", "mar-2021", "2019-12-31 23:59:59",
             "2020-06-15", "2021-3-1 (00:00:01)", "2020-13-45", "30-feb-2020"]
STR_LITS = ["dog", "o", "^d", "g$", "[Dd]og", "cat barks", "a.b", "a\\.b", ".", "", "d+", "the|cat", "x@y", "it's",
            'a"b', "b\\\\c", "and", "(x)", "\\(x\\)", "where", "7", " ", "i-id = 1", "a\\\"b", "a\\'b"]
ORD_OPS = ["<", "<=", ">", ">="]
EQ_OPS = ["==", "!="]
RE_OPS = ["~", "!~"]


# what precedes the select text when it goes through tsql.query / tsql.inspect_query (`_parse_query`: lstrip,
# partition at the first BLANK, lower-case, 'select' | 'retrieve'); every third draw is a plain lower-case one
QPREFIX = ["select ", "retrieve ", "select ", "retrieve ", "SELECT ", "Retrieve ", "sElEcT ", "  select ", "\tselect ",
           "\n retrieve ", "\x0c\x1fselect ", "select  ", "RETRIEVE  ", "select\t", "select\n", "selectx ", "insert ", "",
           "select", " ", "report ", "selec t ", "where "]
PY_ASCII_SPACE = " \t\n\r\x0b\x0c\x1c\x1d\x1e\x1f"


def qprefix_kind(full):
    """naive reading of the documentation of tsql.query: 'select …' / 'retrieve …' are select queries, every
    other first word is unsupported; upper-case spellings are not documented (compared with the model only)"""
    head = full.lstrip(PY_ASCII_SPACE)
    word = head.split(" ", 1)[0]
    if word in ("select", "retrieve"):
        return "select" if " " in head else "bare"
    if word.lower() in ("select", "retrieve"):
        return "case"
    return "other"


def canon_cast(v):
    if v is None:
        return None
    if isinstance(v, bool):
        return {"b": v}
    if isinstance(v, int):
        return {"i": str(v)}
    if isinstance(v, float):
        return {"f": repr(v)}
    if isinstance(v, str):
        return {"s": cps(v)}
    if isinstance(v, datetime.datetime):
        return {"d": date_num(v)}
    return {"?": type(v).__name__}


class _RC(tuple):
    """a record class with the call signature of itsdb.Row: like Row it IS the tuple of its data (the join
    loop iterates over the selection's records), and it remembers the fields it was given"""
    def __new__(cls, fields, data, field_index=None):
        self = tuple.__new__(cls, data)
        self.names = tuple(f.name for f in fields)
        return self


KEYFLAGS = [":key", ":primary", ":foreign-key", ":key :unique"]


def keyflag(rel, col):
    """spelling of the key flag of a column in the relations file (Field.is_key: ':key', ':primary', ':foreign…')"""
    return KEYFLAGS[(len(rel) * 7 + len(col) * 3 + sum(map(ord, col))) % len(KEYFLAGS)]


def file_form(case, name):
    """how the relation's file is written (a function of the case): plain, gzip-compressed, or without the final
    newline -- the answer of a query must not depend on it"""
    k = (len(case["text"]) * 3 + len(name) * 5 + len(case["data"].get(name, []))) % 7
    return {0: "gzip", 1: "no final newline"}.get(k, "plain")


def all_columns(sch):
    return [(rel, f[0], f[1], f[2]) for rel, fields in sch for f in fields]


def gen_colref(rng, sch, prefer=None, qual_p=0.3):
    cols = all_columns(sch)
    if prefer:
        c2 = [c for c in cols if c[0] in prefer]
        if c2 and rng.random() < 0.8:
            cols = c2
    rel, col, dtype, _ = rng.choice(cols)
    if rng.random() < qual_p:
        return rel + "." + col, dtype
    return col, dtype


def gen_lit(rng, dtype):
    if dtype == "float":
        dtype = "integer"
    if dtype == "integer":
        return {"i": rng.choice([-1, 0, 1, 2, 3, 5, 7, 10, 100])}
    if dtype == "string":
        return {"s": rng.choice(STR_LITS)}
    return {"d": rng.choice(DATE_LITS)}


def quotable(s):
    return "\n" not in s and (re.fullmatch(r'[^"\\]*(?:\\.[^"\\]*)*', s) is not None
                              or re.fullmatch(r"[^'\\]*(?:\\.[^'\\]*)*", s) is not None)


def data_lit(rng, sch, data, col, dtype):
    """a literal equal to a value that occurs in the column (so that conditions select something)"""
    c = col.split(".")[-1]
    vals = []
    for rel, fields in sch:
        if "." in col and rel != col.split(".")[0]:
            continue
        for i, f in enumerate(fields):
            if f[0] == c and f[1] == dtype:
                vals += [cast(dtype, row[i]) for row in data.get(rel, [])]
    vals = [v for v in vals if v is not None]
    if not vals:
        return None
    v = rng.choice(vals)
    if dtype == "integer":
        return {"i": v}
    if dtype == "string":
        return {"s": v} if quotable(v) else None
    if (v.hour, v.minute, v.second) == (0, 0, 0):
        return {"d": "%04d-%02d-%02d" % (v.year, v.month, v.day)}
    return {"d": "%04d-%02d-%02d %02d:%02d:%02d" % (v.year, v.month, v.day, v.hour, v.minute, v.second)}


def gen_leaf(rng, sch, prefer, mismatch_p, data=None):
    col, dtype = gen_colref(rng, sch, prefer)
    lt = dtype
    if dtype == "float":
        lt = rng.choice(["integer", "integer", "string", "date"])     # (int, float) accepts an integer literal
    if rng.random() < mismatch_p:
        lt = rng.choice([t for t in ("integer", "string", "date") if t != dtype])
    lit = None
    exact = False
    if data is not None and lt == dtype and rng.random() < 0.5:
        lit = data_lit(rng, sch, data, col, dtype)
        exact = lit is not None
    if lit is None:
        lit = gen_lit(rng, lt)
    if lt == "string":
        op = rng.choice(EQ_OPS if exact else RE_OPS + RE_OPS + EQ_OPS)
    else:
        op = rng.choice(ORD_OPS + EQ_OPS)
    return ["leaf", op, col, lit]


def gen_tree(rng, sch, prefer, depth, mismatch_p, data=None):
    r = rng.random()
    if depth <= 0 or r < 0.4:
        return gen_leaf(rng, sch, prefer, mismatch_p, data)
    if r < 0.55:
        return ["not", gen_tree(rng, sch, prefer, depth - 1, mismatch_p, data)]
    k = rng.choice([2, 2, 2, 3, 4])
    kind = "and" if r < 0.74 else "or"
    return [kind, [gen_tree(rng, sch, prefer, depth - 1, mismatch_p, data) for _ in range(k)]]


def gen_query(rng, sch, tier, data=None):
    relnames = [r[0] for r in sch]
    style = rng.random()
    rels = []
    if style < 0.15:
        k = rng.choice([1, 1, 2, 2, 3])
        rels = rng.sample(relnames, min(k, len(relnames)))
        proj = ["*"]
    else:
        if rng.random() < 0.35:
            rels = rng.sample(relnames, rng.choice([1, 1, 2]))
        # most queries stay within a connected neighbourhood so that they have answers
        prefer = rng.choice([None, ["item"], ["item", "parse"], ["parse", "result"], ["item", "result"],
                             ["item", "run"], ["run", "parse"], rels or None])
        n = rng.choice([1, 1, 2, 2, 3, 4])
        proj = [gen_colref(rng, sch, prefer)[0] for _ in range(n)]
    prefer = rels or rng.choice([None, ["item"], ["item", "parse"], ["parse", "result"], ["result"]])
    nw = rng.choice([0, 1, 1, 1, 1, 2, 3])
    mismatch_p = 0.25 if rng.random() < 0.12 else 0.0
    wheres = [gen_tree(rng, sch, prefer, rng.choice([0, 0, 1, 1, 2, 3, 4]), mismatch_p, data) for _ in range(nw)]
    return {"proj": proj, "rels": rels, "wheres": wheres}


def shared_columns(sch):
    """unqualified column names that occur in two or more relations, with those relations in schema order"""
    where = {}
    for rel, fields in sch:
        for f in fields:
            where.setdefault(f[0], []).append(rel)
    return {c: rs for c, rs in where.items() if len(rs) > 1}


def gen_session(rng, sch, data):
    """3-8 queries for ONE database object: consecutive queries resolve the same unqualified shared column
    under different `from` clauses / different required relation sets; the last repeats the first."""
    shared = shared_columns(sch)
    c = rng.choice(sorted(shared))
    rs = shared[c]
    cols = all_columns(sch)

    def other_col(rel):
        opts = [x[1] for x in cols if x[0] == rel and x[1] != c]
        return rng.choice(opts) if opts else None
    first = {"proj": [c], "rels": [], "wheres": []}
    qs = [first]
    for _ in range(rng.choice([2, 3, 3, 4, 5, 6])):
        r = rng.random()
        rel = rng.choice(rs)
        if r < 0.45:
            q = {"proj": [c], "rels": [rel], "wheres": []}
        elif r < 0.6:
            o = other_col(rel)
            q = {"proj": [c] + ([o] if o else []), "rels": [rel], "wheres": []}
        elif r < 0.7:
            q = {"proj": [c], "rels": rng.sample(rs, min(2, len(rs))), "wheres": []}
        elif r < 0.8:
            o = other_col(rel)
            q = {"proj": [c] + ([rel + "." + o] if o else []), "rels": [], "wheres": []}
        elif r < 0.9:
            q = {"proj": [c], "rels": [rel] if rng.random() < 0.5 else [],
                 "wheres": [gen_leaf(rng, sch, [rel], 0.0, data)]}
        else:
            q = {"proj": ["*"], "rels": [rel], "wheres": []}
        qs.append(q)
        if rng.random() < 0.5:
            qs.append(first)
    qs.append(first)
    return qs[:7] + [first] if len(qs) > 8 else qs, c


def diverge(rng, sch, data, c):
    """make the same-named column differ between its relations: an extra (dangling) row in one of them,
    a repeated row in another"""
    fields = dict((rel, f) for rel, f in sch)
    rels = shared_columns(sch)[c]
    a = rng.choice(rels)
    row = [gen_value(rng, f[1], f[2], f[0]) for f in fields[a]]
    i = [f[0] for f in fields[a]].index(c)
    f = fields[a][i]
    row[i] = {"integer": "9", "string": "zz", "date": "9-sep-2009", "float": "9.5"}[f[1]]
    data[a].append(row)
    b = rng.choice([r for r in rels if r != a] or rels)
    if data[b]:
        data[b].append(list(rng.choice(data[b])))


# ---- printing (text and intended tokens)

def quote(rng, s):
    """a quoted spelling of the raw literal content `s` (content is what the lexer's group returns)"""
    ok_dq = re.fullmatch(r'[^"\\]*(?:\\.[^"\\]*)*', s) is not None
    ok_sq = re.fullmatch(r"[^'\\]*(?:\\.[^'\\]*)*", s) is not None
    styles = [q for q, ok in (('"', ok_dq), ("'", ok_sq)) if ok]
    q = rng.choice(styles)
    return q + s + q


def lit_tok(lit):
    if "i" in lit:
        return ["INT", str(lit["i"])]
    if "s" in lit:
        return ["STR", cps(lit["s"])]
    v = cast("date", lit["d"])
    return ["DATE", None if v is None else date_num(v)]


def col_tok(c):
    if "." in c:
        a, b = c.split(".")
        return ["QID", a, b]
    return ["ID", c]


class Printer:
    def __init__(self, rng, plain=False, loose_not=False):
        self.rng = rng
        self.plain = plain
        self.loose_not = loose_not
        self.words = []     # lexemes
        self.toks = []

    def emit(self, lexeme, tok):
        self.words.append(lexeme)
        self.toks.append(tok)

    def pick(self, *alts):
        return alts[0] if self.plain else self.rng.choice(alts)

    def leaf(self, t):
        _, op, col, lit = t
        self.emit(col, col_tok(col))
        ops = self.pick("==", "=") if op == "==" else op
        self.emit(ops, ["OP", ops])
        if "i" in lit:
            n = lit["i"]
            sp = str(n) if self.plain or n < 0 else self.rng.choice([str(n), str(n), "+%d" % n, "0%d" % n])
            self.emit(sp, lit_tok(lit))
        elif "s" in lit:
            self.emit(quote(self.rng, lit["s"]), lit_tok(lit))
        else:
            self.emit(lit["d"], lit_tok(lit))

    def paren(self, f):
        self.emit("(", ["LP"])
        f()
        self.emit(")", ["RP"])

    def atom(self, t):
        if t[0] == "leaf":
            if not self.plain and self.rng.random() < 0.12:
                self.paren(lambda: self.leaf(t))      # redundant parentheses do not change the tree
            else:
                self.leaf(t)
        elif self.loose_not and t[0] == "not":
            self.disj(t)
        else:
            self.paren(lambda: self.disj(t))

    def conj(self, t):
        if t[0] == "and":
            for i, c in enumerate(t[1]):
                if i:
                    w = self.pick("and", "&", "&&")
                    self.emit(w, ["AND"])
                self.atom(c)
        else:
            self.atom(t)

    def disj(self, t, top=False):
        if t[0] == "or":
            for i, c in enumerate(t[1]):
                if i:
                    w = self.pick("or", "|", "||")
                    self.emit(w, ["OR"])
                self.conj(c)
        elif t[0] == "not" and (top or self.loose_not):
            # the documentation does not say how far `not` reaches; an unparenthesised `not` is
            # printed only where nothing follows at this level and its operand is itself an atom
            # (loose_not: anywhere, for the model-only "notprec" cases)
            w = self.pick("not", "!")
            self.emit(w, ["NOT"])
            if self.loose_not or t[1][0] in ("leaf", "not"):
                self.disj(t[1], top=True)
            else:
                self.paren(lambda: self.disj(t[1], top=True))
        elif t[0] == "not":
            self.paren(lambda: self.disj(t, top=True))
        else:
            self.conj(t)

    def query(self, q):
        if q["proj"] == ["*"]:
            self.emit("*", ["STAR"])
        else:
            for c in q["proj"]:
                self.emit(c, col_tok(c))
        if q["rels"]:
            self.emit("from", ["FROM"])
            for r in q["rels"]:
                self.emit(r, ["ID", r])
        for w in q["wheres"]:
            self.emit("where", ["WHERE"])
            self.disj(w, top=True)

    def text(self):
        if self.plain:
            return " ".join(self.words)
        out = []
        tight = self.rng.random() < 0.25
        for i, w in enumerate(self.words):
            if i:
                prev = self.words[i - 1]
                # a separator is needed between two word-like lexemes; elsewhere it is optional
                need = (re.match(r"[\w'\"+:-]", w[0]) and re.match(r"[\w'\"+:-]", prev[-1])) is not None
                # '!' directly before '=' or '~' would lex as one operator; '=' '=' likewise
                if prev[-1] in "!=<>|&~" and w[0] in "=~|&<>!":
                    need = True
                if prev[-1] in ")" and re.match(r"[\d(]", w[0]) and False:
                    need = True
                if need or not tight:
                    out.append(self.rng.choice([" ", " ", " ", " ", "  ", "\n", " \n ", "\t", "\t ", " \t\n", "\r\n"])
                               if not tight else " ")
                # a date lexeme directly followed by '(' would swallow a parenthesised time
            out.append(w)
        return "".join(out)


def date_follow_hazard(words):
    """a date lexeme followed by something the date pattern could swallow"""
    for i, w in enumerate(words[:-1]):
        if re.fullmatch(r"[0-9a-z]+-[0-9a-z-]+", w) and words[i + 1].startswith("("):
            return True
    return False


# ---- the intended parse (what the documented grammar says the text means)

def where_tree(wheres):
    if not wheres:
        return None
    if len(wheres) == 1:
        return wheres[0]
    return ["and", list(wheres)]


def lit_value(lit):
    if "i" in lit:
        return lit["i"]
    if "s" in lit:
        return lit["s"]
    return cast("date", lit["d"])


def canon_lit(v):
    if isinstance(v, datetime.datetime):
        return {"d": date_num(v)}
    if v is None:
        return {"d": None}
    if isinstance(v, bool):
        raise TypeError
    if isinstance(v, int):
        return {"i": str(v)}
    if isinstance(v, str):
        return {"s": cps(v)}
    raise TypeError(type(v))


def canon_tree_ast(t):
    """generator tree → the canonical shape shared with the driver"""
    if t is None:
        return None
    if t[0] == "leaf":
        return [t[1], t[2], canon_lit(lit_value(t[3]))]
    if t[0] == "not":
        return ["not", canon_tree_ast(t[1])]
    return [t[0], [canon_tree_ast(c) for c in t[1]]]


def canon_tree_py(c):
    """inspect_query condition → canonical shape"""
    if c is None:
        return None
    op, body = c
    if op in ("and", "or"):
        return [op, [canon_tree_py(x) for x in body]]
    if op == "not":
        return ["not", canon_tree_py(body)]
    return [op, body[0], canon_lit(body[1])]


# ---- naive recogniser of the documented grammar on token kinds (for mangled token lists)

def recognise(toks):
    """True iff the token list (without sentinel) is a sentence of
       proj [from ID+] (where disj)*   with   disj := conj (OR conj)*, conj := atom (AND atom)*,
       atom := NOT atom | ( disj ) | col OP lit   and the operand kinds of the documentation table."""
    pos = [0]
    n = len(toks)

    def kind(i=None):
        i = pos[0] if i is None else i
        return toks[i][0] if i < n else None

    def atom():
        k = kind()
        if k == "NOT":
            pos[0] += 1
            return atom_or_disj_after_not()
        if k == "LP":
            pos[0] += 1
            if not disj():
                return False
            if kind() != "RP":
                return False
            pos[0] += 1
            return True
        if k in ("ID", "QID"):
            pos[0] += 1
            if kind() != "OP":
                return False
            op = toks[pos[0]][1]
            pos[0] += 1
            lk = kind()
            if op in ("~", "!~"):
                ok = lk == "STR"
            elif op in ("<", "<=", ">", ">="):
                ok = lk in ("INT", "DATE")
            else:
                ok = lk in ("INT", "DATE", "STR")
            if not ok:
                return False
            pos[0] += 1
            return True
        return False

    def atom_or_disj_after_not():
        # as a language, NOT followed by an atom and NOT followed by a disjunction coincide once the
        # enclosing loops continue; recognise an atom here and let the callers' loops go on
        return atom()

    def conj():
        if not atom():
            return False
        while kind() == "AND":
            pos[0] += 1
            if not atom():
                return False
        return True

    def disj():
        if not conj():
            return False
        while kind() == "OR":
            pos[0] += 1
            if not conj():
                return False
        return True

    if kind() == "STAR":
        pos[0] += 1
        star = True
    elif kind() in ("ID", "QID"):
        star = False
        while kind() in ("ID", "QID"):
            pos[0] += 1
    else:
        return False
    has_from = False
    if kind() == "FROM":
        pos[0] += 1
        if kind() != "ID":
            return False
        while kind() == "ID":
            pos[0] += 1
        has_from = True
    while kind() == "WHERE":
        pos[0] += 1
        if not disj():
            return False
    if pos[0] != n:
        return False
    if star and not has_from:
        return False
    return True


LEXEME = {"FROM": "from", "WHERE": "where", "STAR": "*", "DOT": ".", "AND": "and", "OR": "or", "NOT": "not",
          "LP": "(", "RP": ")", "REPORT": "report"}


def tok_text(tok, rng=None):
    k = tok[0]
    if k in LEXEME:
        return LEXEME[k]
    if k == "OP":
        return tok[1]
    if k == "INT":
        return tok[1]
    if k == "STR":
        c = uncps(tok[1])
        if re.fullmatch(r'[^"\\]*(?:\\.[^"\\]*)*', c):
            return '"' + c + '"'
        return "'" + c + "'"
    if k == "DATE":
        return tok[2]
    if k == "QID":
        return tok[1] + "." + tok[2]
    if k == "ID":
        return tok[1]
    raise ValueError(tok)


MANGLE_POOL = [["FROM"], ["WHERE"], ["STAR"], ["AND"], ["OR"], ["NOT"], ["LP"], ["RP"], ["OP", "="], ["OP", "~"],
               ["OP", "<"], ["OP", "!="], ["OP", "!~"], ["OP", ">="], ["INT", "1"], ["STR", cps("o")],
               ["DATE", 20200101000000, "2020-01-01"], ["ID", "i-id"], ["ID", "item"], ["QID", "item", "i-id"],
               ["ID", "i-input"], ["DOT"], ["REPORT"]]


def gen_mangled(rng, base_toks):
    toks = [list(t) for t in base_toks]
    # date tokens need their lexeme for printing
    for t in toks:
        if t[0] == "DATE" and len(t) == 2:
            t.append("2020-01-01" if t[1] is not None else "2020-13-45")
            t[1] = 20200101000000 if t[1] is not None else None
    k = rng.choice([1, 1, 1, 2, 3])
    for _ in range(k):
        r = rng.random()
        if r < 0.35 and toks:
            del toks[rng.randrange(len(toks))]
        elif r < 0.75:
            toks.insert(rng.randrange(len(toks) + 1), list(rng.choice(MANGLE_POOL)))
        elif toks:
            toks[rng.randrange(len(toks))] = list(rng.choice(MANGLE_POOL))
    return toks


# ----------------------------------------------------------------------------------------------
# the real lexer's tokens in the driver's shape (used only for texts whose tokens the generator
# does not know: keyword-prefixed identifiers and hand-written corpus texts)

def real_tokens(text):
    T = tsql._TSQLLexer.tokentypes
    out = []
    try:
        for gid, form, _, _, _ in tsql._TSQLLexer.prelex((text + ".").splitlines()):
            name = T(gid).name
            if name in ("FROM", "WHERE", "REPORT", "STAR", "DOT", "AND", "OR", "NOT"):
                out.append([name])
            elif name == "LPAREN":
                out.append(["LP"])
            elif name == "RPAREN":
                out.append(["RP"])
            elif name == "OP":
                out.append(["OP", form])
            elif name in ("DQSTRING", "SQSTRING"):
                out.append(["STR", cps(form)])
            elif name in ("YYYYMMDD", "DDMMYY"):
                v = cast("date", form)
                out.append(["DATE", None if v is None else date_num(v)])
            elif name == "KWDATE":
                return None
            elif name == "INT":
                out.append(["INT", str(int(form))])
            elif name == "QID":
                a, b = form.split(".")
                out.append(["QID", a, b])
            elif name == "ID":
                out.append(["ID", form])
            else:
                return None
    except tsql.TSQLSyntaxError:
        return None
    return out


# ----------------------------------------------------------------------------------------------
# the direct oracle's relational semantics

def tree_linked(sch):
    """are the relations linked by key columns in a tree?  The incidence graph relations -- key
    names must be a forest: any two relations are linked by at most one path of shared keys."""
    parent = {}

    def find(x):
        parent.setdefault(x, x)
        while parent[x] != x:
            parent[x] = parent[parent[x]]
            x = parent[x]
        return x
    for rel, fields in sch:
        for f in fields:
            if f[2]:
                a, b = find(("rel", rel)), find(("key", f[0]))
                if a == b:
                    return False
                parent[a] = b
    return True


def real_lex(text):
    """the real lexer's token stream of `text + '.'` as (class, lexeme) in the driver's shape"""
    T = tsql._TSQLLexer.tokentypes
    out = []
    fixed = {"FROM": "FROM", "WHERE": "WHERE", "REPORT": "REPORT", "STAR": "STAR", "DOT": "DOT", "AND": "AND",
             "OR": "OR", "NOT": "NOT", "LPAREN": "LP", "RPAREN": "RP"}
    try:
        for gid, form, _, _, _ in tsql._TSQLLexer.prelex((text + ".").splitlines()):
            name = T(gid).name
            if name in fixed:
                out.append([fixed[name]])
            elif name == "OP":
                out.append(["OP", form])
            elif name in ("DQSTRING", "SQSTRING"):
                out.append(["STR", cps(form)])
            elif name == "YYYYMMDD":
                out.append(["YMD", cps(form)])
            elif name == "DDMMYY":
                out.append(["DMY", cps(form)])
            elif name == "QID":
                a, b = form.split(".")
                out.append(["QID", cps(a), cps(b)])
            else:
                out.append([name, cps(form)])
    except tsql.TSQLSyntaxError:
        return {"err": "TSQLSyntaxError"}
    return {"ok": out}


def lex_comparable(text):
    """the lexer model covers ASCII text with '\n' as the only line separator"""
    return all(ord(c) < 128 for c in text) and not any(c in text for c in "\r\x0b\x0c\x1c\x1d\x1e")


def case_qprefix(case):
    """the query type put in front of the text for tsql.query / tsql.inspect_query: the case's own draw, or (corpus
    cases, token-level cases) a deterministic function of the text"""
    if case.get("qprefix") is not None:
        return uncps(case["qprefix"])
    return QPREFIX[sum(case["text"]) % len(QPREFIX)]


class Unanswerable(Exception):
    """the query names something that does not exist / cannot be connected / is ill-typed"""
    def __init__(self, why):
        Exception.__init__(self, why)
        self.why = why


def oracle_rows(sch, data, q, only_needed=False):
    """(rows as tuples of ('raw'|'key', value), single_relation?) by the relational reading of the
    property; raises Unanswerable.  Nested loops over the Cartesian product, no hashing, no plan."""
    schema = {name: fields for name, fields in sch}
    order = [name for name, _ in sch]

    def resolve(col):
        if "." in col:
            rel, c = col.split(".")
            if rel not in schema or c not in [f[0] for f in schema[rel]]:
                raise Unanswerable("unknown")
            return rel, c
        having = [r for r in order if col in [f[0] for f in schema[r]]]
        if not having:
            raise Unanswerable("unknown")
        named = [r for r in having if r in q["rels"]]
        return (named or having)[0], col

    def ftype(rel, c):
        return next(f for f in schema[rel] if f[0] == c)

    for r in q["rels"]:
        if r not in schema:
            raise Unanswerable("unknown")
    if q["proj"] == ["*"]:
        proj = []
        seen_keys = set()
        for r in q["rels"]:
            for f in schema[r]:
                if f[2]:
                    if f[0] in seen_keys:
                        continue
                    seen_keys.add(f[0])
                proj.append((r, f[0]))
    else:
        proj = [resolve(c) for c in q["proj"]]

    cond = where_tree(q["wheres"])

    def leaves(t):
        if t is None:
            return
        if t[0] == "leaf":
            yield t
        elif t[0] == "not":
            yield from leaves(t[1])
        else:
            for c in t[1]:
                yield from leaves(c)

    cond_cols = {}
    mism = False
    for lf in leaves(cond):
        rel, c = resolve(lf[2])
        cond_cols[lf[2]] = (rel, c)
        want = {"integer": int, "string": str, "date": datetime.datetime, "float": (int, float)}[ftype(rel, c)[1]]
        v = lit_value(lf[3])
        if not isinstance(v, want) or isinstance(v, bool):
            mism = True
    if mism:
        raise Unanswerable("mismatch")

    needed = []
    for r in [p[0] for p in proj] + [v[0] for v in cond_cols.values()] + list(q["rels"]):
        if r not in needed:
            needed.append(r)

    def keys(r):
        return {f[0] for f in schema[r] if f[2]}

    if only_needed == "columns":
        return proj + list(cond_cols.values())
    if only_needed:
        return needed

    def connected(rs):
        rs = list(rs)
        if not rs:
            return True
        seen = {rs[0]}
        grow = True
        while grow:
            grow = False
            for r in rs:
                if r not in seen and any(keys(r) & keys(s) for s in seen):
                    seen.add(r)
                    grow = True
        return len(seen) == len(rs)

    involved = None
    ambiguous = False
    others = [r for r in order if r not in needed]
    for k in range(0, 3):
        opts = [list(needed) + list(extra) for extra in itertools.combinations(others, k)
                if connected(list(needed) + list(extra))]
        if opts:
            involved = opts[0]
            ambiguous = len(opts) > 1
            if k == 2:
                # the property speaks of at most one linking relation; two are neither required
                # nor forbidden: not judged
                raise Unanswerable("two-links")
            break
    if involved is None:
        raise Unanswerable("unconnected")

    def val(rel, row, c):
        i = [f[0] for f in schema[rel]].index(c)
        return cast(schema[rel][i][1], row[i])

    def raw(rel, row, c):
        i = [f[0] for f in schema[rel]].index(c)
        return row[i]

    def holds(t, combo):
        if t[0] == "leaf":
            rel, c = cond_cols[t[2]]
            v = val(rel, combo[rel], c)
            lit = lit_value(t[3])
            op = t[1]
            if op == "~":
                return v is not None and re.search(lit, v) is not None
            if op == "!~":
                return v is None or re.search(lit, v) is None
            if v is None:
                return False
            return {"==": v == lit, "!=": v != lit, "<": v < lit, "<=": v <= lit, ">": v > lit,
                    ">=": v >= lit}[op]
        if t[0] == "not":
            return not holds(t[1], combo)
        if t[0] == "and":
            return all(holds(c, combo) for c in t[1])
        return any(holds(c, combo) for c in t[1])

    out = []
    for rows in itertools.product(*[data[r] for r in involved]):
        combo = dict(zip(involved, rows))
        ok = True
        for a, b in itertools.combinations(involved, 2):
            for k in keys(a) & keys(b):
                if val(a, combo[a], k) != val(b, combo[b], k):
                    ok = False
        if not ok:
            continue
        if cond is not None and not holds(cond, combo):
            continue
        rec = []
        for rel, c in proj:
            if ftype(rel, c)[2]:
                rec.append(("key", repr(val(rel, combo[rel], c))))
            else:
                rec.append(("raw", raw(rel, combo[rel], c)))
        out.append(tuple(rec))
    return out, proj, len(involved) == 1, ambiguous, involved


# ----------------------------------------------------------------------------------------------

class C11(Check):
    pid = "C11"
    props_modules = ["Verif.C11.Props", "Verif.C11.ComposeProps", "Verif.C11.QueryProps", "Verif.C11.GrammarProps",
                     "Verif.C11.TupleProps", "Verif.C11.PlanProps"]
    quick_cases = 1500
    thorough_cases = 20000
    rule = ("databases over item/run/parse/result with optional extra relations (output, fs with two shared keys, "
            "unreachable misc, edge below result), columns shared between relations, shuffled relation/field "
            "order, string- and date-typed keys; 0-9 rows per relation, empty fields, keys spelled 07/+7, "
            "duplicate rows; queries printed from generated syntax trees (qualified/unqualified columns, '*', "
            "from, 0-3 where clauses, and/or/not depth <= 4, every operator and operator spelling, both quote "
            "styles, 21 date spellings, redundant parentheses, tight/loose white space, literal/column type "
            "mismatches), plus token-level manglings of such queries judged by a naive recogniser of the "
            "documented grammar.  Non-trivial: the query mentions a condition or more than one relation; "
            "distinct by query text and data.")
    assumptions = [
        "the lexer regexes are modelled by hand-coded matchers (lean Model.lexLine, 20 ordered classes); the model's "
        "token stream is compared with _TSQLLexer.prelex on every generated ASCII text and on 300 (quick) glued-"
        "fragment stress texts; the parser model still receives token lists (generator-intended tokens for "
        "grammar cases, the real lexer's tokens for keyword-prefixed identifiers), and the lexeme-to-value steps "
        "int() and tsdb.cast(':date') stay parameters",
        "tsdb.cast and int() are parameters of the join/condition model (cells and literals arrive with their "
        "cast values) AND every select case is also run through the composition C11∘C08 (lean Compose.lean): "
        "query text + raw cells + datatypes in, C08's model of tsdb.cast / int() / date parsing applied inside "
        "Lean; 'unmodelled' answers of C08 (non-ASCII digits, unmatched date text, now/:today) are not compared "
        "(evidence field composed_with_C08 counts compared vs unmodelled)",
        "re.search is a parameter of the model: its truth table on every (pattern, value) pair of the case is "
        "shipped with the request",
        "row order of joins over two or more relations is compared as a multiset when the join order depends on "
        "the iteration order of a Python set (model flag ordered=false); the oracle compares multisets for every "
        "multi-relation query and exact order for single-relation queries",
        "for every grammar case the driver also checks that the generator's words are spellings (Model.spells, "
        "seqOKW) of the tokens the lexer model finds, i.e. that the proved lexer theorem lex_spelled covers the "
        "texts the generator writes (all operator/connective spellings, both quote styles, the 21 date spellings)",
        "':today'/'now' literals are only checked to parse to a datetime",
        "sequences of 3-8 queries run against ONE tsdb.Database object (30 %: one itsdb.TestSuite object); each "
        "answer must equal the nested-loop answer of that query alone and the answer of a fresh Database, and "
        "repeating the first query must repeat its answer; TestSuite sequences have no empty key fields because a "
        "TestSuite turns an empty :integer key into -1 on the joined side only (observation: on a TestSuite "
        "parse.run-id=-1 joins a run row with empty run-id and an empty parse.run-id joins nothing; on a Database "
        "it is the other way round)",
        "the relational oracle judges only schemas inside the property's quantifier: relations linked by key "
        "columns in a tree (the incidence graph relations--key names is a forest); schemas with a cycle of shared "
        "keys (e.g. fs(parse-id,i-id) beside item and parse) are a correspondence-only stream (model vs code)",
    ]
    trusted_base = ["hand-written model lean/Verif/C11/Model.lean, tied to delphin.tsql by the correspondence run",
                    "harness/c11.py: printer, recogniser of the documented grammar, nested-loop relational oracle"]

    def tables(self):
        """Pins: the constants of the anchored code that the hand-written model (and the oracle) mirror, read
        from the live objects on every run: the lexer's (regex, class) list in order and its flags, the operator
        table, per function the constants of its code object (nested code objects flattened; docstrings and
        message texts dropped), the globals it loads in order for the functions whose token-class lists matter,
        and default arguments."""
        import dis
        import types
        from .common import tables as T
        from delphin import util
        lit = T.lean_strlit
        msg = re.compile(r"[A-Za-z']{3,} [A-Za-z'{*]|: $|^, $")

        def render(c):
            if isinstance(c, tuple):
                return "(" + ",".join(render(x) for x in c) + ")"
            return c if isinstance(c, str) else repr(c)

        def consts(code, doc):
            out = []
            for c in code.co_consts:
                if isinstance(c, types.CodeType):
                    out.append("<" + c.co_name + ">")
                    out.extend(consts(c, None))
                elif isinstance(c, str) and (c == doc or msg.search(c)):
                    continue
                else:
                    out.append(render(c))
            return out

        def globs(fn):
            return [i.argval for i in dis.get_instructions(fn) if i.opname == "LOAD_GLOBAL"]

        fns = ["_parse_query", "_parse_select", "_parse_select_where", "_parse_condition_disjunction",
               "_parse_condition_conjunction", "_parse_condition_statement", "_select", "_make_execution_plan",
               "_project_all", "_make_qname_resolver", "_plan_joins", "_pivot_relations",
               "_process_condition_fields", "_expected_type", "_process_condition_function", "_join",
               "_merge_fields", "select", "query"]
        gfns = ["_parse_select", "_parse_select_projection", "_parse_select_from", "_parse_select_where",
                "_parse_condition_disjunction", "_parse_condition_conjunction", "_parse_condition_statement",
                "_expected_type"]

        def pairs(xs):
            return "[%s]" % ", ".join("(%s, %s)" % (lit(a), lit(b)) for a, b in xs)

        def named(xs):
            return "[\n  %s]" % ",\n  ".join("(%s, [%s])" % (lit(n), ", ".join(lit(v) for v in vs)) for n, vs in xs)
        toks = [(rx, name.partition(":")[0]) for rx, name in tsql._TSQLLexer.tokens]
        defaults = [("_join", render(tsql._join.__defaults__)), ("select", render(tsql.select.__defaults__)),
                    ("query.kwdefaults", render(tsql.query.__kwdefaults__)),
                    ("Selection.select.kwdefaults", repr(tsql.Selection.select.__kwdefaults__)),
                    ("Selection.__init__", render(tsql.Selection.__init__.__defaults__)),
                    ("LookaheadLexer.__init__", render(util.LookaheadLexer.__init__.__defaults__)),
                    ("Database.select_from", render(tsdb.Database.select_from.__defaults__)),
                    ("Database._select_raw", render(tsdb.Database._select_raw.__defaults__))]
        return [
            "def c11LexerTokens : List (String × String) := [\n  %s]"
            % ",\n  ".join("(%s, %s)" % (lit(a), lit(b)) for a, b in toks),
            "def c11LexerFlags : Nat := %d" % tsql._TSQLLexer._re.flags,
            "def c11Operators : List (String × String) := %s"
            % pairs((k, f.__name__) for k, f in tsql._operator_functions.items()),
            "def c11FnConsts : List (String × List String) := %s"
            % named((n, consts(getattr(tsql, n).__code__, getattr(tsql, n).__doc__)) for n in fns),
            "def c11FnGlobals : List (String × List String) := %s" % named((n, globs(getattr(tsql, n))) for n in gfns),
            "def c11Defaults : List (String × String) := %s" % pairs(defaults),
            "def c11PrelexConsts : List String := [%s]"
            % ", ".join(lit(v) for v in consts(util.Lexer.prelex.__code__, util.Lexer.prelex.__doc__)),
            "def c11FieldInitConsts : List String := [%s]"
            % ", ".join(lit(v) for v in consts(tsdb.Field.__init__.__code__, tsdb.Field.__init__.__doc__)),
        ]

    def setup(self):
        self.tmp = tempfile.mkdtemp(prefix="c11-", dir="/var/tmp")
        self.n = 0

    def teardown(self):
        shutil.rmtree(getattr(self, "tmp", ""), ignore_errors=True)

    # ---- generators
    def cases(self, rng, tier, n):
        # deterministic part: every operator × operand kind on a fixed small database, every connective
        sch = base_schema()
        fixed = {"item": [["1", "dog", "3", "1-jan-2020"], ["07", None, None, None], ["3", "cat barks", "-1", "2020-02-02 (10:30)"],
                          [None, "o", "2", "2020-13-45"]],
                 "run": [["1", "first", "1-jan-2020"], ["2", None, None]],
                 "parse": [["10", "1", "1", "2", "x"], ["11", "1", "7", "0", None], ["12", "2", "3", None, "y"],
                           ["13", "2", "9", "1", None], ["14", None, None, "1", "z"]],
                 "result": [["10", "0", "a"], ["10", "1", "b"], ["11", "0", "c"], ["12", "0", None], ["99", "0", "q"]]}
        cols = [("i-id", {"i": 3}), ("i-length", {"i": 2}), ("i-input", {"s": "o"}), ("i-date", {"d": "2020-01-15"}),
                ("item.i-id", {"i": 7}), ("readings", {"i": 1}), ("mrs", {"s": "^[ab]$"}), ("p-note", {"s": ""})]
        for col, lit in cols:
            for op in ORD_OPS + EQ_OPS + RE_OPS:
                if "s" in lit and op in ORD_OPS:
                    continue
                if "s" not in lit and op in RE_OPS:
                    continue
                q = {"proj": [col, "i-input"], "rels": [], "wheres": [["leaf", op, col, lit]]}
                yield self.make_case(rng, sch, fixed, q, plain=True)
        A = ["leaf", "==", "i-id", {"i": 1}]
        B = ["leaf", "~", "i-input", {"s": "o"}]
        C = ["leaf", "<", "i-length", {"i": 3}]
        for t in (["and", [A, B]], ["or", [A, B]], ["not", A], ["and", [["or", [A, B]], C]], ["or", [A, ["and", [B, C]]]],
                  ["and", [["not", A], B]], ["or", [["not", A], B]], ["not", ["or", [A, B]]], ["not", ["not", B]],
                  ["and", [["and", [A, B]], C]], ["or", [["or", [A, B]], C]], ["and", [A, B, C]], ["or", [A, B, C]]):
            yield self.make_case(rng, sch, fixed, {"proj": ["i-id"], "rels": [], "wheres": [t]}, plain=True)
            yield self.make_case(rng, sch, fixed, {"proj": ["i-id"], "rels": [], "wheres": [t, C]}, plain=False)
        for proj, rels in ((["*"], ["item"]), (["*"], ["item", "parse"]), (["*"], ["parse", "item"]),
                           (["*"], ["item", "result"]), (["*"], ["item", "run"]), (["*"], ["result", "parse", "item", "run"]),
                           (["i-input", "mrs"], []), (["i-input", "r-comment"], []), (["i-id"], ["item", "parse", "result"]),
                           (["parse.i-id", "item.i-id", "i-input"], ["item", "parse"]), (["mrs", "i-id"], ["result"]),
                           (["i-id", "i-id"], []), (["run-id"], []), (["run-id"], ["parse"]), (["r-comment", "mrs"], [])):
            yield self.make_case(rng, sch, fixed, {"proj": proj, "rels": rels, "wheres": []}, plain=True)
        # (a) a same-named NON-key column in two relations that are linked only through a third one
        sch_tag = base_schema()
        for rel in sch_tag:
            if rel[0] in ("item", "result"):
                rel[1].append(["tag", "string", False])
        d_tag = {"item": [["1", "dog", "3", None, "x"], ["2", "cat", "1", None, "y"], ["3", "o", None, None, None]],
                 "run": [["1", "r", None]],
                 "parse": [["10", "1", "1", "2", None], ["11", "1", "2", "1", None], ["12", "1", "3", "0", None],
                           ["13", "1", "1", "1", None]],
                 "result": [["10", "0", "a", "y"], ["11", "0", "b", "y"], ["12", "0", "c", None], ["13", "1", "d", "x"],
                            ["13", "2", "e", "z"]]}
        for proj, rels, wh in ((["item.tag", "result.tag"], [], []), (["tag", "mrs"], [], []), (["tag"], ["result"], []),
                               (["i-id", "result.tag"], [], []), (["*"], ["item", "result"], []),
                               (["*"], ["result", "item"], []), (["tag", "result.tag", "parse-id"], ["item"], []),
                               (["item.tag"], [], [["leaf", "==", "result.tag", {"s": "y"}]]),
                               (["mrs"], [], [["leaf", "!=", "item.tag", {"s": "x"}]]),
                               (["i-id", "mrs"], [], [["not", ["leaf", "==", "tag", {"s": "x"}]]])):
            yield self.make_case(rng, sch_tag, d_tag, {"proj": proj, "rels": rels, "wheres": wh}, plain=True)
        # (b) keys 0, -1 and empty (and their other spellings) in joins of two and three relations
        d_key = {"item": [["0", "zero", "1", None], ["-1", "minus", "2", None], [None, "none", "3", None],
                          ["1", "one", None, None], ["00", "zero2", "4", None]],
                 "run": [["0", "r0", None], ["-1", "r-1", None], [None, "rnone", None]],
                 "parse": [["0", "0", "0", "1", None], ["-1", "-1", "-1", "2", None], [None, None, None, "3", None],
                           ["1", "0", "-01", "4", None], ["2", None, "+0", "5", None], ["3", "-1", None, "6", None]],
                 "result": [["0", "0", "m0"], ["-1", "0", "m-1"], [None, "0", "mnone"], ["00", "1", "m00"],
                            ["1", "0", "m1"]]}
        for proj, rels, wh in ((["i-id", "parse-id"], [], []), (["i-input", "readings"], [], []),
                               (["i-input", "mrs"], [], []), (["r-comment", "mrs"], [], []),
                               (["i-input", "r-comment"], [], []), (["*"], ["item", "parse"], []),
                               (["*"], ["parse", "result"], []), (["*"], ["item", "parse", "result"], []),
                               (["i-input", "mrs"], [], [["leaf", "==", "item.i-id", {"i": 0}]]),
                               (["i-input", "mrs"], [], [["leaf", "<", "parse.i-id", {"i": 0}]]),
                               (["parse-id"], ["result"], [["leaf", ">=", "parse-id", {"i": -1}]]),
                               (["i-input", "r-comment", "mrs"], [], [])):
            yield self.make_case(rng, sch, d_key, {"proj": proj, "rels": rels, "wheres": wh}, plain=True)
        # (d) the last-joined relation supplies only shared keys, on one-to-many data; unqualified shared
        # keys without a disambiguating from clause where the relations hold different key multisets
        # (unparsed item 20, item 10 parsed twice, dangling parse 40, parse 1 with three results)
        d_many = {"item": [["10", "a", "1", None], ["20", "b", "2", None], ["30", "c", "3", None]],
                  "run": [["1", "r", None]],
                  "parse": [["1", "1", "10", "1", None], ["2", "1", "10", "2", None], ["3", "1", "30", "1", None],
                            ["4", "1", "40", "0", None]],
                  "result": [["1", "0", "m"], ["1", "1", "n"], ["1", "2", "o"], ["3", "0", "p"], ["9", "0", "x"]]}
        for proj, rels in ((["i-input"], ["item", "result"]), (["parse-id", "readings"], ["parse", "result"]),
                           (["i-input"], ["item", "parse"]), (["readings"], ["parse", "result"]),
                           (["i-input", "readings"], ["item", "parse", "result"]), (["r-comment"], ["run", "parse"]),
                           (["i-id"], []), (["parse-id"], []), (["run-id"], []), (["i-id", "readings"], []),
                           (["parse-id", "mrs"], []), (["i-id", "parse-id"], []), (["i-id"], ["parse"]),
                           (["parse-id"], ["result"]), (["i-id", "i-input"], []), (["parse-id", "i-input"], [])):
            yield self.make_case(rng, sch, d_many, {"proj": proj, "rels": rels, "wheres": []}, plain=True)
        # cells that C08's cast model leaves unmodelled (Python's int() accepts `1_0`; a date text no pattern
        # matches): compared with the parametrised model only, the composition answers `unmodelled`
        d_odd = {"item": [["1", "a", "1_0", "sometime"], ["2", "b", "10", "2020-01-01"]], "run": [], "parse": [],
                 "result": []}
        for wh in ([["leaf", "==", "i-length", {"i": 10}]], [["leaf", ">", "i-date", {"d": "2019-01-01"}]]):
            yield self.make_case(rng, sch, d_odd, {"proj": ["i-id", "i-length", "i-date"], "rels": [], "wheres": wh},
                                 plain=True)
        # F56 (fixed by c87b4f8): a mistyped literal on a :float column is a type mismatch like any other
        sch_f = base_schema()
        sch_f[0][1].append(["score", "float", False])
        d_f = {"item": [["1", "a", "1", None, "0.5"], ["2", "b", "2", None, None], ["3", "c", "3", None, "2"]],
               "run": [], "parse": [], "result": []}
        for lit in ({"s": "x"}, {"d": "2020-01-01"}, {"i": 2}):
            for op in (["==", "!="] + (["~"] if "s" in lit else ["<", ">="])):
                yield self.make_case(rng, sch_f, d_f, {"proj": ["i-id", "score"], "rels": [],
                                                       "wheres": [["leaf", op, "score", lit]]}, plain=True)
        # wave E: relations with TWO key columns, keys mentioned in non-schema order; composite join keys
        sch_2k = base_schema()
        for f in sch_2k[3][1]:
            if f[0] == "result-id":
                f[2] = True
        sch_2k[3][1].insert(2, ["run-id", "integer", True])
        sch_2k.append(["edge", [["result-id", "integer", True], ["parse-id", "integer", True], ["e-lab", "string", False]]])
        d_2k = {"item": [["1", "a", "1", None], ["2", "b", "2", None]], "run": [["1", "r1", None], ["2", "r2", None]],
                "parse": [["10", "1", "1", "1", None], ["11", "2", "1", "2", None], ["12", "1", "2", "3", None],
                          [None, None, "2", "4", None], [None, "1", "1", "5", None]],
                "result": [["10", "0", "1", "m"], ["10", "1", "1", "n"], ["11", "0", "2", "o"], ["11", "0", "1", "p"],
                           ["12", "1", "1", "q"], [None, "5", None, "both keys empty"], [None, "6", "1", "one key empty"]],
                "edge": [["0", "10", "e1"], ["1", "10", "e2"], ["0", "11", "e3"], ["10", "0", "swapped"], ["1", "12", "e4"]]}
        for proj, rels, wh in ((["result-id", "parse-id", "mrs"], [], []), (["mrs", "e-lab"], [], []),
                               (["e-lab", "mrs"], ["edge", "result"], []), (["result.result-id", "edge.parse-id", "e-lab"], [], []),
                               (["*"], ["edge", "result"], []), (["*"], ["result", "edge"], []),
                               (["run-id", "result-id", "parse-id"], ["result"], []), (["r-comment", "mrs"], [], []),
                               (["readings", "mrs"], [], []), (["readings", "e-lab"], [], []),
                               (["i-input", "e-lab"], [], []),
                               (["mrs"], [], [["leaf", "==", "edge.result-id", {"i": 0}]]),
                               (["e-lab"], [], [["and", [["leaf", "==", "result.parse-id", {"i": 10}],
                                                          ["leaf", ">", "result.result-id", {"i": 0}]]]])):
            yield self.make_case(rng, sch_2k, d_2k, {"proj": proj, "rels": rels, "wheres": wh}, plain=True)
        # a relation without any key column: alone it answers; with another relation there is no key to link it
        # (the join-order loop gives up: TSQLError), whichever comes first
        sch_nk = base_schema() + [["nk", [["n-note", "string", False], ["n-num", "integer", False]]]]
        d_nk = dict(fixed, nk=[["a", "1"], ["b", None], ["a", "1"]])
        for proj, rels, wh in ((["n-note"], [], []), (["*"], ["nk"], []), (["n-note", "n-num"], ["nk"], [["leaf", "==", "n-num", {"i": 1}]]),
                               (["n-note", "i-input"], [], []), (["i-input", "n-note"], [], []), (["*"], ["nk", "item"], []),
                               (["i-input"], ["nk"], []), (["i-input"], [], [["leaf", "~", "n-note", {"s": "a"}]])):
            c = self.make_case(rng, sch_nk, d_nk, {"proj": proj, "rels": rels, "wheres": wh}, plain=True)
            c["tags"] = ["keyless relation"]
            yield c
        # F58 (fixed by e207678) and its family: an extra NON-key column named like a key column of another relation,
        # requested by the query (projection or condition), in every position of the projection
        sch_h = [["item", [["i-id", "integer", True], ["i-input", "string", False]]],
                 ["parse", [["parse-id", "integer", True], ["i-id", "integer", True]]],
                 ["xx", [["parse-id", "integer", True], ["i-id", "integer", False], ["x-note", "string", False]]]]
        d_h = {"item": [["1", "dog"], ["2", "cat"], ["3", "owl"]], "parse": [["10", "1"], ["11", "2"], ["12", "2"]],
               "xx": [["10", "1", "a"], ["11", "7", "b"], ["12", None, "c"], ["11", "2", "d"]]}
        W = [["leaf", "==", "xx.i-id", {"i": 1}]]
        G = [["leaf", ">", "xx.i-id", {"i": 0}]]
        for proj, rels, wh in ((["i-input", "x-note"], [], W), (["x-note", "i-input"], [], W), (["i-input", "xx.i-id"], [], []),
                               (["xx.i-id", "i-input"], [], []), (["i-input", "x-note"], [], G), (["x-note", "i-input"], [], G),
                               (["xx.i-id", "parse.i-id"], [], []), (["parse.i-id", "xx.i-id"], [], []),
                               (["i-input", "x-note"], [], []), (["*"], ["xx", "item"], []), (["*"], ["item", "xx"], []),
                               (["i-id", "x-note"], ["xx"], []), (["x-note"], ["item"], G), (["item.i-id", "xx.i-id"], [], []),
                               (["xx.i-id", "item.i-id"], [], []), (["xx.i-id", "item.i-id", "parse.i-id", "x-note"], [], G),
                               (["x-note", "item.i-id"], [], [["leaf", "==", "item.i-id", {"i": 2}]])):
            c = self.make_case(rng, sch_h, d_h, {"proj": proj, "rels": rels, "wheres": wh}, plain=True)
            c["tags"] = ["non-key column named like a key of another relation"]
            yield c
        # wave E: string / regex operands that begin or end with a blank
        d_b = {"item": [["1", " dog", "1", None], ["2", "dog ", "2", None], ["3", "dog", "3", None], ["4", " ", "4", None],
                        ["5", None, "5", None], ["6", "a dog b", "6", None]], "run": [], "parse": [], "result": []}
        for lit in (" dog", "dog ", " ", "dog", " dog ", "g $", "^ ", " $"):
            for op in ("==", "!=", "~", "!~"):
                for plain in (True, False):
                    yield self.make_case(rng, sch, d_b, {"proj": ["i-id", "i-input"], "rels": [],
                                                         "wheres": [["leaf", op, "i-input", {"s": lit}]]}, plain=plain)
        # (c) not / ! directly over every comparison, on rows whose compared field is empty
        for col, lit in (("i-length", {"i": 2}), ("i-date", {"d": "2020-01-15"}), ("i-input", {"s": "dog"})):
            for op in EQ_OPS + ([] if "s" in lit else ORD_OPS) + (RE_OPS if "s" in lit else []):
                t = ["not", ["leaf", op, col, lit]]
                for plain in (True, False):
                    yield self.make_case(rng, sch, fixed, {"proj": [col, "i-id"], "rels": [], "wheres": [t]}, plain=plain)
                yield self.make_case(rng, sch, fixed, {"proj": [col, "i-id"], "rels": [],
                                                       "wheres": [["and", [t, ["leaf", ">", "i-id", {"i": 0}]]]]}, plain=False)
        # one database object, consecutive queries that resolve `i-id` under different from clauses
        sess = {"item": [["10", "a", "1", None], ["20", "b", "2", None], ["30", "c", "3", None]],
                "run": [["1", "r", None]],
                "parse": [["1", "1", "10", "1", None], ["2", "1", "10", "2", None], ["3", "1", "30", "1", None],
                          ["4", "1", "40", "0", None]],
                "result": [["1", "0", "m"], ["9", "0", "x"]]}
        for seq in ((["i-id"], []), (["i-id"], ["parse"]), (["i-id"], [])), \
                   ((["parse-id"], []), (["parse-id"], ["result"]), (["parse-id", "mrs"], []), (["parse-id"], [])), \
                   ((["i-id"], ["item"]), (["i-id"], ["parse"]), (["i-id", "readings"], []), (["i-id"], ["item"])), \
                   ((["i-id"], []), (["*"], []), (["i-id"], [], ["leaf", "==", "i-id", {"s": "x"}]), (["nope"], []),
                    (["i-id", "mrs"], ["run"]), (["i-id"], ["parse"], ["leaf", "<", "nope", {"i": 1}]), (["i-id"], ["parse"]),
                    (["i-id"], [])):
            for suite in (False, True):
                steps = []
                for proj, rels, *wh in seq:
                    sc = self.make_case(rng, sch, sess, {"proj": proj, "rels": rels, "wheres": list(wh)}, plain=True)
                    steps.append({"q": sc["q"], "text": sc["text"], "toks": sc["toks"], "words": sc["words"]})
                yield {"kind": "session", "schema": sch, "data": sess, "steps": steps, "column": seq[0][0][0],
                       "suite": suite, "text": steps[0]["text"]}
        # ---- round 6: classes of input behind shared support code
        # (a) long queries: the parser reads through a 1024-token look-ahead buffer (util.LookaheadIterator);
        # token counts (sentinel included) at every offset around 1024 and 2048, flat and/or and nested groups
        pcols = ["i-id", "i-input", "i-length", "i-date", "item.i-id", "item.i-input", "i-id", "i-input"]
        for nl, ps in ((255, range(1, 9)), (511, range(1, 7))) + (((767, range(1, 9)), (1023, range(1, 7)))
                                                                 if tier == "thorough" else ()):
            for p in ps:
                leaves = [["leaf", "!=", "i-id", {"i": 100 + i}] for i in range(nl)]
                c = self.make_case(rng, sch, fixed, {"proj": pcols[:p], "rels": [], "wheres": [["and", leaves]]}, plain=True)
                c["tags"] = ["long query (flat and)"]
                yield c
        for nl, p, kind in ((255, 3, "or"), (256, 2, "or"), (128, 2, "groups"), (127, 6, "groups"), (86, 1, "not"), (85, 4, "not")):
            if kind == "or":
                t = ["or", [["leaf", "==", "i-id", {"i": i % 9}] for i in range(nl)]]
            elif kind == "groups":      # ( a and b ) or ( a and b ) …: 8 tokens per group
                t = ["or", [["and", [["leaf", ">", "i-id", {"i": i % 5}], ["leaf", "~", "i-input", {"s": "o"}]]]
                            for i in range(nl)]]
            else:                       # ( not a ) and …: 6 tokens per member, 12 with the double negation
                t = ["and", [["not", ["not", ["leaf", "<", "i-length", {"i": 3 + i % 2}]]] for i in range(nl)]]
            c = self.make_case(rng, sch, fixed, {"proj": pcols[:p], "rels": [], "wheres": [t]}, plain=True)
            c["tags"] = ["long query (%s)" % kind]
            yield c
        # (b) size: relations with more than 64 / 128 rows and as many distinct join keys, one-to-many and dangling
        d_big = {"item": [[str(i), "w%d" % (i % 7), str(i % 5), None] for i in range(150)],
                 "run": [["1", "r", None]],
                 "parse": [[str(1000 + j), "1", str((j * 7) % 160), str(j % 3), None] for j in range(150)],
                 "result": [[str(1000 + j), "0", "m%d" % j] for j in range(0, 150, 2)] + [["1003", "1", "again"]]}
        for proj, rels, wh in ((["i-input", "readings"], [], []), (["readings", "mrs"], [], []), (["i-id"], ["item"], []),
                               (["i-id", "parse-id"], [], [["leaf", "<", "readings", {"i": 2}]]),
                               (["*"], ["parse", "item"], [["leaf", ">=", "item.i-id", {"i": 140}]])):
            c = self.make_case(rng, sch, d_big, {"proj": proj, "rels": rels, "wheres": wh}, plain=True)
            c["tags"] = ["big relations (150 rows)"]
            yield c
        # (c) long fields: 4 KiB and 64 KiB lines in the data files, with the escaped characters far inside
        d_long = {"item": [["1", "ab " * 1400 + "dog", "1", None], ["2", "x" * 65535 + "@y\\z" + "q" * 600 + " dog", "2", None],
                           ["3", "dog", "3", None]],
                  "run": [], "parse": [["10", "1", "1", "1", None], ["11", "1", "2", "1", None]], "result": []}
        for proj, rels, wh in ((["i-id", "i-input"], [], []), (["i-id"], [], [["leaf", "~", "i-input", {"s": "dog$"}]]),
                               (["i-input", "parse-id"], [], [])):
            c = self.make_case(rng, sch, d_long, {"proj": proj, "rels": rels, "wheres": wh}, plain=True)
            c["tags"] = ["long field"]
            yield c
        # (d) join keys that collide under Python's hash (-1/-2, 0/2**61-1, 1/2**61) or exceed machine words
        hk = ["-1", "-2", "0", "2305843009213693951", "1", "2305843009213693952", "9223372036854775808",
              "18446744073709551617", "4294967296"]
        d_hash = {"item": [[k, "v%d" % i, str(i), None] for i, k in enumerate(hk)], "run": [["1", "r", None]],
                  "parse": [[str(i), "1", k, str(i), None] for i, k in enumerate(hk[1:] + hk[:1] + ["-1", "0"])],
                  "result": []}
        for proj, rels, wh in ((["i-id", "i-input", "parse-id"], [], []), (["i-input", "readings"], [], []),
                               (["i-input"], [], [["leaf", "==", "parse.i-id", {"i": -2}]]),
                               (["parse-id"], [], [["leaf", ">", "item.i-id", {"i": 2305843009213693951}]]),
                               (["i-input"], ["parse"], [["leaf", "<=", "i-id", {"i": 2305843009213693952}]])):
            c = self.make_case(rng, sch, d_hash, {"proj": proj, "rels": rels, "wheres": wh}, plain=True)
            c["tags"] = ["hash-colliding / huge keys"]
            yield c
        # (e) query texts that differ only in letter case or in the amount of white space inside a literal,
        # one after the other in one process (memoised parsing keyed too coarsely)
        d_cs = {"item": [["1", "dog", "1", None], ["2", "Dog", "2", None], ["3", "DOG", "3", None], ["4", "a b", "4", None],
                         ["5", "a  b", "5", None], ["6", None, "6", None], ["7", "Stra\u00dfe", "7", None],
                         ["8", "STRASSE", "8", None], ["9", "caf\u00e9", "9", None], ["10", "cafe\u0301", "10", None],
                         ["11", "\ufb01n", "11", None], ["12", "fin", "12", None]], "run": [], "parse": [], "result": []}
        for lit in ("dog", "Dog", "DOG", "dOG", "a b", "a  b", "A B", "Stra\u00dfe", "strasse", "caf\u00e9", "fin"):
            for op in ("==", "~", "!="):
                c = self.make_case(rng, sch, d_cs, {"proj": ["i-id", "i-input"], "rels": [],
                                                    "wheres": [["leaf", op, "i-input", {"s": lit}]]}, plain=True)
                c["tags"] = ["texts differing in case / inner blanks"]
                yield c
        for text in ("i-id where i-date = now", "i-id where i-date < :today", "i-id where i-date >= now"):
            yield {"kind": "kwdate", "text": cps(text)}
        for text in ("order where i-id = 1", "i-id where android = 1", "i-id from fromage", "nowhere", "i-id where note = 1",
                     "i-id where i-id = 1 orelse = 2", "reporting", "i-id where notes ~ 'a'"):
            yield {"kind": "kwprefix", "text": cps(text)}
        # invalid input at every position: one canonical sentence, every token replaced by every
        # token kind, every token deleted (quick); every insertion (thorough)
        canon = [["ID", "i-id"], ["QID", "item", "i-input"], ["FROM"], ["ID", "item"], ["ID", "parse"], ["WHERE"],
                 ["ID", "i-id"], ["OP", "<"], ["INT", "5"], ["AND"], ["LP"], ["ID", "i-input"], ["OP", "~"],
                 ["STR", cps("o")], ["OR"], ["NOT"], ["QID", "item", "i-date"], ["OP", ">="],
                 ["DATE", 20200101000000, "2020-01-01"], ["RP"], ["WHERE"], ["ID", "i-id"], ["OP", "!="], ["INT", "3"]]
        seqs = [canon]
        for i in range(len(canon)):
            seqs.append(canon[:i] + canon[i + 1:])
            for t in MANGLE_POOL:
                if t != canon[i]:
                    seqs.append(canon[:i] + [t] + canon[i + 1:])
        if tier == "thorough":
            for i in range(len(canon) + 1):
                for t in MANGLE_POOL:
                    seqs.append(canon[:i] + [t] + canon[i:])
        for op in ("=", "==", "!=", "<", "<=", ">", ">=", "~", "!~"):
            for lit in (["INT", "1"], ["STR", cps("o")], ["DATE", 20200101000000, "2020-01-01"], ["ID", "i-id"]):
                seqs.append([["ID", "i-id"], ["WHERE"], ["ID", "i-input"], ["OP", op], lit])
        for toks in seqs:
            yield {"kind": "mangled", "toks": toks, "text": cps(" ".join(tok_text(t) for t in toks))}
        # the undocumented precedence of negation: compared with the model only
        for text in ("i-id where not i-id = 1 or i-id = 3", "i-id where ! i-id = 1 and i-id = 3 or i-id = 2",
                     "i-id where i-id = 2 and not i-id = 1 or i-id = 3", "i-id where not (i-id = 1) and i-id = 3",
                     "i-id where not not i-id = 1 | i-id = 3", "i-id where (not i-id = 1) or i-id = 3",
                     "i-id where not i-id = 1 where i-id = 3"):
            yield {"kind": "notprec", "text": cps(text)}
        # lexer stress: fragments glued with and without white space (compared with the lexer model only)
        frags = ["from", "where", "report", "and", "or", "not", "now", ":today", "*", ".", "=", "==", "!=", "~", "!~",
                 "<=", "<", ">=", ">", "&&", "&", "||", "|", "!", "(", ")", '"a b"', "'x'", '"a\\"b"', "'it\\'s'", '"',
                 "'", "2020-01-01", "2020-1-1", "2020-jan-01", "2020-13", "1-jan-2020", "jan-2020", "jan-20", "12-2020",
                 "1-1-20", "10-5", "2020-02-02 (10:30)", "2020-02-02(10:30:00)", "2020-02-02 10:30:00",
                 "2020-02-02 10:30", " (10:30)", " 10:30:00", "5", "+5", "-5", "007", "+", "-", ":", "i-id", "item.i-id",
                 "item.", ".i-id", "a.b.c", "order", "android", "nowhere", "FROM", "x_1", "mar-x", "dec-99", "may-2020x",
                 "#", "@", ";", "\\", " ", " ", "  ", "\n", "\t"]
        for _ in range(300 if tier == "quick" else 6000):
            k = rng.choice([1, 2, 2, 3, 3, 4, 5, 7])
            yield {"kind": "lextext", "text": cps("".join(rng.choice(frags) for _ in range(k)))}
        # random part
        for _ in range(n):
            r = rng.random()
            sch, feats = gen_schema(rng, tier)
            data = gen_data(rng, sch, tier)
            q = gen_query(rng, sch, tier, data)
            if r < 0.13:
                # one Database (or TestSuite) object, several queries
                qs, col = gen_session(rng, sch, data)
                diverge(rng, sch, data, col)
                suite = rng.random() < 0.3
                if suite:
                    # an itsdb.TestSuite reads an empty :integer key as -1 on the joined side only (see the
                    # observation in the assumptions); TestSuite sessions therefore have no empty key fields
                    for rel, fields in sch:
                        for row in data[rel]:
                            for i, f in enumerate(fields):
                                if f[2] and row[i] is None:
                                    row[i] = gen_value(rng, f[1], True, f[0]) or {"integer": "2", "string": "a",
                                                                                  "date": "1-jan-2020"}[f[1]]
                steps = []
                for sq in qs:
                    sc = self.make_case(rng, sch, data, sq, plain=rng.random() < 0.7)
                    steps.append({"q": sq, "text": sc["text"], "toks": sc["toks"], "words": sc["words"]})
                yield {"kind": "session", "schema": sch, "data": data, "steps": steps, "column": col,
                       "suite": suite, "text": steps[0]["text"], "feats": feats}
            elif r < 0.16 and q["wheres"]:
                p = Printer(rng, plain=True, loose_not=True)
                p.query(q)
                yield {"kind": "notprec", "text": cps(p.text())}
            elif r < 0.8:
                c = self.make_case(rng, sch, data, q, plain=False)
                c["feats"] = feats
                yield c
            else:
                p = Printer(rng, plain=True)
                p.query(q)
                toks = gen_mangled(rng, p.toks)
                yield {"kind": "mangled", "toks": toks, "text": cps(" ".join(tok_text(t) for t in toks))}

    def make_case(self, rng, sch, data, q, plain=False):
        for _ in range(20):
            p = Printer(rng, plain=plain)
            p.query(q)
            text = p.text()
            if not date_follow_hazard(p.words) or plain:
                break
        # the query type in front of the select text, as tsql.query / tsql.inspect_query receive it
        qp = QPREFIX[0] if plain and rng.random() < 0.5 else rng.choice(QPREFIX)
        return {"kind": "select", "schema": sch, "data": data, "q": q, "text": cps(text), "toks": p.toks,
                "words": [cps(w) for w in p.words], "qprefix": cps(qp)}

    def search_cases(self, rng, tier, n, seeds):
        return self.cases(rng, tier, n)

    # ---- implementation
    def _mkdb(self, case):
        self.n = getattr(self, "n", 0) + 1
        d = os.path.join(self.tmp, "p%d" % self.n)
        os.mkdir(d)
        lines = []
        for name, fields in case["schema"]:
            lines.append(name + ":")
            for f in fields:
                lines.append("  %s :%s%s" % (f[0], f[1], " " + keyflag(name, f[0]) if f[2] else ""))
            lines.append("")
        with open(os.path.join(d, "relations"), "w", encoding="utf-8") as fh:
            fh.write("\n".join(lines) + "\n")
        for name, _ in case["schema"]:
            body = "".join(tsdb.join(row) + "\n" for row in case["data"][name])
            form = file_form(case, name)
            if form == "no final newline":
                body = body[:-1] if body.endswith("\n") else body
            if form == "gzip":
                with gzip.open(os.path.join(d, name + ".gz"), "wt", encoding="utf-8", newline="\n") as fh:
                    fh.write(body)
            else:
                with open(os.path.join(d, name), "w", encoding="utf-8", newline="\n") as fh:
                    fh.write(body)
        return d

    @staticmethod
    def _parse(text, prefix="select "):
        try:
            with warnings.catch_warnings():
                warnings.simplefilter("ignore")
                d = tsql.inspect_query(prefix + text)
            return {"ok": {"projection": list(d["projection"]), "relations": list(d["relations"]),
                           "condition": canon_tree_py(d["condition"])}}
        except tsql.TSQLSyntaxError:
            return {"err": "TSQLSyntaxError"}
        except StopIteration:
            return {"err": "StopIteration"}

    def impl(self, case):
        res = self._impl(case)
        text = uncps(case["text"])
        if case["kind"] != "kwdate" and lex_comparable(text):
            res["lex"] = real_lex(text)
        return res

    def _impl(self, case):
        k = case["kind"]
        text = uncps(case["text"])
        if k == "kwdate":
            try:
                d = tsql.inspect_query("select " + text)
                v = d["condition"][1][1]
                near = isinstance(v, datetime.datetime) and abs((v - datetime.datetime.now()).total_seconds()) < 3600
                return {"parse": "datetime-now" if near else "other"}
            except tsql.TSQLSyntaxError:
                return {"parse": {"err": "TSQLSyntaxError"}}
        if k == "lextext":
            return {"parse": self._parse(text)}
        if k in ("mangled", "kwprefix", "notprec"):
            return {"parse": self._parse(text), "qparse": self._parse(text, case_qprefix(case))}

        def run(f):
            try:
                with warnings.catch_warnings():
                    warnings.simplefilter("ignore")
                    rows = [[None if v is None else cps(v) for v in row] for row in f()]
                return {"ok": rows}
            except tsql.TSQLSyntaxError:
                return {"err": "TSQLSyntaxError"}
            except tsql.TSQLError:
                return {"err": "TSQLError"}
            except KeyError:
                return {"err": "KeyError"}
            except StopIteration:
                return {"err": "StopIteration"}
        if k == "session":
            d = self._mkdb(case)
            try:
                shared = itsdb.TestSuite(d) if case.get("suite") else tsdb.Database(d)
                out = []
                for st in case["steps"]:
                    t = uncps(st["text"])
                    got = run(lambda: list(tsql.select(t, shared)))
                    fresh = run(lambda: list(tsql.select(t, tsdb.Database(d))))
                    out.append({"parse": self._parse(t), "rows": got, "fresh": fresh,
                                "lex": real_lex(t) if lex_comparable(t) else None})
            finally:
                shutil.rmtree(d, ignore_errors=True)
            return {"steps": out, "parse": out[0]["parse"]}
        res = {"parse": self._parse(text)}
        d = self._mkdb(case)
        try:
            db = tsdb.Database(d)

            def run(f):
                try:
                    with warnings.catch_warnings():
                        warnings.simplefilter("ignore")
                        rows = [[None if v is None else cps(v) for v in row] for row in f()]
                    return {"ok": rows}
                except tsql.TSQLSyntaxError:
                    return {"err": "TSQLSyntaxError"}
                except tsql.TSQLError:
                    return {"err": "TSQLError"}
                except KeyError:
                    return {"err": "KeyError"}
                except StopIteration:
                    return {"err": "StopIteration"}
            res["rows"] = run(lambda: list(tsql.select(text, db)))
            res["via_query"] = run(lambda: list(tsql.query("retrieve " + text, db))) == res["rows"]
            # the public entry points with the query type in front
            qp = case_qprefix(case)
            res["qparse"] = self._parse(text, qp)
            res["query"] = run(lambda: list(tsql.query(qp + text, db)))
            # option plumbing and call paths around the same query: an autocasting Database, a record class
            # through select and through query(**kwargs), Selection.select(*names, cast=True)
            res["autocast"] = run(lambda: list(tsql.select(text, tsdb.Database(d, autocast=True))))
            res["api"] = self._api(text, qp, db)
        finally:
            shutil.rmtree(d, ignore_errors=True)
        return res

    @staticmethod
    def _api(text, qp, db):
        out = {}
        try:
            with warnings.catch_warnings():
                warnings.simplefilter("ignore")
                sel = tsql.select(text, db)
                plain = [tuple(r) for r in sel]
                a = list(tsql.select(text, db, record_class=_RC))
                out["rc_is_class"] = all(type(r) is _RC for r in a)
                out["rc_data"] = [tuple(r) for r in a] == plain
                out["rc_names"] = sorted({r.names for r in a}) if a else None
                out["plain_is_tuple"] = all(type(r) is tuple for r in sel)
                if qprefix_kind(qp + text) == "select":
                    b = list(tsql.query(qp + text, db, record_class=_RC))
                    out["rc_query"] = (b == a and all(type(r) is _RC and r.names == x.names for r, x in zip(b, a)))
                names = list(sel.projection or [])
                out["cast"] = [[canon_cast(v) for v in r] for r in sel.select(*names, cast=True)]
                idx = [sel._field_index[n] for n in names]
                out["cast_types"] = [sel.fields[i].datatype for i in idx]
                out["cast_names"] = [sel.fields[i].name for i in idx]
        except (tsql.TSQLSyntaxError, tsql.TSQLError, KeyError, StopIteration) as e:
            out["err"] = type(e).__name__ if not isinstance(e, (tsql.TSQLSyntaxError, tsql.TSQLError)) else (
                "TSQLSyntaxError" if isinstance(e, tsql.TSQLSyntaxError) else "TSQLError")
        return out

    # ---- model
    def model_request(self, case):
        r = self._model_request(case)
        if r is None:
            self._norequest = self.__dict__.get("_norequest", 0) + 1
        if r is not None and lex_comparable(uncps(case["text"])):
            r["text"] = case["text"]
            if r.get("op") == "query" and case["kind"] in ("select", "mangled", "kwprefix", "notprec"):
                # the same text behind its query type: tsql.inspect_query / tsql.query in the composed model
                r["qtext"] = cps(case_qprefix(case)) + case["text"]
        return r

    def _model_request(self, case):
        k = case["kind"]
        if k == "kwdate":
            return None
        if k == "lextext":
            return {"op": "lex"}
        if k == "session":
            reqs = [self._model_request({"kind": "select", "schema": case["schema"], "data": case["data"],
                                         "q": st["q"], "toks": st["toks"], "text": st["text"],
                                         **({"words": st["words"]} if "words" in st else {})})
                    for st in case["steps"]]
            rx = []
            for r in reqs:
                for e in r["rx"]:
                    if e not in rx:
                        rx.append(e)
            steps = []
            for r, st in zip(reqs, case["steps"]):
                one = {"toks": r["toks"]}
                if "words" in r:
                    one["words"] = r["words"]
                if lex_comparable(uncps(st["text"])):
                    one["text"] = st["text"]
                steps.append(one)
            return {"op": "session", "db": reqs[0]["db"], "rawdb": reqs[0]["rawdb"], "rx": rx, "steps": steps}
        if k in ("kwprefix", "notprec"):
            toks = real_tokens(uncps(case["text"]))
            if toks is None:
                return None
            return {"op": "query", "toks": toks}
        if k == "mangled":
            return {"op": "query", "toks": [t[:2] if t[0] == "DATE" else t for t in case["toks"]] + [["DOT"]]}
        sch = case["schema"]
        db = []
        strings = set()
        for name, fields in sch:
            rows = []
            for row in case["data"][name]:
                cells = []
                for f, raw in zip(fields, row):
                    v = cast(f[1], raw)
                    if isinstance(v, str):
                        strings.add(v)
                    cells.append({"r": None if raw is None else cps(raw), "v": j_val(v)})
                rows.append(cells)
            db.append({"name": name, "fields": fields, "rows": rows})
        pats = set()

        def walk(t):
            if t[0] == "leaf":
                if t[1] in RE_OPS and "s" in t[3]:
                    pats.add(t[3]["s"])
            elif t[0] == "not":
                walk(t[1])
            else:
                for c in t[1]:
                    walk(c)
        for w in case["q"]["wheres"]:
            walk(w)
        rx = []
        for p in sorted(pats):
            for s in sorted(strings):
                rx.append([cps(p), cps(s), re.search(p, s) is not None])
        r = {"op": "query", "toks": case["toks"] + [["DOT"]], "db": db, "rx": rx}
        # C11 ∘ C08: the same case as query text + raw cells; the driver casts with C08's model
        r["rawdb"] = [{"name": name, "fields": fields,
                       "rows": [[None if v is None else cps(v) for v in row] for row in case["data"][name]]}
                      for name, fields in sch]
        if "words" in case and all(x < 128 for w in case["words"] for x in w):
            r["words"] = case["words"]
        return r

    def model_expected(self, case, res):
        return res

    def model_compare(self, case, expected, answer, count=True):
        tie = self.__dict__.setdefault("_tie", {})

        def cnt(k):
            if count:
                tie[k] = tie.get(k, 0) + 1
        if "proto_error" in answer:
            return {"proto_error": answer}
        if case["kind"] == "session":
            steps = answer.get("steps") or []
            if len(steps) != len(expected["steps"]):
                return {"what": "steps", "model": answer}
            for i, (st, e, a) in enumerate(zip(case["steps"], expected["steps"], steps)):
                pc = {"kind": "select", "q": st["q"], "text": st["text"]}
                if "words" in st:
                    pc["words"] = st["words"]
                pe = {"parse": e["parse"], "rows": e["rows"]}
                if e.get("lex") is not None:
                    pe["lex"] = e["lex"]
                d = self.model_compare(pc, pe, a)
                if d is not None:
                    d["step"] = i
                    return d
            return None
        if case["kind"] == "lextext":
            if "lex" in expected and canon_plain(expected["lex"]) != canon_plain(answer):
                return {"what": "lex", "impl": expected["lex"], "model": answer}
            return None
        if "lex" in expected:
            cnt("lexer: token streams compared")
            if canon_plain(expected["lex"]) != canon_plain(answer.get("lex")):
                return {"what": "lex", "impl": expected["lex"], "model": answer.get("lex")}
        elif case["kind"] not in ("session",):
            cnt("lexer: not compared (non-ASCII or other line separators)")
        if canon_plain(expected["parse"]) != canon_plain(answer.get("parse")):
            return {"what": "parse", "impl": expected["parse"], "model": answer.get("parse")}
        cq = answer.get("cquery")
        if cq is not None and "qparse" in expected and count:
            unm = [k for k in ("parse", "rows") if isinstance(cq.get(k), dict) and cq[k].get("err") == "unmodelled"]
            cnt("query()/inspect_query() from the full query string: " +
                ("compared" if not unm else "model answers unmodelled (C08 cast; not compared)"))
            if not unm:
                if canon_plain(expected["qparse"]) != canon_plain(cq.get("parse")):
                    return {"what": "inspect_query(query type + text)", "prefix": case_qprefix(case),
                            "impl": expected["qparse"], "model": cq.get("parse")}
                if "query" in expected and "ok" in expected["qparse"]:
                    er, mr = expected["query"], cq.get("rows") or {}
                    if "err" in er or "err" in mr:
                        same = er.get("err") == mr.get("err")
                    elif mr.get("ordered", True):
                        same = er["ok"] == mr["ok"]
                    else:
                        same = sorted(er["ok"], key=repr) == sorted(mr["ok"], key=repr)
                    if not same:
                        return {"what": "query(query type + text, db)", "prefix": case_qprefix(case), "impl": er,
                                "model": mr}
        if case["kind"] != "select":
            cnt("parse tree compared only (%s)" % case["kind"])
            return None
        comp = answer.get("composed")
        if comp is not None and "text" in case and lex_comparable(uncps(case["text"])):
            unm = [k for k in ("parse", "rows")
                   if isinstance(comp.get(k), dict) and comp[k].get("err") == "unmodelled"]
            cc = self.__dict__.setdefault("_composed", {})
            key = "compared" if not unm else "unmodelled-" + unm[0]
            cc[key] = cc.get(key, 0) + 1
            if not unm:
                d = self.model_compare({"kind": "select", "q": case["q"], "text": case["text"]},
                                       {"parse": expected["parse"], "rows": expected.get("rows")},
                                       {"parse": comp.get("parse"), "rows": comp.get("rows")}, count=False)
                if d is not None:
                    d["what"] = "composed (C11 with C08's cast, from text and raw cells): " + str(d.get("what"))
                    return d
        if "words" in case and answer.get("spelled") is False:
            return {"what": "the generator's words are not spellings (spells/seqOKW) of the lexed tokens",
                    "text": uncps(case["text"])}
        if "err" in expected["parse"]:
            cnt("select: parse error tag compared only")
            return None
        er, mr = expected.get("rows"), answer.get("rows")
        if mr is None:
            return {"what": "rows missing", "impl": er}
        if "err" in mr and mr["err"] == "unmodelled":
            cnt("select: model answers unmodelled (not compared)")
            return None
        if "err" in er or "err" in mr:
            if er.get("err") != mr.get("err"):
                return {"what": "rows", "impl": er, "model": mr}
            cnt("select: compared by error tag only (%s)" % er.get("err"))
            return None
        a, b = er["ok"], mr["ok"]
        if not mr.get("ordered", True):
            cnt("select: rows compared as multisets (plan order depends on a Python set)")
            a, b = sorted(a, key=repr), sorted(b, key=repr)
        else:
            cnt("select: rows compared exactly, in order")
        if a != b:
            return {"what": "rows", "impl": er, "model": mr}
        return None

    # ---- direct oracle
    def oracle(self, case, res):
        fails = []

        def fail(clause, detail):
            fails.append({"clause": clause, "detail": detail})
        k = case["kind"]
        if k == "kwdate":
            if res["parse"] != "datetime-now":
                fail("':today'/'now' does not parse to the current date-time", repr(res))
            return fails
        if k == "kwprefix":
            return fails        # recorded only (DESIGN §C11 Limits)
        if k == "lextext":
            return fails        # lexer model correspondence only
        if k == "session":
            steps = res["steps"]
            for i, (st, r) in enumerate(zip(case["steps"], steps)):
                one = {"kind": "select", "schema": case["schema"], "data": case["data"], "q": st["q"],
                       "text": st["text"], "toks": st["toks"]}
                for f in self.oracle(one, {"parse": r["parse"], "rows": r["rows"], "via_query": True}):
                    f["detail"] = "query %d of the sequence on one database object: %s" % (i, f["detail"])
                    fails.append(f)
                if r["rows"] != r["fresh"]:
                    fail("the answer on a reused database object differs from the answer of a fresh one",
                         repr((i, [uncps(s["text"]) for s in case["steps"][:i + 1]], r["rows"], r["fresh"])))
            if steps[-1]["rows"] != steps[0]["rows"]:
                fail("repeating the first query on the same database object gives a different answer",
                     repr(([uncps(s["text"]) for s in case["steps"]], steps[0]["rows"], steps[-1]["rows"])))
            return fails
        if k in ("notprec", "mangled") and "qparse" in res:
            self._oracle_qtype(case, res, fail)
        if k == "notprec":
            if "ok" not in res["parse"]:
                fail("a sentence of the documented grammar is rejected", uncps(case["text"]))
            return fails        # which tree: recorded, compared with the model only
        if k == "mangled":
            inside = recognise(case["toks"])
            ok = "ok" in res["parse"]
            if inside and not ok:
                fail("a sentence of the documented grammar is rejected", uncps(case["text"]))
            if ok and not inside:
                # an explicit final '.' (or several) after a sentence is tolerated by the maintainers'
                # reading (commit 06e298f); anything else outside the grammar must be rejected
                core = list(case["toks"])
                while core and core[-1][0] == "DOT":
                    core.pop()
                if not recognise(core):
                    fail("text outside the documented grammar is accepted", uncps(case["text"]))
            return fails
        q = case["q"]
        # (1) parsing the text of the tree returns the tree
        want = {"ok": {"projection": list(q["proj"]), "relations": list(q["rels"]),
                       "condition": canon_tree_ast(where_tree(q["wheres"]))}}
        if q["proj"] == ["*"] and not q["rels"]:
            want = {"err": "TSQLSyntaxError"}
        if canon_plain(res["parse"]) != canon_plain(want):
            fail("parsing the text of a query tree does not return that tree",
                 repr((uncps(case["text"]), want, res["parse"])))
            return fails
        if "err" in want:
            return fails
        if res.get("via_query") is not True:
            fail("query('retrieve …') differs from select(…)", uncps(case["text"]))
        if "qparse" in res:
            self._oracle_qtype(case, res, fail)
            if res["autocast"] != res["rows"]:
                fail("a Database opened with autocast=True answers differently", repr((uncps(case["text"]), res["rows"],
                                                                                       res["autocast"])))
            api = res["api"]
            if "err" in api or "err" in res["rows"]:
                if api.get("err") != res["rows"].get("err"):
                    fail("select with a record class / Selection.select raises differently", repr((api, res["rows"])))
            else:
                for key, what in (("rc_is_class", "rows are not instances of the requested record class"),
                                  ("rc_data", "rows built by a record class carry other data than plain rows"),
                                  ("plain_is_tuple", "rows without a record class are not plain tuples"),
                                  ("rc_query", "query(..., record_class=C) differs from select(..., record_class=C)")):
                    if api.get(key, True) is not True:
                        fail(what, uncps(case["text"]))
                if q["proj"] != ["*"] and api.get("rc_names") is not None and \
                        api["rc_names"] != [tuple(c.split(".")[-1] for c in q["proj"])]:
                    fail("the fields handed to the record class are not the requested columns in the requested order",
                         repr((uncps(case["text"]), api["rc_names"])))
        # (2) relational meaning -- judged only on schemas inside the property's quantifier (relations
        # linked by key columns in a tree); on other schemas the model comparison is all there is
        if not tree_linked(case["schema"]):
            return fails
        got = res["rows"]
        try:
            rows, proj, single, ambiguous, involved = oracle_rows(case["schema"], case["data"], q)
        except Unanswerable as u:
            if u.why == "two-links":
                return fails
            if u.why == "unconnected":
                # a relation WITHOUT any key column is not "linked by key columns" to anything: queries that mix it
                # with other relations are outside the quantifier (observed: named only in `from` it is silently
                # ignored, otherwise the join-order loop raises TSQLError); compared with the model only
                keyless = {name for name, fields in case["schema"] if not any(f[2] for f in fields)}
                try:
                    if keyless & set(oracle_rows(case["schema"], case["data"], q, only_needed=True)):
                        return fails
                except Unanswerable:
                    pass
            if "ok" in got:
                if u.why == "mismatch":
                    fail("a literal/column type mismatch is evaluated instead of rejected", uncps(case["text"]))
                else:
                    fail("a query over unknown or unconnectable names returns rows", repr((u.why, uncps(case["text"]))))
            elif u.why == "mismatch" and got["err"] != "TSQLError":
                fail("a literal/column type mismatch is not reported as TSQLError", repr(got))
            return fails
        if "err" in got:
            fail("an answerable query raises", repr((got, uncps(case["text"]))))
            return fails
        schema = {name: fields for name, fields in case["schema"]}

        def norm(row):
            out = []
            for (rel, c), v in zip(proj, row):
                f = next(f for f in schema[rel] if f[0] == c)
                raw = None if v is None else uncps(v)
                out.append(("key", repr(cast(f[1], raw))) if f[2] else ("raw", raw))
            return tuple(out)
        if any(len(r) != len(proj) for r in got["ok"]):
            fail("a result row does not have one value per requested column", repr(got["ok"][:3]))
            return fails
        have = [norm(r) for r in got["ok"]]
        if "api" in res and "cast" in res["api"]:
            # a shared key is kept once, under the first joined relation's field: where same-named columns have
            # different datatypes (schema variation `keytype`) the field's type may be the other relation's
            alltypes = {}
            for _, fs in case["schema"]:
                for f in fs:
                    alltypes.setdefault(f[0], set()).add(":" + f[1])
            types = [":" + next(f for f in schema[rel] if f[0] == c)[1] for rel, c in proj]
            seen = res["api"]["cast_types"]
            types_ok = len(seen) == len(types) and all(a == b or (len(alltypes[c]) > 1 and a in alltypes[c])
                                                       for a, b, (_, c) in zip(seen, types, proj))
            want_cast = [[canon_cast(cast(t[1:], None if v is None else uncps(v))) for t, v in zip(seen, row)]
                         for row in got["ok"]]
            if res["api"]["cast"] != want_cast or not types_ok or res["api"]["cast_names"] != [c for _, c in proj]:
                fail("Selection.select(*requested columns, cast=True) is not the cast of the selected rows",
                     repr((uncps(case["text"]), res["api"]["cast"][:3], want_cast[:3])))
        if single:
            if have != rows:
                fail("single relation: result is not the stored rows that satisfy the condition, in stored order",
                     repr((uncps(case["text"]), rows[:6], have[:6])))
        elif not ambiguous:
            if sorted(have, key=repr) != sorted(rows, key=repr):
                fail("result is not the inner join on shared keys filtered by the condition (as a multiset)",
                     repr((uncps(case["text"]), involved, sorted(rows, key=repr)[:6], sorted(have, key=repr)[:6])))
        # (3) empty-field clauses, stated directly on the output when the condition column is projected first
        w = where_tree(q["wheres"])
        if w is not None and w[0] == "leaf" and q["proj"] != ["*"] and q["proj"][0] == w[2]:
            firsts = [r[0] for r in got["ok"]]
            if w[1] != "!~" and any(v is None for v in firsts):
                fail("a comparison or regex match matched an empty field", uncps(case["text"]))
            if w[1] == "!~" and single:
                rel = involved[0]
                i = [f[0] for f in schema[rel]].index(proj[0][1])
                empties = sum(1 for row in case["data"][rel] if row[i] is None)
                if sum(1 for v in firsts if v is None) != empties:
                    fail("a negated regex match does not match every empty field", uncps(case["text"]))
        return fails

    @staticmethod
    def _oracle_qtype(case, res, fail):
        full = case_qprefix(case) + uncps(case["text"])
        kind = qprefix_kind(full)
        if kind == "select":
            if canon_plain(res["qparse"]) != canon_plain(res["parse"]):
                fail("inspect_query('select …' / 'retrieve …') is not the parse of the select text",
                     repr((full, res["parse"], res["qparse"])))
            if "query" in res and res["query"] != res["rows"]:
                fail("query('select …' / 'retrieve …', db) differs from select(…, db)",
                     repr((full, res["rows"], res["query"])))
        elif kind == "other":
            if res["qparse"].get("err") != "TSQLSyntaxError" or \
                    ("query" in res and res["query"].get("err") != "TSQLSyntaxError"):
                fail("a query type other than select/retrieve is not rejected with TSQLSyntaxError",
                     repr((full, res["qparse"], res.get("query"))))

    def classify(self, case, failure):
        return None     # no open known finding (F28, F56, F58, F59 are repaired in /repo; their witnesses are regressions)

    def extra_evidence(self):
        tie = dict(self.__dict__.get("_tie", {}))
        tie["cases without a model request (kwdate: now/:today are not deterministic)"] = \
            self.__dict__.get("_norequest", 0)
        return {"composed_with_C08": dict(self.__dict__.get("_composed", {})), "tie": tie}

    def nontrivial_key(self, case, res):
        if case["kind"] == "session":
            return repr(([st["text"] for st in case["steps"]], case["data"]))
        if case["kind"] != "select":
            return ("t", tuple(case["text"]))
        q = case["q"]
        if not q["wheres"] and len(q["rels"]) < 2 and len(q["proj"]) < 2:
            return None
        return repr((case["text"], case["data"]))

    def stats(self, case, res, c):
        def inc(k, n=1):
            c[k] = c.get(k, 0) + n
        k = case["kind"]
        inc("kind:" + k)
        if res is None:
            return
        p = res.get("parse")
        if isinstance(p, dict):
            inc("parse:" + ("ok" if "ok" in p else p["err"]))
        if "qparse" in res:
            inc("query-type:" + qprefix_kind(case_qprefix(case) + uncps(case["text"])) +
                (" -> ok" if "ok" in res["qparse"] else " -> " + res["qparse"]["err"]))
        if k == "mangled":
            inc("mangled:" + ("inside" if recognise(case["toks"]) else "outside"))
            return
        if k == "session":
            inc("session:queries=%d" % len(case["steps"]))
            inc("session:" + ("TestSuite" if case.get("suite") else "Database"))
            firsts = {json_key(st["q"]["rels"]) for st in case["steps"]}
            inc("session:distinct-from-clauses=%d" % len(firsts))
            if any(r["rows"] != res["steps"][0]["rows"] for r in res["steps"] if "ok" in r["rows"]):
                inc("session:answers-differ-between-queries")
            return
        if k != "select":
            return
        q = case["q"]
        for f in case.get("feats", []):
            inc("schema:" + f)
        inc("schema-space:" + ("tree (oracle judges)" if tree_linked(case["schema"]) else "non-tree (model comparison only)"))
        inc("wheres:%d" % len(q["wheres"]))
        inc("proj:" + ("star" if q["proj"] == ["*"] else "qualified" if any("." in c for c in q["proj"]) else "plain"))
        inc("from:%d" % len(q["rels"]))

        def walk(t, d):
            if t[0] == "leaf":
                inc("op:" + t[1])
                inc("lit:" + next(iter(t[3])))
                return d
            inc("node:" + t[0])
            if t[0] == "not":
                return walk(t[1], d + 1)
            return max(walk(x, d + 1) for x in t[1])
        for w in q["wheres"]:
            inc("depth:%d" % walk(w, 0))
        rows = res.get("rows") or {}
        if "err" in rows:
            inc("rows:" + rows["err"])
        elif "ok" in rows:
            n = len(rows["ok"])
            inc("rows:" + ("0" if n == 0 else "1-3" if n <= 3 else "4-10" if n <= 10 else ">10"))
        try:
            _, _, single, amb, involved = oracle_rows(case["schema"], case["data"], q)
            inc("relations-joined:%d" % len(involved))
            needed = set(q["rels"])
            if amb:
                inc("oracle:ambiguous-link")
        except Unanswerable as u:
            inc("oracle:unanswerable-" + u.why)
        except Exception:
            pass
        if any(v is None for r in case["data"].values() for row in r for v in row):
            inc("data:has-empty-field")
        nt = len(case["toks"]) + 1
        if nt >= 1000:
            inc("query-tokens:%d" % nt)
        big = max([len(r) for r in case["data"].values()] or [0])
        if big > 64:
            inc("data:relation-with-more-than-64-rows")
        longest = max([len(v) for r in case["data"].values() for row in r for v in row if v is not None] or [0])
        if longest >= 4096:
            inc("data:field-of-%d-characters" % longest)
        for f in case.get("tags", []):
            inc("tag:" + f)
        for rel, fields in case["schema"]:
            inc("file-form:" + file_form(case, rel))
            for f in fields:
                if f[2]:
                    inc("key-flag:" + keyflag(rel, f[0]))
        if "api" in res and "err" not in res["api"]:
            inc("api:record class, Selection.select(cast=True), autocast Database compared")
        t = uncps(case["text"])
        for ch, nm in (("\t", "tab"), ("\r\n", "CRLF"), ("\n", "newline")):
            if ch in t:
                inc("text:has-" + nm)


def json_key(x):
    import json
    return json.dumps(x, sort_keys=True)


def canon_plain(x):
    import json
    return json.dumps(x, sort_keys=True)


CHECK = C11()
