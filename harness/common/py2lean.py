"""py2lean — a SOURCE TRANSLATOR from a small typed subset of Python to Lean 4 `do`-notation.

Purpose (TRANSLATOR.md): for selected small pure functions of /repo the Lean definition is regenerated from the CURRENT
SOURCE TEXT on every run (`Check.translations()` → lean/Verif/Generated/Trans<PID>.lean) and
lean/Verif/<PID>/Translated.lean proves the regenerated definition equal, for all inputs, to the hand-written model
function that the property theorems are about.  This file and lean/Verif/Common/PyRt.lean are TRUSTED: a construct is
either translated with exactly the meaning documented here or `Unsupported` is raised.  Never guess, never skip.

    translate_module(specs, namespace, imports=()) -> str          (text of a whole Lean file)
    Spec(fn, name, params=[(pyname, T), …], ret=T, fixed={pyname: constant})

Types (T): STR→List Char, INT→Int, BOOL→Bool, NONE→Unit, Opt(T)→Option T, Lst(T)→List T (Python list AND tuple used
as a sequence), Tup(T1,…)→T1 × …, Dict(K,V)→PyRt.Dict K V, Struct(lean_name, {attr: T}) → a Lean structure declared by
the caller (in a file named in `imports`) whose field names equal the Python attribute names.
`fixed` binds a parameter to a constant (None/bool/int/str): tests on it are decided at translation time and the dead
branch is NOT translated (e.g. the `fields=None` branch of tsdb.split); the theorem then speaks about that call shape.

ACCEPTED SUBSET
  statements   `x = e`, `x: T = e`, `a, b = e` (e a tuple), `x += e` (and - *), `if/elif/else`, `for x in e` /
               `for a, b in e` (no else-clause), `break`, `continue`, `pass`, `return [e]`, `raise E` / `raise E(args)`,
               `xs.append(e)` / `xs.extend(e)` on a LOCAL list, `xs[i] = e` on a LOCAL list, a docstring.
  expressions  str/int/bool/None constants, names (locals, parameters, module-level str/int/bool/None constants — read
               from the live module at translation time), list/tuple displays, `+ - *` on int, `+` on str/list,
               `seq * int`, `//` and `%` on int, unary `-`/`not`, `and`/`or` in tests or between bools (no raising operand
               after the first), comparisons `== != < <= > >=` (order: int only), `is None`, `is not None`, `in`/`not in`
               (list, str-in-str, dict), conditional expressions, `xs[i]`, `xs[a:b]`, `t[k]` (tuple, constant k),
               attribute of a Struct, single-`for` list comprehensions / generator arguments (pure `if` filters),
               calls of: len str(str|int) tuple list map(f, xs) range enumerate zip sum min max abs bool int(int),
               str methods replace split(const non-empty sep) rstrip/lstrip/strip(chars) join startswith endswith,
               dict.get, array.array('i', xs), other functions of the SAME translate_module call listed EARLIER in `specs`.
  refused      while, try, with, assert, del, global, lambda, nested def/class, yield, f-strings, % / .format
               formatting, float and `/`, `**`, bit operators, sets, dict displays, star-args, chained assignment,
               comparison of str/list by order, `s.split()` / `rstrip()` without argument, str.lower/upper (Unicode
               tables), sorted, any call/attribute/method not listed, a name first bound inside a nested block and used
               after it, a loop variable used after its loop, assigning to a loop variable.

SEMANTIC ASSUMPTIONS (what the generated Lean means)
  * int is the unbounded `Int`; str is the list of its code points (Unicode scalar values: a str with a lone
    surrogate is not representable and outside the theorems); iterating/indexing a str yields one-character strs
    (one-element lists); bool is not used as an int.
  * Every value has, at run time, the static type inferred here from the Spec's parameter types (Lean type-checks the
    output, so a wrong inference is a build error, not a wrong translation).  `x == y` is structural equality of the
    translated values; `is None` on an Optional is `Option.isNone`; truthiness is made explicit per type (str/list:
    non-empty; int: ≠ 0; Optional[T]: not None and truthy; Struct: refused).
  * Exceptions: `raise E(...)` becomes `throw` of the class name (`PyErr`); the constructor ARGUMENTS (message texts)
    are not evaluated and are assumed not to raise.  Implicit exceptions are those of the PyRt functions (IndexError,
    KeyError, ZeroDivisionError).  MemoryError/RecursionError/KeyboardInterrupt are outside the model.
  * Evaluation order is Python's (left to right); every sub-expression that can raise is bound by its own `let t ← …`
    BEFORE the statement that uses it, in evaluation order; a raising operand inside a conditional expression stays
    inside its branch.
  * Local lists that are mutated (`append`, `extend`, item assignment) are rewritten functionally.  This is only sound
    without aliasing, which is checked syntactically: a mutated local may occur only as the receiver of the mutation,
    as an argument of a copying/consuming builtin (len, tuple, list, join, sum, iteration, indexing, slicing, `in`),
    or in `return`; it may not be a parameter, be assigned to another name, be put into a container, be passed to
    another function, or be mutated while being iterated.
  * `array('i', xs)` (signed integer typecodes) is the list `xs`: the C range of the elements is NOT modelled (the
    real code raises OverflowError beyond it).
  * dict preserves insertion order (PyRt.Dict is an association list); module-level constants and the identity of
    called module-level functions are those of the live module at translation time (not rebound at run time).
  * A function that cannot raise is translated to a pure function (`Id.run do …` or a plain term), otherwise to
    `Except PyErr`.  Docstrings, comments and type annotations are dropped, except that the annotation of
    `x: List[T] = []` supplies the element type of an empty display.
"""
import ast
import builtins
import inspect
import textwrap


class Unsupported(Exception):
    """The function uses a construct outside the documented subset."""


# ------------------------------------------------------------------------------------------------------------ types
STR, INT, BOOL, NONE, UNK = ("str",), ("int",), ("bool",), ("none",), ("unk",)


def Opt(t):
    return t if t[0] == "opt" else ("opt", t)


def Lst(t):
    return ("list", t)


def Tup(*ts):
    return ("tuple",) + tuple(ts)


def Dict(k, v):
    return ("dict", k, v)


def Struct(lean_name, fields, pyclass=None):
    """fields: ordered {python attribute name: T}; the Lean structure has fields of the same names, in this order."""
    return ("struct", lean_name, tuple(fields.items()), pyclass)


def lean_type(t, paren=False):
    k = t[0]
    if k == "str":
        s = "List Char"
    elif k == "int":
        return "Int"
    elif k == "bool":
        return "Bool"
    elif k == "none":
        return "Unit"
    elif k == "opt":
        s = "Option " + lean_type(t[1], True)
    elif k == "list":
        s = "List " + lean_type(t[1], True)
    elif k == "tuple":
        s = " × ".join(lean_type(x, True) for x in t[1:])
    elif k == "dict":
        s = "Dict %s %s" % (lean_type(t[1], True), lean_type(t[2], True))
    elif k == "struct":
        return t[1]
    else:
        raise Unsupported("a value whose element type is unknown (annotate the empty list: `x: List[T] = []`)")
    return "(" + s + ")" if paren else s


def _has_unk(t):
    return t == UNK or any(_has_unk(x) for x in t[1:] if isinstance(x, tuple) and x and isinstance(x[0], str))


def lean_char(c):
    if c == "'":
        return "'\\''"
    if c == "\\":
        return "'\\\\'"
    if c == "\n":
        return "'\\n'"
    if c == "\t":
        return "'\\t'"
    if 32 <= ord(c) < 127:
        return "'%s'" % c
    if 0xD800 <= ord(c) <= 0xDFFF:
        raise Unsupported("a lone surrogate in a str constant (not a Lean Char)")
    return "(Char.ofNat %d)" % ord(c)


def lean_str(s):
    return "[" + ", ".join(lean_char(c) for c in s) + "]" if s else "([] : List Char)"


def lean_const(v):
    """Lean term and type of a Python constant."""
    if v is None:
        return "none", NONE
    if v is True or v is False:
        return ("true" if v else "false"), BOOL
    if isinstance(v, int):
        return "(%d : Int)" % v, INT
    if isinstance(v, str):
        return lean_str(v), STR
    raise Unsupported("constant of type %s" % type(v).__name__)


class Spec:
    def __init__(self, fn, name, params, ret, fixed=None, small_ints=False):
        self.fn, self.name, self.params, self.ret, self.fixed = fn, name, list(params), ret, dict(fixed or {})
        self.small_ints = small_ints     # hint for the selftest only: ints stay in the C range (array('i', …))
        self.monadic = None       # set by the translation


_BUILTIN_ERRS = ("ValueError", "IndexError", "KeyError", "TypeError", "ZeroDivisionError", "AssertionError",
                 "NotImplementedError")
_LEAN_KEYWORDS = {"at", "from", "end", "then", "else", "do", "fun", "let", "in", "have", "show", "with", "match", "if",
                  "for", "return", "where", "by", "open", "def", "theorem", "instance", "structure", "namespace",
                  "section", "variable", "mut", "type", "Type", "Prop", "Sort", "import", "some", "none", "true", "false",
                  "pure", "throw", "id", "max", "min"}


def _ind(lines, n=1):
    return [("  " * n) + ln for ln in lines]


# -------------------------------------------------------------------------------------------------- one function
class _Fn:
    def __init__(self, spec, module_specs):
        self.spec = spec
        self.module_specs = module_specs          # id(function object) -> Spec (already translated)
        self.globals = getattr(spec.fn, "__globals__", {})
        src = textwrap.dedent(inspect.getsource(spec.fn))
        tree = ast.parse(src)
        if len(tree.body) != 1 or not isinstance(tree.body[0], ast.FunctionDef):
            raise Unsupported("%s: not a plain `def`" % spec.name)
        self.node = tree.body[0]
        if self.node.decorator_list:
            raise Unsupported("%s: decorators" % spec.name)
        self.effect = False
        self.tmp = 0
        self.scopes = [{}]
        self.dead = set()
        self.loopvars = []
        self.iterating = []      # names of lists being iterated by enclosing for-loops

    # ---- names and scopes
    def fail(self, node, what):
        raise Unsupported("%s, line %s: %s: `%s`" % (self.spec.name, getattr(node, "lineno", "?"), what,
                                                      ast.unparse(node).split("\n")[0][:80]))

    def ident(self, name):
        if name in _LEAN_KEYWORDS or name.startswith("__") or not name.isidentifier() or not name.isascii():
            return name + "_"
        return name

    def fresh(self):
        self.tmp += 1
        return "t%d_" % self.tmp

    def lookup(self, name):
        for sc in reversed(self.scopes):
            if name in sc:
                return sc[name]
        return None

    def push(self):
        self.scopes.append({})

    def pop(self):
        sc = self.scopes.pop()
        for n in sc:
            if self.lookup(n) is None:
                self.dead.add(n)

    def resolve_global(self, name):
        """the live object a non-local name denotes (module global, then builtin)"""
        if name in self.globals:
            return self.globals[name]
        if hasattr(builtins, name):
            return getattr(builtins, name)
        raise KeyError(name)

    # ---- prepass: which names are assigned how often, which local lists are mutated
    def prepass(self):
        a = self.node.args
        if a.vararg or a.kwarg or a.kwonlyargs or a.posonlyargs:
            raise Unsupported("%s: star/keyword-only/positional-only parameters" % self.spec.name)
        pynames = [x.arg for x in a.args]
        declared = [p for p, _ in self.spec.params]
        for p in pynames:
            if p not in declared and p not in self.spec.fixed:
                raise Unsupported("%s: parameter `%s` has neither a type nor a fixed value" % (self.spec.name, p))
        for p in declared + list(self.spec.fixed):
            if p not in pynames:
                raise Unsupported("%s: no parameter `%s` in the source" % (self.spec.name, p))
        self.nassign = {}
        self.mutated = set()
        for n in ast.walk(self.node):
            if isinstance(n, (ast.Assign, ast.AnnAssign, ast.AugAssign)):
                tg = n.targets if isinstance(n, ast.Assign) else [n.target]
                for t in tg:
                    for x in ([t] if not isinstance(t, ast.Tuple) else t.elts):
                        if isinstance(x, ast.Name):
                            self.nassign[x.id] = self.nassign.get(x.id, 0) + 1
                        elif isinstance(x, ast.Subscript) and isinstance(x.value, ast.Name):
                            self.mutated.add(x.value.id)
                            self.nassign[x.value.id] = self.nassign.get(x.value.id, 0) + 1
            elif (isinstance(n, ast.Expr) and isinstance(n.value, ast.Call) and isinstance(n.value.func, ast.Attribute)
                  and n.value.func.attr in ("append", "extend") and isinstance(n.value.func.value, ast.Name)):
                self.mutated.add(n.value.func.value.id)
                self.nassign[n.value.func.value.id] = self.nassign.get(n.value.func.value.id, 0) + 1
            elif isinstance(n, (ast.Lambda, ast.FunctionDef, ast.ClassDef, ast.AsyncFunctionDef)) and n is not self.node:
                self.fail(n, "nested function/class")
        for p in pynames:
            if p in self.mutated:
                raise Unsupported("%s: parameter `%s` is mutated in place (visible to the caller)" % (self.spec.name, p))
            if p in self.spec.fixed and self.nassign.get(p):
                raise Unsupported("%s: fixed parameter `%s` is assigned" % (self.spec.name, p))

    # ---- type helpers
    def join(self, node, t1, t2):
        if t1 == t2:
            return t1
        if t1 == NONE:
            return Opt(t2)
        if t2 == NONE:
            return Opt(t1)
        if t1[0] == "opt" and t2[0] != "opt":
            return Opt(self.join(node, t1[1], t2))
        if t2[0] == "opt" and t1[0] != "opt":
            return Opt(self.join(node, t1, t2[1]))
        if t1[0] == t2[0] and t1[0] in ("opt", "list"):
            return (t1[0], self.join(node, t1[1], t2[1]))
        if t1 == UNK:
            return t2
        if t2 == UNK:
            return t1
        self.fail(node, "values of different types (%s / %s) meet" % (t1, t2))

    def coerce(self, node, term, t, to):
        if t == to:
            return term
        if to[0] == "opt":
            if t == NONE:
                return "none"
            if t[0] != "opt":
                return "(some %s)" % self.coerce(node, term, t, to[1])
        if t[0] == "list" and to[0] == "list" and t[1] == UNK and term == "[]":
            return "([] : %s)" % lean_type(to)
        self.fail(node, "a value of type %s where %s is needed" % (t, to))

    def truthy(self, node, term, t):
        if t == BOOL:
            return term
        if t == STR or t[0] == "list":
            return "(!(List.isEmpty %s))" % term
        if t == INT:
            return "(%s != 0)" % term
        if t == NONE:
            return "false"
        if t[0] == "opt":
            v = self.fresh()
            return "(match %s with | none => false | some %s => %s)" % (term, v, self.truthy(node, v, t[1]))
        self.fail(node, "truth value of a %s" % (t,))

    def annotation(self, node):
        """the T of a (local variable's) type annotation"""
        if isinstance(node, ast.Name) and node.id in ("str", "int", "bool"):
            return {"str": STR, "int": INT, "bool": BOOL}[node.id]
        if isinstance(node, ast.Constant) and node.value is None:
            return NONE
        if isinstance(node, ast.Subscript) and isinstance(node.value, ast.Name):
            args = node.slice.elts if isinstance(node.slice, ast.Tuple) else [node.slice]
            if node.value.id in ("List", "list", "Sequence") and len(args) == 1:
                return Lst(self.annotation(args[0]))
            if node.value.id == "Optional" and len(args) == 1:
                return Opt(self.annotation(args[0]))
            if node.value.id in ("Tuple", "tuple"):
                if len(args) == 2 and isinstance(args[1], ast.Constant) and args[1].value is Ellipsis:
                    return Lst(self.annotation(args[0]))
                return Tup(*[self.annotation(x) for x in args])
            if node.value.id in ("Dict", "dict") and len(args) == 2:
                return Dict(self.annotation(args[0]), self.annotation(args[1]))
        self.fail(node, "type annotation outside str/int/bool/List/Optional/Tuple/Dict")

    # ---- static evaluation of tests on `fixed` parameters
    def static_test(self, node):
        """True/False if the test is decided by the fixed parameters alone, else None"""
        if isinstance(node, ast.Name) and node.id in self.spec.fixed and self.lookup(node.id) is None:
            return bool(self.spec.fixed[node.id])
        if isinstance(node, ast.UnaryOp) and isinstance(node.op, ast.Not):
            r = self.static_test(node.operand)
            return None if r is None else not r
        if (isinstance(node, ast.Compare) and len(node.ops) == 1 and isinstance(node.ops[0], (ast.Is, ast.IsNot))
                and isinstance(node.left, ast.Name) and node.left.id in self.spec.fixed
                and isinstance(node.comparators[0], ast.Constant) and node.comparators[0].value is None):
            r = self.spec.fixed[node.left.id] is None
            return r if isinstance(node.ops[0], ast.Is) else not r
        return None

    def none_test(self, node):
        """(name, True) for `name is None`, (name, False) for `name is not None` on a local Optional that is not
        assigned anywhere after (so that the branch can re-bind the name to the narrowed value); else None"""
        if (isinstance(node, ast.Compare) and len(node.ops) == 1 and isinstance(node.ops[0], (ast.Is, ast.IsNot))
                and isinstance(node.left, ast.Name) and isinstance(node.comparators[0], ast.Constant)
                and node.comparators[0].value is None):
            t = self.lookup(node.left.id)
            if t is not None and t[0] == "opt" and node.left.id not in self.mutable_names():
                return node.left.id, isinstance(node.ops[0], ast.Is)
        return None

    def mutable_names(self):
        return {n for n, k in self.nassign.items() if k > 1 or n in dict(self.spec.params)}

    # ---------------------------------------------------------------------------------------------- expressions
    # expr(node) -> (pre, term, T): `pre` are do-statements (lines) to run first, `term` is an atomic/parenthesised
    # pure Lean term.
    def expr(self, node, alias_ok=False, in_return=False):
        m = getattr(self, "e_" + type(node).__name__, None)
        if m is None:
            self.fail(node, "expression form %s" % type(node).__name__)
        if isinstance(node, ast.Name):
            return m(node, alias_ok)
        if isinstance(node, ast.Tuple):
            return m(node, in_return)      # `return (a, xs)`: the function ends, a mutated local may be an element
        return m(node)

    def bind(self, pre, monadic_term, t):
        """bind a raising computation to a fresh name"""
        self.effect = True
        v = self.fresh()
        pre.append("let %s ← %s" % (v, monadic_term))
        return v

    def e_Constant(self, node):
        if isinstance(node.value, (float, complex, bytes)) or node.value is Ellipsis:
            self.fail(node, "constant of type %s" % type(node.value).__name__)
        term, t = lean_const(node.value)
        return [], term, t

    def e_Name(self, node, alias_ok=False):
        name = node.id
        t = self.lookup(name)
        if t is not None:
            if name in self.mutated and not alias_ok:
                self.fail(node, "possible aliasing of the mutated local list `%s`" % name)
            return [], self.ident(name), t
        if name in self.dead or name in self.nassign or name in self.loopvars:
            self.fail(node, "`%s` is read outside the block that binds it (or before it is bound)" % name)
        if name in self.spec.fixed:
            term, t = lean_const(self.spec.fixed[name])
            return [], term, t
        try:
            obj = self.resolve_global(name)
        except KeyError:
            self.fail(node, "unknown name")
        if obj is None or isinstance(obj, (bool, int, str)):
            term, t = lean_const(obj)
            return [], term, t
        self.fail(node, "global `%s` is not a str/int/bool/None constant" % name)

    def e_List(self, node):
        return self.display(node, "list")

    def e_Tuple(self, node, alias_ok=False):
        return self.display(node, "tuple", alias_ok)

    def display(self, node, kind, alias_ok=False):
        pre, terms, ts = [], [], []
        for e in node.elts:
            if isinstance(e, ast.Starred):
                self.fail(node, "starred element")
            p, x, t = self.expr(e, alias_ok=alias_ok)
            pre += p
            terms.append(x)
            ts.append(t)
        if kind == "tuple":
            if len(terms) < 2:
                self.fail(node, "tuple display with fewer than two elements")
            return pre, "(" + ", ".join(terms) + ")", Tup(*ts)
        if not terms:
            return pre, "[]", Lst(UNK)
        t = ts[0]
        for x in ts[1:]:
            t = self.join(node, t, x)
        return pre, "[" + ", ".join(self.coerce(node, x, tx, t) for x, tx in zip(terms, ts)) + "]", Lst(t)

    def e_UnaryOp(self, node):
        if isinstance(node.op, ast.Not):
            pre, c = self.test(node)
            return pre, c, BOOL
        if isinstance(node.op, ast.USub):
            pre, x, t = self.expr(node.operand)
            if t == INT:
                return pre, "(-%s)" % x, INT
        self.fail(node, "unary operator")

    def e_BoolOp(self, node):
        for v in node.values:      # as a VALUE, and/or is only translated between bools
            if not self.is_boolish(v):
                self.fail(node, "`and`/`or` used for its value between non-bool operands")
        pre, c = self.test(node)
        return pre, c, BOOL

    def is_boolish(self, node):
        if isinstance(node, ast.BoolOp):
            return all(self.is_boolish(v) for v in node.values)
        if isinstance(node, ast.Compare) or (isinstance(node, ast.UnaryOp) and isinstance(node.op, ast.Not)):
            return True
        if isinstance(node, ast.Constant):
            return isinstance(node.value, bool)
        if isinstance(node, ast.Name):
            return self.lookup(node.id) == BOOL
        return False

    def test(self, node):
        """(pre, Bool term): the truth value of `node` in a test position"""
        st = self.static_test(node)
        if st is not None:
            return [], ("true" if st else "false")
        if isinstance(node, ast.BoolOp):
            pre, terms = [], []
            for i, v in enumerate(node.values):
                p, c = self.test(v)
                if p and i > 0:
                    self.fail(node, "an operand of and/or after the first can raise")
                pre += p
                terms.append(c)
            return pre, "(" + (" && " if isinstance(node.op, ast.And) else " || ").join(terms) + ")"
        if isinstance(node, ast.UnaryOp) and isinstance(node.op, ast.Not):
            pre, c = self.test(node.operand)
            return pre, "(!%s)" % c
        pre, x, t = self.expr(node, alias_ok=True)
        return pre, self.truthy(node, x, t)

    def e_BinOp(self, node):
        pre, a, ta = self.expr(node.left)
        p2, b, tb = self.expr(node.right)
        pre += p2
        op = type(node.op).__name__
        if ta == INT and tb == INT:
            if op in ("Add", "Sub", "Mult"):
                return pre, "(%s %s %s)" % (a, {"Add": "+", "Sub": "-", "Mult": "*"}[op], b), INT
            if op in ("FloorDiv", "Mod"):
                const = isinstance(node.right, ast.Constant) and isinstance(node.right.value, int) \
                    and not isinstance(node.right.value, bool) and node.right.value != 0
                if const:
                    return pre, "(%s %s %s)" % ("Int.fdiv" if op == "FloorDiv" else "Int.fmod", a, b), INT
                return pre, self.bind(pre, "%s %s %s" % ("pyFloorDiv" if op == "FloorDiv" else "pyMod", a, b), INT), INT
        if op == "Add" and ta == STR and tb == STR:
            return pre, "(%s ++ %s)" % (a, b), STR
        if op == "Add" and ta[0] == "list" and tb[0] == "list":
            t = self.join(node, ta, tb)
            return pre, "(%s ++ %s)" % (self.coerce(node, a, ta, t), self.coerce(node, b, tb, t)), t
        if op == "Mult" and (ta == STR or ta[0] == "list") and tb == INT:
            if _has_unk(ta):
                self.fail(node, "repetition of an empty display")
            return pre, "(pyRepeat %s %s)" % (a, b), ta
        self.fail(node, "operator %s on %s and %s" % (op, ta, tb))

    def e_Compare(self, node):
        if len(node.ops) != 1:
            self.fail(node, "chained comparison")
        op = type(node.ops[0]).__name__
        right = node.comparators[0]
        if op in ("Is", "IsNot"):
            if not (isinstance(right, ast.Constant) and right.value is None):
                self.fail(node, "`is` with anything but None")
            pre, a, ta = self.expr(node.left)
            if ta == NONE:
                return pre, ("true" if op == "Is" else "false"), BOOL
            if ta[0] != "opt":
                self.fail(node, "`is None` on a value that is not Optional")
            return pre, "(Option.%s %s)" % ("isNone" if op == "Is" else "isSome", a), BOOL
        pre, a, ta = self.expr(node.left, alias_ok=op in ("In", "NotIn"))
        p2, b, tb = self.expr(right, alias_ok=op in ("In", "NotIn"))
        pre += p2
        if op in ("Eq", "NotEq"):
            t = self.join(node, ta, tb)
            if _has_unk(t):
                self.fail(node, "comparison of two empty displays")
            return pre, "(%s %s %s)" % (self.coerce(node, a, ta, t), "==" if op == "Eq" else "!=",
                                        self.coerce(node, b, tb, t)), BOOL
        if op in ("Lt", "LtE", "Gt", "GtE"):
            if ta == INT and tb == INT:
                return pre, "(decide (%s %s %s))" % (a, {"Lt": "<", "LtE": "≤", "Gt": ">", "GtE": "≥"}[op], b), BOOL
            self.fail(node, "order comparison on %s" % (ta,))
        if op in ("In", "NotIn"):
            if tb == STR and ta == STR:
                c = "(pyStrContains %s %s)" % (a, b)
            elif tb[0] == "list" and not _has_unk(tb):
                c = "(List.contains %s %s)" % (b, self.coerce(node, a, ta, tb[1]))
            elif tb[0] == "dict":
                c = "(pyDictContains %s %s)" % (b, self.coerce(node, a, ta, tb[1]))
            else:
                self.fail(node, "`in` on %s" % (tb,))
            return pre, (c if op == "In" else "(!%s)" % c), BOOL
        self.fail(node, "comparison operator")

    def e_IfExp(self, node):
        st = self.static_test(node.test)
        if st is not None:
            return self.expr(node.body if st else node.orelse)
        nt = self.none_test(node.test)
        if nt is not None:
            name, none_first = nt
            t_opt = self.lookup(name)
            none_e, some_e = (node.body, node.orelse) if none_first else (node.orelse, node.body)
            pn, xn, tn = self.expr(none_e)
            self.push()
            self.scopes[-1][name] = t_opt[1]
            ps, xs, ts = self.expr(some_e)
            self.scopes.pop()
            t = self.join(node, tn, ts)
            xn, xs = self.coerce(node, xn, tn, t), self.coerce(node, xs, ts, t)
            v = self.ident(name)
            if not pn and not ps:
                return [], "(match %s with | none => %s | some %s => %s)" % (v, xn, v, xs), t
            pre = []
            r = self.bind(pre, "do", t)
            pre += _ind(["match %s with" % v, "| none =>"] + _ind(pn + ["pure %s" % xn])
                        + ["| some %s =>" % v] + _ind(ps + ["pure %s" % xs]))
            return pre, r, t
        pre, c = self.test(node.test)
        pa, a, ta = self.expr(node.body)
        pb, b, tb = self.expr(node.orelse)
        t = self.join(node, ta, tb)
        a, b = self.coerce(node, a, ta, t), self.coerce(node, b, tb, t)
        if not pa and not pb:
            return pre, "(if %s then %s else %s)" % (c, a, b), t
        r = self.bind(pre, "do", t)
        pre += _ind(["if %s then" % c] + _ind(pa + ["pure %s" % a]) + ["else"] + _ind(pb + ["pure %s" % b]))
        return pre, r, t

    def e_Subscript(self, node):
        pre, x, tx = self.expr(node.value, alias_ok=True)
        if isinstance(node.slice, ast.Slice):
            if node.slice.step is not None:
                self.fail(node, "slice with a step")
            if not (tx == STR or tx[0] == "list") or _has_unk(tx):
                self.fail(node, "slice of %s" % (tx,))
            bounds = []
            for b in (node.slice.lower, node.slice.upper):
                if b is None:
                    bounds.append("none")
                else:
                    p, y, ty = self.expr(b)
                    pre += p
                    if ty != INT:
                        self.fail(node, "slice bound of type %s" % (ty,))
                    bounds.append("(some %s)" % y)
            return pre, "(pySlice %s %s %s)" % (x, bounds[0], bounds[1]), tx
        if tx[0] == "tuple":
            k = node.slice.value if isinstance(node.slice, ast.Constant) else None
            n = len(tx) - 1
            if not isinstance(k, int) or isinstance(k, bool) or not 0 <= k < n:
                self.fail(node, "tuple index that is not a constant in range")
            return pre, "(%s)" % (x + ".2" * k + (".1" if k < n - 1 else "")), tx[1 + k]
        p, i, ti = self.expr(node.slice)
        pre += p
        if tx[0] == "dict":
            return pre, self.bind(pre, "pyDictGetItem %s %s" % (x, self.coerce(node, i, ti, tx[1])), tx[2]), tx[2]
        if ti != INT:
            self.fail(node, "index of type %s" % (ti,))
        if tx == STR:
            return pre, self.bind(pre, "pyGetItemStr %s %s" % (x, i), STR), STR
        if tx[0] == "list" and not _has_unk(tx):
            return pre, self.bind(pre, "pyGetItem %s %s" % (x, i), tx[1]), tx[1]
        self.fail(node, "subscript of %s" % (tx,))

    def e_Attribute(self, node):
        pre, x, tx = self.expr(node.value)
        if tx[0] == "struct":
            for f, t in tx[2]:
                if f == node.attr:
                    return pre, "(%s.%s)" % (x, self.ident(f)), t
        self.fail(node, "attribute of %s" % (tx,))

    def comprehension(self, node):
        """[elt for target in iter if conds] -> (pre, term, Lst(T))"""
        if len(node.generators) != 1 or node.generators[0].is_async:
            self.fail(node, "comprehension with several `for` clauses")
        g = node.generators[0]
        pre, xs, telt = self.iterable(g.iter)
        self.push()
        pat = self.bind_target(g.target, telt, loopvar=False)
        conds = []
        for c in g.ifs:
            p, ct = self.test(c)
            if p:
                self.fail(c, "a comprehension filter that can raise")
            conds.append(ct)
        pe, e, te = self.expr(node.elt)
        self.pop()
        if _has_unk(te):
            self.fail(node, "comprehension element of unknown type")
        if conds:
            xs = "(List.filter (fun %s => %s) %s)" % (pat, " && ".join(conds), xs)
        if not pe:
            return pre, "(List.map (fun %s => %s) %s)" % (pat, e, xs), Lst(te)
        r = self.bind(pre, "List.mapM (m := Except PyErr) (fun %s => do" % pat, Lst(te))
        pre += _ind(pe + ["pure %s) %s" % (e, xs)], 2)
        return pre, r, Lst(te)

    e_ListComp = comprehension

    def iterable(self, node):
        """(pre, list term, element type) of something that is iterated"""
        if isinstance(node, ast.Name) and node.id in self.iterating and node.id in self.mutated:
            self.fail(node, "iteration over a list that the loop mutates")
        if isinstance(node, ast.GeneratorExp):
            pre, x, t = self.comprehension(node)
        else:
            pre, x, t = self.expr(node, alias_ok=True)
        if t == STR:
            return pre, "(pyIterStr %s)" % x, STR
        if t[0] == "list" and not _has_unk(t):
            return pre, x, t[1]
        if t[0] == "dict":
            return pre, "(List.map Prod.fst %s)" % x, t[1]
        self.fail(node, "iteration over %s" % (t,))

    def bind_target(self, target, t, loopvar):
        """declare the names of a for/comprehension target; returns the Lean pattern"""
        if isinstance(target, ast.Name):
            if self.lookup(target.id) is not None or (loopvar and self.nassign.get(target.id)):
                self.fail(target, "loop variable shadows or is assigned like a local")
            self.scopes[-1][target.id] = t
            return self.ident(target.id)
        if isinstance(target, ast.Tuple) and t[0] == "tuple" and len(target.elts) == len(t) - 1:
            return "(" + ", ".join(self.bind_target(e, te, loopvar) for e, te in zip(target.elts, t[1:])) + ")"
        self.fail(target, "loop target")

    def e_Call(self, node):
        if any(isinstance(a, ast.Starred) for a in node.args) or any(k.arg is None for k in node.keywords):
            self.fail(node, "star-arguments")
        f = node.func
        if isinstance(f, ast.Attribute):
            return self.method_call(node)
        if not isinstance(f, ast.Name):
            self.fail(node, "call of a computed function")
        if self.lookup(f.id) is not None or f.id in self.nassign:
            self.fail(node, "call of a local variable")
        try:
            obj = self.resolve_global(f.id)
        except KeyError:
            self.fail(node, "unknown function")
        if id(obj) in self.module_specs and self.module_specs[id(obj)].fn is obj:
            return self.spec_call(node, self.module_specs[id(obj)])
        if getattr(builtins, f.id, None) is obj:
            return self.builtin_call(node, f.id)
        import array as _array
        if obj is _array.array:
            # array('i', xs): modelled as the list xs (ASSUMPTION: every element fits the C type; OverflowError is
            # outside the model, like MemoryError)
            a = self.args(node, 2)
            if not (isinstance(a[0], ast.Constant) and a[0].value in ("b", "h", "i", "l", "q")):
                self.fail(node, "array() with a typecode other than a signed integer one")
            pre, x, t = self.iterable(a[1])
            if t != INT:
                self.fail(node, "array() of non-ints")
            return pre, x, Lst(INT)
        self.fail(node, "call of a function that is neither a supported builtin nor translated earlier in this module")

    def spec_call(self, node, callee):
        a = inspect.signature(callee.fn).parameters
        names = list(a)
        given = {}
        if len(node.args) > len(names):
            self.fail(node, "too many arguments")
        for n, e in zip(names, node.args):
            given[n] = e
        for k in node.keywords:
            if k.arg in given or k.arg not in names:
                self.fail(node, "keyword argument")
            given[k.arg] = k.value
        pre, terms = [], []
        for n in names:            # Python evaluates the arguments in the order they are written
            if n in callee.fixed:
                if n in given:
                    e = given[n]
                    if not (isinstance(e, ast.Constant) and e.value == callee.fixed[n] and type(e.value) is type(callee.fixed[n])):
                        self.fail(node, "argument `%s` differs from the value fixed for the translated callee" % n)
                elif a[n].default is inspect.Parameter.empty or a[n].default != callee.fixed[n]:
                    self.fail(node, "default of `%s` differs from the value fixed for the translated callee" % n)
        order = [n for n, _ in sorted(((n, (e.lineno, e.col_offset)) for n, e in given.items()), key=lambda z: z[1])]
        vals = {}
        for n in order:
            if n in callee.fixed:
                continue
            p, x, t = self.expr(given[n])
            pre += p
            vals[n] = self.coerce(given[n], x, t, dict(callee.params)[n])
        for n, t in callee.params:
            if n not in vals:
                d = a[n].default
                if d is inspect.Parameter.empty:
                    self.fail(node, "missing argument `%s`" % n)
                x, tx = lean_const(d)
                vals[n] = self.coerce(node, x, tx, t)
            terms.append(vals[n])
        call = " ".join([callee.name] + terms)
        if callee.monadic:
            return pre, self.bind(pre, call, callee.ret), callee.ret
        return pre, "(" + call + ")", callee.ret

    def args(self, node, lo, hi=None):
        if node.keywords or not lo <= len(node.args) <= (hi or lo):
            self.fail(node, "argument list of this call")
        return node.args

    def builtin_call(self, node, name):
        if name == "len":
            pre, x, t = self.expr(self.args(node, 1)[0], alias_ok=True)
            if t == STR or t[0] in ("list", "dict"):
                return pre, "(pyLen %s)" % x, INT
        elif name == "str":
            pre, x, t = self.expr(self.args(node, 1)[0])
            if t == STR:
                return pre, x, STR
            if t == INT:
                return pre, "(pyStrInt %s)" % x, STR
        elif name in ("tuple", "list"):
            pre, x, t = self.iterable(self.args(node, 1)[0])
            return pre, x, Lst(t)
        elif name == "map":
            fn, xs = self.args(node, 2)
            pre, x, t = self.iterable(xs)
            v = self.fresh()
            self.push()
            self.scopes[-1][v] = t
            call = ast.Call(func=fn, args=[ast.Name(id=v, ctx=ast.Load())], keywords=[])
            ast.copy_location(call, node)
            ast.fix_missing_locations(call)
            pe, e, te = self.expr(call)
            self.scopes.pop()
            if pe:
                self.fail(node, "map() of a function that can raise (the iterator is lazy)")
            return pre, "(List.map (fun %s => %s) %s)" % (v, e, x), Lst(te)
        elif name == "range":
            a = self.args(node, 1, 3)
            pre, terms = [], []
            for e in a:
                p, x, t = self.expr(e)
                if t != INT:
                    self.fail(node, "range() of a non-int")
                pre += p
                terms.append(x)
            if len(a) == 3:
                s = a[2]
                neg = isinstance(s, ast.UnaryOp) and isinstance(s.op, ast.USub)
                c = s.operand if neg else s
                if not (isinstance(c, ast.Constant) and isinstance(c.value, int) and not isinstance(c.value, bool)
                        and c.value != 0):
                    self.fail(node, "range() step that is not a non-zero constant")
            if len(a) == 1:
                terms = ["(0 : Int)"] + terms
            if len(terms) == 2:
                terms.append("(1 : Int)")
            return pre, "(pyRange %s)" % " ".join(terms), Lst(INT)
        elif name == "enumerate":
            pre, x, t = self.iterable(self.args(node, 1)[0])
            return pre, "(pyEnumerate %s)" % x, Lst(Tup(INT, t))
        elif name == "zip":
            a, b = self.args(node, 2)
            pre, x, tx = self.iterable(a)
            p2, y, ty = self.iterable(b)
            return pre + p2, "(List.zip %s %s)" % (x, y), Lst(Tup(tx, ty))
        elif name == "sum":
            pre, x, t = self.iterable(self.args(node, 1)[0])
            if t == INT:
                return pre, "(pySum %s)" % x, INT
        elif name in ("min", "max"):
            a, b = self.args(node, 2)
            pre, x, tx = self.expr(a)
            p2, y, ty = self.expr(b)
            if tx == INT and ty == INT:
                return pre + p2, "(%s %s %s)" % ("Min.min" if name == "min" else "Max.max", x, y), INT
        elif name == "abs":
            pre, x, t = self.expr(self.args(node, 1)[0])
            if t == INT:
                return pre, "((Int.natAbs %s : Nat) : Int)" % x, INT
        elif name == "bool":
            pre, c = self.test(self.args(node, 1)[0])
            return pre, c, BOOL
        elif name == "int":
            pre, x, t = self.expr(self.args(node, 1)[0])
            if t == INT:
                return pre, x, INT
        self.fail(node, "builtin call outside the supported ones/types")

    def const_str(self, node):
        """the value of a str-constant expression (literal or module-level constant), else None"""
        if isinstance(node, ast.Constant) and isinstance(node.value, str):
            return node.value
        if isinstance(node, ast.Name) and self.lookup(node.id) is None and node.id not in self.nassign:
            try:
                v = self.resolve_global(node.id)
            except KeyError:
                return None
            return v if isinstance(v, str) else None
        return None

    def method_call(self, node):
        f = node.func
        m = f.attr
        pre, r, tr = self.expr(f.value, alias_ok=True)
        if tr == STR:
            if m == "replace":
                a, b = self.args(node, 2)
                p1, x, tx = self.expr(a)
                p2, y, ty = self.expr(b)
                if tx == STR and ty == STR:
                    return pre + p1 + p2, "(pyReplace %s %s %s)" % (r, x, y), STR
            elif m == "split":
                a, = self.args(node, 1)
                if not self.const_str(a):
                    self.fail(node, "split() whose separator is not a non-empty str constant")
                p1, x, tx = self.expr(a)
                return pre + p1, "(pySplit %s %s)" % (r, x), Lst(STR)
            elif m in ("rstrip", "lstrip", "strip"):
                a, = self.args(node, 1)
                p1, x, tx = self.expr(a)
                if tx == STR:
                    return pre + p1, "(py%s %s %s)" % (m.capitalize(), r, x), STR
            elif m in ("startswith", "endswith"):
                a, = self.args(node, 1)
                p1, x, tx = self.expr(a)
                if tx == STR:
                    return pre + p1, "(py%s %s %s)" % (m.capitalize(), r, x), BOOL
            elif m == "join":
                a, = self.args(node, 1)
                p1, x, tx = self.iterable(a)
                if tx == STR:
                    return pre + p1, "(pyJoin %s %s)" % (r, x), STR
        elif tr[0] == "dict":
            if m == "get":
                a = self.args(node, 1, 2)
                p1, k, tk = self.expr(a[0])
                k = self.coerce(node, k, tk, tr[1])
                if len(a) == 1 or (isinstance(a[1], ast.Constant) and a[1].value is None):
                    return pre + p1, "(pyDictGet? %s %s)" % (r, k), Opt(tr[2])
                p2, d, td = self.expr(a[1])
                return pre + p1 + p2, "(pyDictGetD %s %s %s)" % (r, k, self.coerce(node, d, td, tr[2])), tr[2]
        self.fail(node, "method `%s` on %s" % (m, tr))

    # ----------------------------------------------------------------------------------------------- statements
    def block(self, stmts, scope=True):
        if scope:
            self.push()
        out = []
        for s in stmts:
            m = getattr(self, "s_" + type(s).__name__, None)
            if m is None:
                self.fail(s, "statement form %s" % type(s).__name__)
            lines = m(s)
            if lines:
                out.append("-- " + ast.unparse(s).split("\n")[0])
                out += lines
        if scope:
            self.pop()
        return out or ["pure ()"]

    def assign_name(self, node, name, term, t):
        """`name = term` → let / let mut / :="""
        if name in self.spec.fixed or name in self.loopvars:
            self.fail(node, "assignment to a fixed parameter or loop variable")
        old = self.lookup(name)
        if old is not None:
            return ["%s := %s" % (self.ident(name), self.coerce(node, term, t, old))]
        if _has_unk(t):
            self.fail(node, "cannot infer the element type of `%s` (annotate it: `%s: List[T] = []`)" % (name, name))
        self.dead.discard(name)
        self.scopes[-1][name] = t
        mut = "mut " if self.nassign.get(name, 0) > 1 else ""
        return ["let %s%s : %s := %s" % (mut, self.ident(name), lean_type(t), term)]

    def s_Assign(self, node):
        if len(node.targets) != 1:
            self.fail(node, "chained assignment")
        return self.assign_to(node, node.targets[0], node.value, None)

    def s_AnnAssign(self, node):
        if node.value is None:
            return []          # a bare annotation has no run-time effect
        if not isinstance(node.target, ast.Name):
            self.fail(node, "annotated assignment to a non-name")
        return self.assign_to(node, node.target, node.value, self.annotation(node.annotation))

    def assign_to(self, node, target, value, ann):
        pre, x, t = self.expr(value)
        if isinstance(target, ast.Name):
            if ann is not None and self.lookup(target.id) is None:
                x, t = self.coerce(node, x, t, ann), ann
            return pre + self.assign_name(node, target.id, x, t)
        if isinstance(target, ast.Tuple) and all(isinstance(e, ast.Name) for e in target.elts):
            if t[0] != "tuple" or len(t) - 1 != len(target.elts) or len({e.id for e in target.elts}) != len(target.elts):
                self.fail(node, "tuple assignment from %s" % (t,))
            tmp = [self.fresh() for _ in target.elts]
            out = pre + ["let (%s) := %s" % (", ".join(tmp), x)]
            for e, v, te in zip(target.elts, tmp, t[1:]):
                out += self.assign_name(node, e.id, v, te)
            return out
        if isinstance(target, ast.Subscript) and isinstance(target.value, ast.Name):
            name = target.value.id
            tl = self.lookup(name)
            if tl is None or tl[0] != "list" or name in self.iterating or isinstance(target.slice, ast.Slice):
                self.fail(node, "item assignment")
            p2, i, ti = self.expr(target.slice)
            if ti != INT:
                self.fail(node, "item assignment with a non-int index")
            # Python evaluates the right-hand side first, then the index
            self.effect = True
            v = self.ident(name)
            return pre + p2 + ["%s ← pySetItem %s %s %s" % (v, v, i, self.coerce(node, x, t, tl[1]))]
        self.fail(node, "assignment target")

    def s_AugAssign(self, node):
        if not isinstance(node.target, ast.Name) or self.lookup(node.target.id) is None:
            self.fail(node, "augmented assignment to anything but a bound local")
        if node.target.id in self.mutated:
            self.fail(node, "augmented assignment to a mutated list (in-place extend)")
        e = ast.BinOp(left=ast.Name(id=node.target.id, ctx=ast.Load()), op=node.op, right=node.value)
        ast.copy_location(e, node)
        ast.fix_missing_locations(e)
        pre, x, t = self.expr(e)
        if self.lookup(node.target.id)[0] == "list":
            self.fail(node, "`+=` on a list (in-place; aliasing)")
        return pre + self.assign_name(node, node.target.id, x, t)

    def s_Expr(self, node):
        v = node.value
        if isinstance(v, ast.Constant) and isinstance(v.value, str):
            return []          # docstring
        if (isinstance(v, ast.Call) and isinstance(v.func, ast.Attribute) and isinstance(v.func.value, ast.Name)
                and v.func.attr in ("append", "extend") and len(v.args) == 1 and not v.keywords):
            name = v.func.value.id
            tl = self.lookup(name)
            if tl is None or tl[0] != "list" or name in self.iterating:
                self.fail(node, "append/extend on something that is not a local list (or is being iterated)")
            if v.func.attr == "append":
                pre, x, t = self.expr(v.args[0])
                x = "[%s]" % self.coerce(node, x, t, tl[1])
            else:
                pre, x, t = self.iterable(v.args[0])
                x = self.coerce(node, x, Lst(t), tl)
            return pre + ["%s := %s ++ %s" % (self.ident(name), self.ident(name), x)]
        self.fail(node, "expression statement (only append/extend on a local list are translated)")

    def s_Pass(self, node):
        return ["pure ()"]

    def s_Break(self, node):
        return ["break"]

    def s_Continue(self, node):
        return ["continue"]

    def s_Return(self, node):
        if node.value is None:
            x, t = "none", NONE
            pre = []
        else:
            pre, x, t = self.expr(node.value, alias_ok=True, in_return=True)
        if self.spec.ret == NONE and t == NONE:
            return pre + ["return ()"]
        return pre + ["return %s" % self.coerce(node, x, t, self.spec.ret)]

    def s_Raise(self, node):
        if node.exc is None or node.cause is not None:
            self.fail(node, "re-raise / raise-from")
        e = node.exc.func if isinstance(node.exc, ast.Call) else node.exc
        if not isinstance(e, ast.Name) or self.lookup(e.id) is not None:
            self.fail(node, "raise of a computed exception")
        try:
            cls = self.resolve_global(e.id)
        except KeyError:
            self.fail(node, "unknown exception class")
        if not (isinstance(cls, type) and issubclass(cls, BaseException)):
            self.fail(node, "raise of something that is not an exception class")
        self.effect = True
        if cls.__module__ == "builtins":
            if cls.__name__ not in _BUILTIN_ERRS:
                self.fail(node, "builtin exception class without a PyErr constructor")
            return ["throw PyErr.%s" % cls.__name__]
        return ['throw (PyErr.user "%s")' % cls.__name__]

    def s_If(self, node):
        st = self.static_test(node.test)
        if st is not None:        # decided by a fixed parameter: the dead branch is not translated
            live = node.body if st else node.orelse
            note = ["-- (test decided at translation time: %s; the other branch is not translated)" % st]
            return note + (self.block(live, scope=False) if live else ["pure ()"])
        nt = self.none_test(node.test)
        if nt is not None:
            name, none_first = nt
            t_opt = self.lookup(name)
            none_b, some_b = (node.body, node.orelse) if none_first else (node.orelse, node.body)
            v = self.ident(name)
            ln = self.block(none_b) if none_b else ["pure ()"]
            self.push()
            self.scopes[-1][name] = t_opt[1]
            ls = self.block(some_b, scope=False) if some_b else ["pure ()"]
            self.scopes.pop()
            return ["match %s with" % v, "| none =>"] + _ind(ln) + ["| some %s =>" % v] + _ind(ls)
        pre, c = self.test(node.test)
        out = pre + ["if %s then" % c] + _ind(self.block(node.body))
        if node.orelse:
            if len(node.orelse) == 1 and isinstance(node.orelse[0], ast.If) and self.static_test(node.orelse[0].test) is None \
                    and self.none_test(node.orelse[0].test) is None:
                self.push()
                inner = self.s_If(node.orelse[0])
                self.pop()
                # an elif whose test needs a raising sub-expression cannot be flattened
                if inner and inner[0].startswith("if "):
                    return out + ["else " + inner[0]] + inner[1:]
                return out + ["else"] + _ind(inner)
            out += ["else"] + _ind(self.block(node.orelse))
        return out

    def s_For(self, node):
        if node.orelse:
            self.fail(node, "for-else")
        pre, xs, t = self.iterable(node.iter)
        self.push()
        names = [n.id for n in ast.walk(node.target) if isinstance(n, ast.Name)]
        pat = self.bind_target(node.target, t, loopvar=True)
        self.loopvars += names
        it = node.iter.id if isinstance(node.iter, ast.Name) else None
        self.iterating.append(it)
        body = self.block(node.body)
        self.iterating.pop()
        self.pop()
        return pre + ["for %s in %s do" % (pat, xs)] + _ind(body)

    # ------------------------------------------------------------------------------------------------ function
    @staticmethod
    def terminates(stmts):
        if not stmts:
            return False
        s = stmts[-1]
        if isinstance(s, (ast.Return, ast.Raise)):
            return True
        if isinstance(s, ast.If):
            return bool(s.orelse) and _Fn.terminates(s.body) and _Fn.terminates(s.orelse)
        return False

    def translate(self):
        self.prepass()
        for p, t in self.spec.params:
            self.scopes[0][p] = t
        head = []
        for p, t in self.spec.params:
            if self.nassign.get(p):
                head.append("let mut %s := %s" % (self.ident(p), self.ident(p)))
        body = self.node.body
        single = None
        stmts = [s for s in body if not (isinstance(s, ast.Expr) and isinstance(s.value, ast.Constant))]
        if len(stmts) == 1 and isinstance(stmts[0], ast.Return) and stmts[0].value is not None and not head:
            pre, x, t = self.expr(stmts[0].value, alias_ok=True)
            if not pre:
                single = self.coerce(stmts[0], x, t, self.spec.ret)
        if single is None:
            self.scopes = [dict(self.scopes[0])]
            self.effect, self.tmp, self.dead = False, 0, set()
            lines = head + self.block(body, scope=False)
            if not self.terminates(body):
                if self.spec.ret == NONE:
                    lines.append("return ()")
                elif self.spec.ret[0] == "opt":
                    lines.append("return none")
                else:
                    raise Unsupported("%s: control can reach the end of the function (returns None) but the declared "
                                      "result type is not Optional" % self.spec.name)
        self.spec.monadic = self.effect
        ret = lean_type(self.spec.ret, paren=self.effect)
        params = "".join(" (%s : %s)" % (self.ident(p), lean_type(t)) for p, t in self.spec.params)
        mod = getattr(self.spec.fn, "__module__", "?")
        qual = getattr(self.spec.fn, "__qualname__", self.spec.name)
        fixed = "".join(", %s=%r" % kv for kv in sorted(self.spec.fixed.items()))
        out = ["/-- translated from the source text of `%s.%s`%s -/" % (mod, qual, (" with" + fixed[1:]) if fixed else "")]
        if single is not None:
            out.append("def %s%s : %s :=" % (self.spec.name, params, ret))
            out.append("  " + single)
        elif self.effect:
            out.append("def %s%s : Except PyErr %s := do" % (self.spec.name, params, ret))
            out += _ind(lines)
        else:
            out.append("def %s%s : %s := Id.run do" % (self.spec.name, params, ret))
            out += _ind(lines)
        return out


def translate_function(spec, module_specs=None):
    """Lean source lines of one definition"""
    return _Fn(spec, module_specs or {}).translate()


def translate_module(specs, namespace, imports=()):
    """Text of a whole Lean file: the translations of `specs` (in this order; a function may call earlier ones)."""
    out = ["/- GENERATED by harness/common/py2lean.py from the current source text of /repo. Do not edit.",
           "   Accepted Python subset and semantic assumptions: see the docstring of py2lean.py and TRANSLATOR.md. -/",
           "import Verif.Common.PyRt"]
    out += ["import %s" % i for i in imports]
    out += ["", "set_option linter.unusedVariables false", "", "namespace %s" % namespace, "open Verif.PyRt", ""]
    done = {}
    for sp in specs:
        out += translate_function(sp, done)
        out.append("")
        done[id(sp.fn)] = sp
    out.append("end %s" % namespace)
    return "\n".join(out) + "\n"
